#!/bin/bash
# Builds the whole Coq development from files on disk (offline).  Full .vo build.
set -e
/venv/bin/python "$(dirname "$0")/tools/gen_facts.py"
cd "$(dirname "$0")/coq"
coq_makefile -f _CoqProject -o Makefile
timeout 3000 make -j16 2>&1 | grep -v 'conda.cli.condarc' | tail -5
echo "setup ok"
