"""C13 - serving a request never changes what any other request returns.
Proof (partial, see props/C13.v): structural facts regenerated from the source + non-interference of read-only-shared scripts under
every interleaving.
Dynamic check (the tie of the model's shape to the code): (1) request histories against ONE application object - every response
byte-identical to the answer of a fresh application, served dataset deep-equal before and after; (2) 2-3 requests in threads under
a deterministic scheduler that switches threads at pydap function-call / line events (single preemption at every call point of
sampled pairs, two preemptions and random schedules sampled) - every response byte-identical to its sequential answer."""
import random
import sys
import threading

from common import Report, proof_phase, use_repo

PID = "C13"


def build_dataset():
    import numpy as np
    from pydap.handlers.lib import IterData
    from pydap.model import BaseType, DatasetType, GridType, SequenceType, StructureType
    ds = DatasetType("d", title="isolation", history=["a", "b"])
    # array-valued attributes (a 2-D table, a vector of 40 levels): metadata responses print them through numpy
    ds["x"] = BaseType("x", np.arange(24, dtype="i4").reshape(2, 3, 4), units="m", corners=np.arange(8.0).reshape(2, 4),
                       levels=np.linspace(0.0, 975.0, 40))
    # float64 data holding the value its _FillValue attribute names (a function must not write into what is served)
    ds["f"] = BaseType("f", np.linspace(0, 1, 6).reshape(2, 3), attributes={"valid": [0.0, 1.0], "_FillValue": 0.2})
    ds["s"] = BaseType("s", np.array(["ab", "c", ""]))
    g = GridType("g", note="grid")
    g["a"] = BaseType("a", np.arange(12, dtype="f8").reshape(3, 4), dims=("y", "z"), missing_value=5.0)
    g["y"] = BaseType("y", np.arange(3) * 10.0)
    g["z"] = BaseType("z", np.arange(4) * 100.0)
    ds["g"] = g
    st = StructureType("st", k=1)
    st["m"] = BaseType("m", np.arange(4, dtype="u2"))
    st["n"] = BaseType("n", np.array(2.5))
    ds["st"] = st
    # the first Sequence of the dataset is the one bounds() filters in place, so it is the one with axis attributes
    loc = SequenceType("loc")
    for c, axis in (("lon", "X"), ("lat", "Y"), ("depth", "Z"), ("t", None)):
        loc[c] = BaseType(c, attributes={"axis": axis} if axis else {})
    loc.data = np.array([(10.0, 1.0, 5.0, 1), (20.0, 2.0, 15.0, 2), (30.0, 3.0, 25.0, 3)],
                        dtype=[("lon", "f8"), ("lat", "f8"), ("depth", "f8"), ("t", "i4")])
    ds["loc"] = loc
    sq = SequenceType("q")
    for c in ("a", "b", "c"):
        sq[c] = BaseType(c)
    sq.data = np.array([(1, 2.5, "u"), (3, 4.5, "vw"), (5, -1.0, ""), (7, 8.0, "xyz")], dtype=[("a", "i4"), ("b", "f8"), ("c", "S3")])
    ds["q"] = sq
    lz = SequenceType("lz")
    lz["k"] = BaseType("k")
    lz["v"] = BaseType("v")
    lz.data = IterData([(np.int32(i), np.float64(i) / 2) for i in range(5)], lz)
    ds["lz"] = lz
    # a lazy sequence that is served as a view (a record range taken before it was handed to the server)
    ls = SequenceType("ls")
    ls["k"] = BaseType("k")
    ls["v"] = BaseType("v")
    ls.data = IterData([(np.int32(i), np.float64(i) / 4) for i in range(11)], ls)[1:]
    ds["ls"] = ls
    # a lazy sequence whose column mixes Python types across rows: the declared type is taken from the first selected record,
    # per request - and must not be remembered from an earlier request
    mx = SequenceType("mx")
    mx["a"] = BaseType("a")
    mx["b"] = BaseType("b")
    mx.data = IterData([(1, 1), (2, 2.5), (3, 3), (4, 4.25)], mx)
    ds["mx"] = mx
    # both zeros (equal as numbers, printed differently), as data and as attributes, next to an array with more distinct values
    # than any small table of formatted numbers would hold
    ds["z0"] = BaseType("z0", np.array([0.0, 1.5]), offset=0.0)
    ds["z1"] = BaseType("z1", np.array([-0.0, 2.5]), offset=-0.0)
    ds["zi"] = BaseType("zi", np.array([0, 3], dtype="i4"), flag=0)
    ds["big"] = BaseType("big", np.arange(300) * 1.5 + 0.25)
    return ds


def snapshot(var):
    """deep, comparable picture of the served dataset: structure, ids, attributes, values"""
    import numpy as np
    from pydap.handlers.lib import IterData
    from pydap.model import BaseType
    attrs = repr(sorted((k, repr(v)) for k, v in var.attributes.items()))
    if isinstance(var, BaseType):
        d = var._data
        if isinstance(d, np.ndarray):
            data = (str(d.dtype), d.shape, d.tobytes())
        else:
            data = repr(type(d))
        return ("B", var.name, var.id, attrs, tuple(var.dims), data)
    d = getattr(var, "_data", None)
    if isinstance(d, np.ndarray):
        data = (str(d.dtype), d.shape, d.tobytes())
    elif isinstance(d, IterData):
        data = ("iter", repr(list(d.stream)), repr(d.ifilter), repr(d.imap), repr(d.islice))
    else:
        data = repr(type(d))
    return (type(var).__name__, var.name, var.id, attrs, data, tuple(var._visible_keys), tuple(var._dict.keys()),
            tuple(snapshot(c) for c in var._dict.values()))


REQUESTS = [
    "/d.html", "/d.html?x", "/d.dds", "/d.das", "/d.dods", "/d.ascii", "/d.ver",
    "/d.dods?x[0:1][1:2][0:2:3]", "/d.dds?x[0:0]", "/d.ascii?f[1][0:1]", "/d.dods?g[0:1][1:3]", "/d.dods?g.a[1:2],g.y", "/d.dds?st.m",
    "/d.dods?st.m[1:2],s", "/d.dods?q", "/d.dods?q.c,q.a", "/d.ascii?q&q.a>1", "/d.dods?q.a&q.a>1&q.b<5", "/d.dods?q[1:2]",
    "/d.dods?ls", "/d.dods?ls[1:2]", "/d.ascii?ls[0:2:6]", "/d.dods?ls.k&ls.k>2",
    "/d.dods?lz", "/d.ascii?lz&lz.k>1", "/d.dods?lz.v&lz.k<3", "/d.dods?lz[1:3]", "/d.das?x[0:0]",
    "/d.dods?mean(x,0)", "/d.dods?mean(mean(x,0),0)", "/d.ascii?mean(g,1)", "/d.dods?x,mean(f,1)", "/d.dods?loc&bounds(0,25,0,5,0,20,0,9)",
    "/d.dods?m", "/d.dds?m", "/d.ascii?n", "/d.dods?k", "/d.dods?q.a", "/d.dods?loc.t", "/d.dods?lz.k", "/d.dods?q.b", "/d.dods?lz.v",
    # redundant projections (a constructor and then one of its members; a member twice; members in another order)
    "/d.dods?st,st.m", "/d.dds?g,g.a", "/d.dods?g,g.y", "/d.dods?q,q.a", "/d.ascii?q,q.b", "/d.dods?lz,lz.k", "/d.dods?x,x",
    "/d.dods?q.a,q.a", "/d.dods?st.n,st.m", "/d.dods?g.z,g.a", "/d.dods?loc,loc.lon",
    # selections made of function calls only (the middleware strips them and filters what the handler returns)
    "/d.dods?bounds(0,25,0,5,0,20,0,9)", "/d.ascii?loc.lon&bounds(0,25,0,5,0,20,0,9)", "/d.dods?loc.t,q.a&bounds(15,35,0,5,0,30,0,9)",
    "/d.dods?loc&bounds(0,25,0,5,0,20,0,9)&loc.t>1",
    "/d.dods?mx", "/d.dods?mx&mx.a>1", "/d.dds?mx&mx.a>1", "/d.dods?mx.b&mx.a>2", "/d.ascii?mx&mx.a>1", "/d.dds?mx",
    "/d.ascii?z0", "/d.ascii?z1", "/d.ascii?zi", "/d.das?z1", "/d.ascii?big", "/d.dods?z1",
    "/d.dods?nope", "/d.dods?x[5:9]", "/d.dods?q&q.zz>1", "/d.xyz", "/d", "/d.dods?x[0:1", "/d.dods?mean(nope,0)", "/d.dods?q&q.a>>1",
]


def fetch(app, url):
    from webob import Request
    try:
        res = Request.blank(url).get_response(app)
        body = res.body
        if res.status_int >= 500:
            # an error document quotes a traceback: object addresses in it differ from run to run
            import re
            body = re.sub(rb"0x[0-9a-fA-F]+", b"0x", body)
        hdr = tuple(sorted((k, v) for k, v in res.headers.items() if k.lower() not in ("date",)))
        return (res.status, hdr, body)
    except Exception as e:  # noqa
        return ("raised", type(e).__name__, str(e)[:200])


class Sched:
    """deterministic scheduler: exactly one traced thread runs at a time; `decide` picks who runs after every switch point"""

    def __init__(self, n, decide):
        self.cv = threading.Condition()
        self.turn = 0
        self.alive = set(range(n))
        self.count = [0] * n
        self.decide = decide
        self.trace = []

    def point(self, tid):
        with self.cv:
            self.count[tid] += 1
            nxt = self.decide(tid, self.count[tid], sorted(self.alive))
            if nxt != tid and nxt in self.alive:
                self.trace.append((tid, self.count[tid], nxt))
                self.turn = nxt
                self.cv.notify_all()
                while self.turn != tid:
                    self.cv.wait()

    def start(self, tid):
        with self.cv:
            while self.turn != tid:
                self.cv.wait()

    def finish(self, tid):
        with self.cv:
            self.alive.discard(tid)
            if self.alive:
                self.turn = min(self.alive)
            self.cv.notify_all()


def run_threads(app, urls, decide, granularity):
    sched = Sched(len(urls), decide)
    results = [None] * len(urls)

    def worker(tid):
        def tracer(frame, event, arg):
            if "/pydap/" not in frame.f_code.co_filename:
                return None
            if event == "call":
                if granularity == "resp":      # the points are the lines inside the response encoders, nothing else
                    return tracer if "/pydap/responses/" in frame.f_code.co_filename else None
                sched.point(tid)
                return tracer if granularity == "line" else None
            if event == "line" and granularity in ("line", "resp"):
                sched.point(tid)
            return tracer
        sched.start(tid)
        sys.settrace(tracer)
        try:
            results[tid] = fetch(app, urls[tid])
        finally:
            sys.settrace(None)
            sched.finish(tid)
    ths = [threading.Thread(target=worker, args=(i,)) for i in range(len(urls))]
    for t in ths:
        t.start()
    for t in ths:
        t.join(120)
    return results, sched


def main():
    r = Report(PID)
    rng = random.Random(r.seed)
    T = r.tier
    proof_phase(r, PID)
    use_repo()
    from pydap.handlers.lib import BaseHandler
    from pydap.wsgi.ssf import ServerSideFunctions

    def fresh_app():
        return ServerSideFunctions(BaseHandler(build_dataset()))
    direct = []
    class Baseline(dict):
        """answer of a freshly built application, computed on first use"""
        def __missing__(self, u):
            self[u] = fetch(fresh_app(), u)
            return self[u]
    def build_e():
        import numpy as np
        from pydap.model import BaseType, DatasetType
        # built with a dimensions table (as the NetCDF handler does): one dimension no variable uses, one used by u only
        e = DatasetType("e", title="levels and corners", dimensions={"z": 3, "x": 4, "w": 2, "unused": 5})
        e["t"] = BaseType("t", np.arange(12, dtype="<f4").reshape(3, 4), dims=("/z", "/x"), units="K",
                          corners=np.arange(8.0).reshape(2, 4), levels=np.linspace(0.0, 975.0, 40))
        e["u"] = BaseType("u", np.arange(2, dtype="<i4"), dims=("/w",))
        return BaseHandler(e)
    RE = ["/e.dmr", "/e.html", "/e.dds", "/e.das", "/e.dods?t[0:1][1:2]", "/e.ascii?t", "/e.dmr?t", "/e.dmr?u", "/e.dds?u", "/e.das?u"]
    base_e = {u: fetch(build_e(), u) for u in RE}          # /e.dmr first: before this process has served any DAS of it
    baseline = Baseline()
    for u in REQUESTS:
        baseline[u]
    # the same answers taken in processes of their own (one per request): what a fresh application answers must not depend on
    # what this process has formatted, parsed or cached before
    import json as _json
    import os as _os
    import subprocess as _sp
    from concurrent.futures import ThreadPoolExecutor as _TPE

    def isolated(u):
        env = dict(_os.environ, PYTHONPATH=_os.pathsep.join(sys.path), PYTHONHASHSEED="0")
        out = _sp.run([sys.executable, "-W", "ignore", _os.path.abspath(__file__), "--fetch", u], capture_output=True, env=env, timeout=300)
        try:
            return _json.loads(out.stdout.decode().strip().splitlines()[-1])
        except Exception:
            return ["subprocess-failed", out.stderr.decode()[-300:]]
    iso_reqs = list(REQUESTS) if T != "quick" else [u for u in REQUESTS if "ascii" in u or "das" in u or u.endswith((".dods", ".dds", ".html"))]
    with _TPE(max_workers=12) as ex:
        iso = dict(zip(iso_reqs, ex.map(isolated, iso_reqs)))
    for u in iso_reqs:
        r.count(("isolated-process", u))
        mine = baseline[u]
        mine_j = [str(mine[0]), repr(mine[1]), mine[2].hex() if isinstance(mine[2], bytes) else str(mine[2])]
        if iso[u] != mine_j:
            direct.append({"law": "the answer of a fresh application does not depend on what its process has served before (compared "
                                  "with the answer given in a process of its own)", "request": u, "status_here": str(mine[0]),
                           "isolated": str(iso[u])[:300], "here": str(mine_j)[:300]})
            break
    stats = {"histories": 0, "requests_in_histories": 0, "schedules": 0, "switches": 0, "single_preemption": 0, "double_preemption": 0,
             "random_line_schedules": 0, "baseline_outcomes": {}}
    for u, b in baseline.items():
        k = b[0] if b[0] != "raised" else "raised:" + b[1]
        stats["baseline_outcomes"][k] = stats["baseline_outcomes"].get(k, 0) + 1

    # ---- (1) histories against one application object
    for h in range(25 if T == "quick" else 400):
        ds = build_dataset()
        app = ServerSideFunctions(BaseHandler(ds))
        before = snapshot(ds)
        hist = []
        for _ in range(rng.randint(3, 9)):
            # the same request again (possibly as another response kind) is the likeliest victim of state kept between requests
            if hist and rng.random() < 0.35:
                u = rng.choice(hist)
                if rng.random() < 0.4 and "?" in u:
                    u = "/d." + rng.choice(["dds", "dods", "ascii"]) + "?" + u.split("?", 1)[1]
                    if u not in baseline:
                        baseline[u] = fetch(fresh_app(), u)
                hist.append(u)
            else:
                hist.append(rng.choice(REQUESTS))
        if h == 0:
            # scripted: the two zeros asked again after a request that formats hundreds of other numbers, in the other order
            hist = ["/d.ascii?z0", "/d.ascii?z1", "/d.das", "/d.ascii?big", "/d.ascii?z1", "/d.ascii?z0", "/d.das", "/d.ascii?zi"]
        if h == 1:
            # scripted: record ranges of the sequence that is served as a view, then the whole of it
            hist = ["/d.dods?ls", "/d.dods?ls[1:2]", "/d.ascii?ls[0:2:6]", "/d.dods?ls", "/d.dods?ls[1:2]", "/d.dods?ls.k&ls.k>2", "/d.dds?ls"]
        stats["histories"] += 1
        for pos, u in enumerate(hist):
            got = fetch(app, u)
            stats["requests_in_histories"] += 1
            r.count(("history", h, pos, u, tuple(hist[:pos])))
            if got != baseline[u]:
                direct.append({"law": "a response is a function of the served dataset and the request alone, whatever was served before",
                               "request": u, "served_before": hist[:pos], "status": str(got[0]), "fresh_status": str(baseline[u][0]),
                               "body": repr(got[2])[:300], "fresh_body": repr(baseline[u][2])[:300]})
                break
        after = snapshot(ds)
        if after != before:
            direct.append({"law": "the served dataset's values, structure and attributes are unchanged after serving requests",
                           "history": hist})

    # ---- (2) controlled interleavings
    def check(urls, results, sched, kind):
        stats["schedules"] += 1
        stats["switches"] += len(sched.trace)
        for u, got in zip(urls, results):
            if got != baseline[u]:
                direct.append({"law": "a response is byte-identical whatever requests are being served concurrently by other threads",
                               "requests": urls, "differs": u, "schedule_kind": kind, "switch_points": sched.trace[:12],
                               "status": str(None if got is None else got[0]), "sequential_status": str(baseline[u][0]),
                               "body": repr(None if got is None else got[2])[:300], "sequential_body": repr(baseline[u][2])[:300]})
                return False
        return True
    n_pairs = 4 if T == "quick" else 40
    data_reqs = [u for u in REQUESTS if baseline[u][0] != "raised"]
    for p in range(n_pairs):
        ds = build_dataset()
        app = ServerSideFunctions(BaseHandler(ds))
        before = snapshot(ds)
        urls = [rng.choice(data_reqs), rng.choice(data_reqs)]
        # dry run: number of call points of thread 0
        res, sc = run_threads(app, urls, lambda tid, k, alive: tid, "call")
        r.count(("pair", tuple(urls)))
        if not check(urls, res, sc, "no preemption"):
            continue
        n0, n1 = sc.count[0], sc.count[1]
        # a single preemption at every call point of the first request (the second then runs to its end)
        step = max(1, n0 // 300) if T != "quick" else max(1, n0 // 25)
        for k0 in range(1, n0 + 1, step):
            res, sc2 = run_threads(app, urls, lambda tid, k, alive, k0=k0: 1 if (tid == 0 and k == k0) else tid, "call")
            stats["single_preemption"] += 1
            if not check(urls, res, sc2, "single preemption at call %d of %d" % (k0, n0)):
                break
        # two preemptions: 0 until i, 1 until j, 0 to its end, 1 to its end
        for _ in range(8 if T == "quick" else 60):
            i, j = rng.randint(1, max(1, n0)), rng.randint(1, max(1, n1))
            res, sc2 = run_threads(app, urls,
                                   lambda tid, k, alive, i=i, j=j: (1 if (tid == 0 and k == i) else 0 if (tid == 1 and k == j) else tid), "call")
            stats["double_preemption"] += 1
            if not check(urls, res, sc2, "preemptions at call %d of request 0 and call %d of request 1" % (i, j)):
                break
        if snapshot(ds) != before:
            direct.append({"law": "the served dataset is unchanged after concurrent requests", "requests": urls})
    # a single preemption at (a stride of) every LINE of the first request, for pairs of sequence requests whose records have
    # the same wire layout (scratch buffers shared between requests would be hit here)
    seq_pairs = [("/d.dods?q.a", "/d.dods?loc.t"), ("/d.dods?lz.k", "/d.dods?q.a"), ("/d.dods?q.b", "/d.dods?lz.v"),
                 ("/d.dods?q", "/d.dods?q&q.a>1"), ("/d.ascii?q.a", "/d.dods?loc.t")]
    # ... and for pairs of requests that read the same arrays (a response that touches the served array while it writes it out,
    # however briefly, is seen by the other one)
    arr_pairs = [("/d.dods?x", "/d.ascii?x"), ("/d.dods?f,g", "/d.dods?g.a[1:2],g.y"), ("/d.dods?x,g", "/d.dods?x[0:1][1:2][0:2:3]"),
                 ("/d.dods?st,z1", "/d.dods?st.m[1:2],s"), ("/d.ascii?f", "/d.dods?f")]
    for urls in ((seq_pairs + arr_pairs) if T != "quick" else rng.sample(seq_pairs, 2) + arr_pairs[:2]):
        urls = list(urls)
        ds = build_dataset()
        app = ServerSideFunctions(BaseHandler(ds))
        res, sc = run_threads(app, urls, lambda tid, k, alive: tid, "resp")
        if not check(urls, res, sc, "no preemption (line counting)"):
            continue
        n0 = sc.count[0]
        # points: every line executed inside pydap/responses (where records are packed and emitted)
        step = 1 if T != "quick" else max(1, n0 // 700)
        for k0 in range(1, n0 + 1, step):
            res, sc2 = run_threads(app, urls, lambda tid, k, alive, k0=k0: 1 if (tid == 0 and k == k0) else tid, "resp")
            stats["single_preemption"] += 1
            if not check(urls, res, sc2, "single preemption at line event %d of %d" % (k0, n0)):
                break
    # random schedules at line granularity, 2-3 threads
    for p in range(10 if T == "quick" else 150):
        ds = build_dataset()
        app = ServerSideFunctions(BaseHandler(ds))
        before = snapshot(ds)
        urls = [rng.choice(REQUESTS) for _ in range(rng.choice([2, 3]))]
        sr = random.Random(rng.random())
        prob = rng.choice([0.02, 0.1, 0.5])
        res, sc = run_threads(app, urls, lambda tid, k, alive: (sr.choice(alive) if sr.random() < prob else tid), "line")
        stats["random_line_schedules"] += 1
        r.count(("random", tuple(urls), p))
        check(urls, res, sc, "random schedule at line granularity (switch probability %s)" % prob)
        if snapshot(ds) != before:
            direct.append({"law": "the served dataset is unchanged after concurrent requests", "requests": urls})

    # ---- (3b) a dataset of arrays with array-valued attributes, which also has a DMR: metadata responses print such attributes
    for h in range(6 if T == "quick" else 60):
        app_e = build_e()
        hist = [rng.choice(RE) for _ in range(rng.randint(3, 7))]
        for pos, u in enumerate(hist):
            got = fetch(app_e, u)
            r.count(("history-e", h, pos, u, tuple(hist[:pos])))
            if got != base_e[u]:
                direct.append({"law": "a response is a function of the served dataset and the request alone, whatever was served before",
                               "request": u, "served_before": hist[:pos], "body": repr(got[2])[:300], "fresh_body": repr(base_e[u][2])[:300]})
                break
    for u in reversed(RE):
        if fetch(build_e(), u) != base_e[u]:
            direct.append({"law": "the response of a freshly built application to a request is the same at the start and at the end of "
                                  "the run (nothing served in between is remembered outside the application)", "request": u})
            break
    # ---- (3c) responses whose bodies are consumed in an interleaved way (a WSGI server takes a few blocks of one body, answers
    # another request on the same application completely, then takes the rest): a file-backed handler and the in-memory one
    import os as _os
    import tempfile as _tf
    from pydap.handlers.csv import CSVHandler

    def start_body(app_, u):
        from webob import Request as _R
        st = []
        it_ = iter(app_(_R.blank(u).environ, lambda s_, h_, e_=None: st.append(s_)))
        return st, it_
    tmpd = _tf.mkdtemp(prefix="verif_c13_")
    try:
        csv_path = _os.path.join(tmpd, "t.csv")
        with open(csv_path, "w") as f_:
            f_.write('"a","b","c"\n' + "".join('%d,%s,"s%d"\n' % (j, j * 0.5, j) for j in range(40)))
        RC = ["/t.dods", "/t.dods?sequence.a", "/t.ascii?sequence&sequence.a>3", "/t.dds", "/t.dods?sequence[2:9]", "/t.ascii"]
        kinds_ = [("csv", lambda: CSVHandler(csv_path), RC),
                  ("memory", fresh_app, ["/d.dods?q", "/d.ascii?lz", "/d.dods?loc", "/d.dods?x", "/d.ascii?q&q.a>1", "/d.dods?lz.k"])]
        for label_, mk_, reqs_ in kinds_:
            base_c = {u: fetch(mk_(), u) for u in reqs_}
            scripted_ = [(reqs_[0], reqs_[1], 2), (reqs_[1], reqs_[0], 1), (reqs_[0], reqs_[0], 3), (reqs_[2], reqs_[4], 2),
                         (reqs_[4], reqs_[5], 1), (reqs_[0], reqs_[2], 5)]
            for trial in range((8 if T == "quick" else 60) + len(scripted_)):
                app_c = mk_()
                ua, ub = rng.choice(reqs_), rng.choice(reqs_)
                k_ = rng.choice([1, 2, 3, 5, 8, 16])
                if trial < len(scripted_):
                    ua, ub, k_ = scripted_[trial]
                    # in the middle of the body (the first blocks are the declaration): half or three quarters of its blocks
                    nblocks_ = len(list(start_body(mk_(), ua)[1]))
                    k_ = max(1, nblocks_ * (2 if trial % 2 == 0 else 3) // 4)
                r.count(("interleaved-bodies", label_, ua, ub, k_))
                try:
                    st_a, it_a = start_body(app_c, ua)
                    part = []
                    for _ in range(k_):
                        try:
                            part.append(next(it_a))
                        except StopIteration:
                            break
                    got_b = fetch(app_c, ub)
                    part += list(it_a)
                    body_a = b"".join(part)
                except Exception as e:  # noqa
                    body_a, got_b = "raised " + repr(e)[:200], None
                if base_c[ua][0] == "200 OK" and (body_a != base_c[ua][2] or (got_b is not None and got_b != base_c[ub])):
                    direct.append({"law": "a response is a function of the served dataset and the request alone, also when another request "
                                          "is answered while its body is being read", "handler": label_, "first_request": ua,
                                   "blocks_taken_before_the_other_request": k_, "other_request": ub,
                                   "first_body": repr(body_a)[:200], "alone": repr(base_c[ua][2])[:200]})
                    break
    finally:
        import shutil as _sh
        _sh.rmtree(tmpd, ignore_errors=True)
    # ---- (4) the answer of a FRESH application does not depend on what this process has served meanwhile (state kept outside
    # the application object: module globals, caches, library-wide settings)
    for u in reversed(list(REQUESTS)):
        r.count(("fresh-again", u))
        again = fetch(fresh_app(), u)
        if again != baseline[u]:
            direct.append({"law": "the response of a freshly built application to a request is the same at the start and at the end of "
                                  "the run (nothing served in between is remembered outside the application)",
                           "request": u, "status": str(again[0]), "body_now": repr(again[2])[:300], "body_at_start": repr(baseline[u][2])[:300]})
            break
    r.extra["distribution"] = stats
    r.cov["rule"] = ("(a) histories of 3-9 requests drawn from %d requests (all response kinds, projections, hyperslabs, selections on numpy "
                     "and lazy sequences, server-side functions alone / nested / beside projections, malformed requests) against one "
                     "application; (b) pairs of requests under a deterministic scheduler: a single preemption at (a stride of) every "
                     "pydap call point of the first request, sampled double preemptions; (c) 2-3 requests under random schedules at line "
                     "granularity; distinct = distinct (history prefix) / (request tuple, schedule)" % len(REQUESTS))
    r.sample({"history": [REQUESTS[5], REQUESTS[14], REQUESTS[22]]})
    seen = set()
    for d in direct:
        if d["law"] in seen:
            continue
        seen.add(d["law"])
        r.violation(dict(d, kind="property-violated", how="one application object, request histories / controlled thread schedules"), found=True)
    r.assumptions = [
        "the proved theorems are about scripts that cannot write shared state; that the handler is such a script is tied by syntactic facts "
        "(gen_facts.py) and by this dynamic check, not proved",
        "thread switches are forced at Python call / line events of pydap code only (not inside numpy, webob or C code); "
        "true parallel execution, memory visibility and the GIL are outside what this check can exhibit",
        "Date-like headers are excluded from the comparison",
    ]
    r.finish()


def fetch_isolated(u):
    """--fetch <request>: the answer of a fresh application in this (fresh) process, one JSON line"""
    import json
    use_repo()
    from pydap.handlers.lib import BaseHandler
    from pydap.wsgi.ssf import ServerSideFunctions
    got = fetch(ServerSideFunctions(BaseHandler(build_dataset())), u)
    print(json.dumps([str(got[0]), repr(got[1]), got[2].hex() if isinstance(got[2], bytes) else str(got[2])]))


if __name__ == "__main__":
    if len(sys.argv) == 3 and sys.argv[1] == "--fetch":
        fetch_isolated(sys.argv[2])
        sys.exit(0)
    import common
    common.run(main, PID)
