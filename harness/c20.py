"""C20 - file handlers expose exactly the file: NetCDF and CSV contents, unscaled.
Proof (partial, props/C20.v): the dimension names the NetCDF handler gives a variable are those of the nearest enclosing declarations.
Correspondence: handler.dataset of generated NetCDF4 files (groups to depth 2 with shadowing dimension names) vs the Gallina scoping model.
Direct oracle: handler.dataset tree (names, paths, types, shapes, dims, attributes, raw values) and decoded .dods responses for
random in-range hyperslabs vs what the netCDF4 library reads with scaling and masking switched off; CSV files (numeric and quoted
cells incl. empty strings, 0..n rows, optional JSON side-car) vs the rows written, under column projections / selections / ranges."""
import csv
import json
import os
import random
import shutil
import tempfile

from common import Report, clist, coq_eval_mismatches, known_findings, proof_phase, use_repo
from c07 import ctext

PID = "C20"
IMPORTS = "NcScopeCases"

NCTYPES = ["i1", "i2", "i4", "u1", "u2", "u4", "f4", "f8", "S1"]
DIMNAMES = ["x", "y", "t", "z", "n"]
VARNAMES = ["a", "b", "temp", "w", "u", "q", "v", "sst", "k"]
GROUPS = ["g1", "g2", "obs", "sub"]


def gen_group(rng, depth, inherited):
    """abstract group: dims {name: size or None (unlimited)}, vars, subgroups; `inherited` = names visible from the parents"""
    dims = {}
    for n in rng.sample(DIMNAMES, rng.randint(0 if inherited else 1, 3)):
        dims[n] = rng.randint(1, 4)
    unlimited = rng.choice(sorted(dims)) if (dims and not inherited and rng.random() < 0.4) else None   # root only: one record dimension
    visible = dict(inherited)
    visible.update({n: s for n, s in dims.items()})
    vars_ = []
    used = set()
    for _ in range(rng.randint(1, 3)):
        n = rng.choice([v for v in VARNAMES if v not in used])
        used.add(n)
        rank = rng.choice([0, 1, 1, 2, 3]) if visible else 0
        vd = [rng.choice(sorted(visible)) for _ in range(rank)]
        ty = rng.choice(NCTYPES)
        attrs = {}
        if rng.random() < 0.5 and ty not in ("S1",):
            pick = rng.choice(["both", "scale", "offset"])
            if pick in ("both", "scale"):
                attrs["scale_factor"] = 0.5
            if pick in ("both", "offset"):
                attrs["add_offset"] = 10.0
        if rng.random() < 0.3:
            attrs["units"] = rng.choice(["m", "K", "degrees_north"])
        fill = rng.random() < 0.3 and ty not in ("S1",)
        vars_.append((n, ty, vd, attrs, fill))
    # coordinate variables
    for n in list(dims):
        if rng.random() < 0.4 and n not in used:
            used.add(n)
            cattrs = {"axis": n.upper()}
            if rng.random() < 0.4:
                cattrs[rng.choice(["scale_factor", "add_offset"])] = rng.choice([0.5, 10.0])
            # a variable named like a dimension is usually the coordinate over it - but the file may give it any dimensions
            cdims = [n]
            if rng.random() < 0.3:
                cdims = rng.choice([[n, rng.choice(sorted(visible))], [rng.choice(sorted(visible))], [rng.choice(sorted(visible)), n], []])
            vars_.append((n, rng.choice(["f8", "f8", "f4", "i4", "i2"]), cdims, cattrs, rng.random() < 0.3))
    subs = []
    if depth > 0:
        for g in rng.sample(GROUPS, rng.randint(0, 2)):
            if g not in used:
                subs.append((g, gen_group(rng, depth - 1, visible)))
    return {"dims": dims, "vars": vars_, "subs": subs, "attrs": {"ga": rng.randint(0, 9)} if rng.random() < 0.5 else {},
            "unlimited": unlimited}


def write_nc(path, spec, rng, shift=0):
    import netCDF4
    import numpy as np
    values = {}

    def fill(grp, g, gpath, visible):
        for n, s in g["dims"].items():
            grp.createDimension(n, None if g.get("unlimited") == n else s)   # an unlimited dimension grows to s when data is written
        vis = dict(visible)
        vis.update(g["dims"])
        for k, v in g["attrs"].items():
            grp.setncattr(k, v)
        for n, ty, vd, attrs, fillv in g["vars"]:
            kw = {"fill_value": 99} if fillv else {}
            v = grp.createVariable(n, ty, tuple(vd), **kw)
            v.set_auto_maskandscale(False)
            shape = tuple(vis[d] for d in vd)
            cnt = int(np.prod(shape)) if shape else 1
            if ty == "S1":
                # (every third character is a blank: a stored blank is a stored character)
                data = np.array([b" " if i % 3 == 1 else bytes([97 + (i % 26)]) for i in range(cnt)], dtype="S1").reshape(shape)
            elif ty[0] == "f":
                data = (np.arange(cnt) * 0.75 - 2 + shift).astype(ty).reshape(shape)
                if fillv and rng.random() < 0.7:
                    data = data.copy()
                    data.flat[cnt // 2] = 99
            else:
                info = np.iinfo(ty)
                data = ((np.arange(cnt) * 7 + rng.randint(0, 5) + shift) % (int(info.max) - 1)).astype(ty).reshape(shape)
                if fillv and (cnt > 1 or rng.random() < 0.7):       # a stored value equal to the fill value is still the stored value
                    data.flat[cnt // 2] = 99
            v[...] = data
            for k, a in attrs.items():
                v.setncattr(k, a)
            values[(gpath, n)] = data
        for gname, sub in g["subs"]:
            fill(grp.createGroup(gname), sub, gpath + (gname,), vis)
    with netCDF4.Dataset(path, "w") as ds:
        ds.set_auto_maskandscale(False)
        ds.title = "generated"
        fill(ds, spec, (), {})
    return values


def c_grp(name, g):
    return "(G %s %s %s %s)" % (
        ctext(name), clist(sorted(g["dims"].items()), lambda d: "(%s, %d%%nat)" % (ctext(d[0]), d[1])),
        clist(g["vars"], lambda v: "(%s, %s)" % (ctext(v[0]), clist(v[2], ctext))),
        clist(g["subs"], lambda s: c_grp(s[0], s[1])))


def nearest(gpath, chain, d):
    """independent oracle: fully qualified name of dimension d seen from the group with scope chain [(path, dims)] innermost first"""
    for p, dims in chain:
        if d in dims:
            return "/" + "/".join(p + (d,))
    return "/" + d


def main():
    r = Report(PID)
    rng = random.Random(r.seed)
    T = r.tier
    proof_phase(r, PID)
    use_repo()
    import netCDF4
    import numpy as np
    from webob import Request
    from pydap.client import open_dods_url
    from pydap.handlers.csv import CSVHandler
    from pydap.handlers.netcdf import NetCDFHandler
    from pydap.lib import walk
    from pydap.model import BaseType

    kf = {e["id"]: e for e in known_findings(PID) if e.get("status") == "known"}
    direct, scope_cases, sized_cases = [], [], []
    stats = {"nc_files": 0, "nc_variables": 0, "shadowed_names": 0, "hyperslabs": 0, "scalars": 0, "csv_files": 0, "csv_requests": 0,
             "csv_empty": 0}
    tmp = tempfile.mkdtemp(prefix="verif_c20_")
    known_hit = False
    try:
        # ------------------------------------------------------------ NetCDF
        for i in range(20 if T == "quick" else 250):
            spec = gen_group(rng, rng.choice([0, 1, 2, 2]), {})
            if i == 0:
                # corpus file (independent of the seed): a group re-declares a root dimension, a LATER sibling group (and a group below
                # the first) use the name - the sibling means the root's declaration, the inner group the nearest one
                def grp(dims, vars_, subs):
                    return {"dims": dims, "vars": vars_, "subs": subs, "attrs": {}, "unlimited": None}
                D0, D1 = DIMNAMES[0], DIMNAMES[1]
                spec = grp({D0: 4, D1: 3}, [(VARNAMES[0], "i4", [D0], {}, False), (VARNAMES[3], "S1", [D0], {}, False),
                                            (VARNAMES[4], "S1", [D1, D0], {}, False)], [
                    (GROUPS[0], grp({D0: 2}, [(VARNAMES[0], "i4", [D0, D1], {}, False)],
                                    [(GROUPS[2], grp({}, [(VARNAMES[1], "f8", [D0], {}, False)], []))])),
                    (GROUPS[1], grp({}, [(VARNAMES[1], "i4", [D0], {}, False), (VARNAMES[2], "f4", [D1, D0], {}, False)], []))])
            path = os.path.join(tmp, "f%d.nc" % i)
            values = write_nc(path, spec, rng)
            stats["nc_files"] += 1
            r.count(("nc", json.dumps(spec, sort_keys=True, default=str)))
            try:
                h = NetCDFHandler(path)
            except Exception as e:  # noqa
                direct.append({"law": "a generated NetCDF4 file can be opened by the handler", "spec": repr(spec)[:1500], "error": repr(e)[:300]})
                continue
            ds = h.dataset
            observed, observed_sized, problems = [], [], []

            def visit(g, gpath, chain):
                chain = [(gpath, g["dims"])] + chain
                for n, ty, vd, attrs, fillv in g["vars"]:
                    stats["nc_variables"] += 1
                    fqv = "/" + "/".join(gpath + (n,)) if gpath else n
                    try:
                        v = ds[fqv]
                    except Exception as e:  # noqa
                        problems.append((fqv, "not found in the dataset", repr(e)[:100]))
                        continue
                    data = values[(gpath, n)]
                    want_dims = [nearest(gpath, chain, d) for d in vd]
                    stats["shadowed_names"] += sum(1 for d in vd if sum(1 for p, dd in chain if d in dd) > 1)
                    observed.append((fqv if gpath else "/" + n, list(v.dims)))
                    observed_sized.append((fqv if gpath else "/" + n, list(zip(list(v.dims), [int(e) for e in v.shape]))))
                    if np.dtype(v.dtype) != data.dtype:
                        problems.append((fqv, "type", str(v.dtype), str(data.dtype)))
                    if tuple(v.shape) != data.shape:
                        problems.append((fqv, "shape", tuple(v.shape), data.shape))
                    if list(v.dims) != want_dims:
                        problems.append((fqv, "dims", list(v.dims), want_dims))
                    for k, a in attrs.items():
                        if k not in v.attributes or v.attributes[k] != a:
                            problems.append((fqv, "attribute " + k, repr(v.attributes.get(k)), repr(a)))
                    if fillv and "_FillValue" not in v.attributes:
                        problems.append((fqv, "attribute _FillValue", None, 99))
                    try:
                        got = np.asarray(v.data[...] if data.shape else np.asarray(v.data))
                        if got.shape != data.shape or not np.array_equal(got, data):
                            problems.append((fqv, "raw values", got.tolist(), data.tolist()))
                    except Exception as e:  # noqa
                        problems.append((fqv, "values cannot be read", repr(e)[:150]))
                    # served hyperslabs
                    dap2id = ".".join(gpath + (n,))
                    for _ in range(3):
                        sl, txt = [], ""
                        for e_ in data.shape:
                            a_ = rng.randrange(e_)
                            b_ = rng.randrange(a_, e_)
                            st = rng.randint(1, 2)
                            sl.append(slice(a_, b_ + 1, st))
                            txt += "[%d:%d:%d]" % (a_, st, b_)
                        stats["hyperslabs"] += 1
                        stats["scalars"] += not data.shape
                        url = "http://localhost:8001/f.dods?%s%s" % (dap2id, txt)
                        try:
                            # with the default block size, or (a deployment setting) with blocks of a few bytes
                            app_h = h
                            if rng.random() < 0.4:
                                bs_ = rng.choice([1, 3, 5, 8, 16])

                                def app_h(environ, start_response, h=h, bs_=bs_):
                                    environ["pydap.buffer_size"] = bs_
                                    return h(environ, start_response)
                            res = open_dods_url(url, application=app_h)
                            var = res
                            for part in dap2id.split("."):
                                var = var[part]
                            got = np.asarray(var.data)
                            want = data[tuple(sl)] if data.shape else data
                            if data.dtype.kind == "S":
                                got = np.array([x.encode() if isinstance(x, str) else x for x in np.asarray(got).reshape(-1)]).reshape(np.shape(got))
                                ok = got.shape == want.shape and all(a == b for a, b in zip(got.reshape(-1), want.reshape(-1)))
                            else:
                                ok = got.shape == want.shape and np.array_equal(got.astype("f8"), want.astype("f8"))
                            if not ok:
                                problems.append((fqv, "hyperslab %s" % txt, np.asarray(got).tolist(), want.tolist()))
                        except Exception as e:  # noqa
                            problems.append((fqv, "hyperslab %s cannot be served" % txt, repr(e)[:200]))
                for gname, sub in g["subs"]:
                    visit(sub, gpath + (gname,), chain)
            visit(spec, (), [])
            # several variables in ONE request, with textually identical hyperslabs (same-named variables of different groups first)
            allv = [(".".join(gp + (n_,)), n_, d_) for (gp, n_), d_ in values.items() if d_.shape and d_.dtype.kind != "S"]
            for _ in range(3):
                if len(allv) < 2:
                    break
                first = rng.choice(allv)
                same_rank = [v_ for v_ in allv if v_ is not first and len(v_[2].shape) == len(first[2].shape)]
                if not same_rank:
                    continue
                same_rank.sort(key=lambda v_: v_[1] != first[1])          # namesakes first
                chosen = [first] + same_rank[:rng.randint(1, 2)]
                ext_ = [min(v_[2].shape[k_] for v_ in chosen) for k_ in range(len(first[2].shape))]
                if 0 in ext_:
                    continue
                sl, txt = [], ""
                for e_ in ext_:
                    a_ = rng.randrange(e_)
                    b_ = rng.randrange(a_, e_)
                    st = rng.randint(1, 2)
                    sl.append(slice(a_, b_ + 1, st))
                    txt += "[%d:%d:%d]" % (a_, st, b_)
                url = "http://localhost:8001/f.dods?" + ",".join(v_[0] + txt for v_ in chosen)
                stats["multi_variable_requests"] = stats.get("multi_variable_requests", 0) + 1
                stats["multi_variable_requests_with_namesakes"] = stats.get("multi_variable_requests_with_namesakes", 0) + (
                    len(set(v_[1] for v_ in chosen)) < len(chosen))
                try:
                    res = open_dods_url(url, application=h)
                    for did, _n, d_ in chosen:
                        var = res
                        for part in did.split("."):
                            var = var[part]
                        got = np.asarray(var.data)
                        want = d_[tuple(sl)]
                        if got.shape != want.shape or not np.array_equal(got.astype("f8"), want.astype("f8")):
                            problems.append((did, "hyperslab %s in the request %s" % (txt, url.split("?")[1]), got.tolist(), want.tolist()))
                except Exception as e:  # noqa
                    problems.append(("<dataset>", "request %s cannot be served" % url.split("?")[1], repr(e)[:200]))
            n_ds = len(list(walk(ds, BaseType)))
            n_spec = len(values)
            if n_ds != n_spec:
                problems.append(("<dataset>", "number of variables", n_ds, n_spec))
            if problems:
                direct.append({"law": "a NetCDF file yields one variable per file variable with the file's type, shape, fully qualified "
                                      "dimension names, attributes and raw values; served hyperslabs equal the library's reads",
                               "file_spec": repr(spec)[:1800], "differences": [list(map(str, p)) for p in problems[:6]]})
            # the file replaced at the same path (same modification time): a handler built afterwards serves the new file
            if i % 4 == 0:
                try:
                    st = os.stat(path)
                    values2 = write_nc(path, spec, random.Random(r.seed * 1000 + i + 1), shift=3)
                    os.utime(path, (st.st_atime, st.st_mtime))
                    h2 = NetCDFHandler(path)
                    stats["rewritten_files"] = stats.get("rewritten_files", 0) + 1
                    for (gp, n_), data2 in values2.items():
                        fq2 = "/" + "/".join(gp + (n_,)) if gp else n_
                        got2 = np.asarray(h2.dataset[fq2].data[...] if data2.shape else np.asarray(h2.dataset[fq2].data))
                        if got2.shape != data2.shape or not np.array_equal(got2, data2):
                            problems.append((fq2, "values after the file was replaced at the same path", got2.tolist(), data2.tolist()))
                            break
                    if problems:
                        direct.append({"law": "a handler built after the file was replaced at the same path serves the new file's values",
                                       "file_spec": repr(spec)[:1200], "differences": [list(map(str, p_)) for p_ in problems[:3]]})
                except Exception as e:  # noqa
                    direct.append({"law": "a handler can be built after the file was replaced at the same path", "error": repr(e)[:300]})
            scope_cases.append("(%s, %s)" % (c_grp("", spec), clist(observed, lambda o: "(%s, %s)" % (ctext(o[0]), clist(o[1], ctext)))))
            sized_cases.append("(%s, %s)" % (c_grp("", spec), clist(observed_sized, lambda o: "(%s, %s)" % (
                ctext(o[0]), clist(o[1], lambda dn: "(%s, %d%%nat)" % (ctext(dn[0]), dn[1]))))))

        # ------------------------------------------------------------ NetCDF corpus: Byte variables (padded to 4 bytes ONCE, at the
        # end of the values) and strided reads served in blocks of a few bytes
        try:
            import netCDF4
            cpath = os.path.join(tmp, "corpus.nc")
            cvals = {"b": (np.arange(7, dtype="u1") * 37 + 1), "m": (np.arange(15, dtype="u1") + 200).reshape(3, 5),
                     "w": np.arange(6, dtype="i2").reshape(2, 3) - 2, "t": np.arange(4, dtype="f8") * 0.5}
            with netCDF4.Dataset(cpath, "w") as ncd:
                for dn, n_ in (("d7", 7), ("d3", 3), ("d5", 5), ("d2", 2), ("d4", 4)):
                    ncd.createDimension(dn, n_)
                for vn, dims_ in (("b", ("d7",)), ("m", ("d3", "d5")), ("w", ("d2", "d3")), ("t", ("d4",))):
                    vv = ncd.createVariable(vn, cvals[vn].dtype.str[1:], dims_)
                    vv.set_auto_maskandscale(False)
                    vv[...] = cvals[vn]
            hc = NetCDFHandler(cpath)
            for ce_, pick in (("b,t", None), ("b", None), ("m,w", None), ("b[1:2:6],t", ("b", (slice(1, 7, 2),))),
                              ("m[0:1:2][1:1:3],w", ("m", (slice(0, 3), slice(1, 4))))):
                for bs_ in (None, 1, 3, 5, 8):
                    def app_c(environ, start_response, bs_=bs_):
                        if bs_ is not None:
                            environ["pydap.buffer_size"] = bs_
                        return hc(environ, start_response)
                    r.count(("nc-corpus", ce_, bs_))
                    stats["hyperslabs"] += 1
                    try:
                        res = open_dods_url("http://localhost:8001/c.dods?" + ce_, application=app_c)
                        for vn in [x.split("[")[0] for x in ce_.split(",")]:
                            want = cvals[vn][pick[1]] if pick and pick[0] == vn else cvals[vn]
                            got = np.asarray(res[vn].data)
                            if got.shape != want.shape or not np.array_equal(got.astype("f8"), want.astype("f8")):
                                direct.append({"law": "served values equal the file's raw values, whatever the block size of the response",
                                               "request": ce_, "buffer_size": bs_, "variable": vn, "got": got.tolist(), "want": want.tolist()})
                    except Exception as e:  # noqa
                        direct.append({"law": "a request on the corpus file is answered, whatever the block size of the response",
                                       "request": ce_, "buffer_size": bs_, "error": repr(e)[:200]})
            # namesakes in different groups, asked together with textually identical hyperslabs
            gpath_ = os.path.join(tmp, "corpus_groups.nc")
            gvals = {"a": np.arange(15, dtype="i4").reshape(3, 5), "g1.a": np.arange(15, dtype="i4").reshape(3, 5) + 100,
                     "g1.g2.a": np.arange(15, dtype="i4").reshape(3, 5) + 200}
            with netCDF4.Dataset(gpath_, "w") as ncd:
                node = ncd
                for key_ in ("a", "g1.a", "g1.g2.a"):
                    parts_ = key_.split(".")
                    node = ncd
                    for gname_ in parts_[:-1]:
                        node = node.groups[gname_] if gname_ in node.groups else node.createGroup(gname_)
                    node.createDimension("r", 3)
                    node.createDimension("c", 5)
                    vv = node.createVariable("a", "i4", ("r", "c"))
                    vv[...] = gvals[key_]
            hg = NetCDFHandler(gpath_)
            for ce_ in ("a[1:1:2][0:1:1],g1.a[1:1:2][0:1:1],g1.g2.a[1:1:2][0:1:1]", "g1.g2.a[0:2:2][1:1:3],a[0:2:2][1:1:3]",
                        "g1.a[1:1:1][2:1:4],g1.a[1:1:1][2:1:4],a[1:1:1][2:1:4]"):
                r.count(("nc-corpus-groups", ce_))
                try:
                    res = open_dods_url("http://localhost:8001/c.dods?" + ce_, application=hg)
                    for item_ in dict.fromkeys(ce_.split(",")):
                        did = item_.split("[")[0]
                        nums = [int(x_) for x_ in item_.replace("]", "").replace("[", ":").split(":")[1:]]
                        want = gvals[did][nums[0]:nums[2] + 1:nums[1], nums[3]:nums[5] + 1:nums[4]]
                        var = res
                        for part in did.split("."):
                            var = var[part]
                        got = np.asarray(var.data)
                        if got.shape != want.shape or not np.array_equal(got, want):
                            direct.append({"law": "every variable of a request holds the hyperslab written with it (namesakes in different "
                                                  "groups included)", "request": ce_, "variable": did, "got": got.tolist(), "want": want.tolist()})
                except Exception as e:  # noqa
                    direct.append({"law": "a request naming variables of several groups is answered", "request": ce_, "error": repr(e)[:200]})
        except Exception as e:  # noqa
            direct.append({"law": "the corpus NetCDF file can be written and opened", "error": repr(e)[:300]})

        # ------------------------------------------------------------ CSV
        for i in range(25 if T == "quick" else 300):
            ncols = rng.randint(1, 4)
            names = rng.sample(["index", "temperature", "site", "depth", "lat", "name"], ncols)
            kinds = [rng.choice(["num", "num", "str"]) for _ in names]
            nrows = rng.choice([0, 1, 2, 4, 7, 7, 60])      # 60 rows: a file longer than any sample a reader might sniff
            awkward = ["", "a", "Diamond St", "x,y", 'say "hi"', " lead", "7", "two\nlines", "para one\n\npara two", " \n x"]
            if i == 0:
                # corpus file (independent of the seed): three columns, 60 records, every awkward cell once, all near the end
                ncols, names, kinds, nrows = 3, ["index", "site", "name"], ["num", "str", "str"], 60
            rows = []
            for ri in range(nrows):
                if i == 0 and ri >= 50:
                    rows.append((float(ri), awkward[ri - 50], awkward[(ri - 47) % 10]))
                    continue
                if nrows == 60 and ri < 50:
                    # plain cells first, the awkward ones (embedded quotes, commas, line breaks) only near the end of the file
                    rows.append(tuple(float(ri) + 0.5 if k == "num" else "plain%d" % ri for k in kinds))
                    continue
                rows.append(tuple(rng.choice([0, 1, -3, 2.5, 10, 15.25, 1e-3, 12345678]) if k == "num" else
                                  rng.choice(["", "a", "Diamond St", "x,y", 'say "hi"', " lead", "7", "two\nlines", "para one\n\npara two",
                                              " \n x"]) for k in kinds))
            path = os.path.join(tmp, "t%d.csv" % i)
            with open(path, "w", newline="") as f:
                w = csv.writer(f, quoting=csv.QUOTE_NONNUMERIC)
                w.writerow(names)
                for row in rows:
                    w.writerow(row)
            side = None
            if rng.random() < 0.4:
                side = {"sequence": {names[0]: {"units": "K", "n": 3}, "note": "seq"}, "title": "T"}
                json.dump(side, open(path + ".json", "w"))
            stats["csv_files"] += 1
            stats["csv_empty"] += nrows == 0
            r.count(("csv", tuple(names), tuple(kinds), tuple(rows), side is not None))
            try:
                h = CSVHandler(path)
            except Exception as e:  # noqa
                direct.append({"law": "a generated CSV file can be opened by the handler", "header": names, "rows": rows, "error": repr(e)[:300]})
                continue
            seq = h.dataset["sequence"]
            problems = []
            if list(seq.keys()) != names:
                problems.append(("columns", list(seq.keys()), names))
            if side is not None:
                if h.dataset.attributes.get("title") != "T" or seq.attributes.get("note") != "seq" or seq[names[0]].attributes.get("units") != "K":
                    problems.append(("side-car attributes", repr((dict(h.dataset.attributes), dict(seq.attributes), dict(seq[names[0]].attributes)))[:300], repr(side)))
            if nrows == 0:
                # a lazy sequence without records cannot be described (same root cause as C04 / C15): listed as known
                try:
                    res = Request.blank("/t.dods").get_response(h)
                    bad_empty = res.status_int != 200
                except Exception:
                    bad_empty = True
                if bad_empty:
                    if "C20-empty-csv" in kf:
                        known_hit = True
                    else:
                        problems.append(("empty file", "cannot be served", ""))
                if problems:
                    direct.append({"law": "a CSV file yields one sequence whose columns are the header names", "header": names,
                                   "differences": [list(map(str, p)) for p in problems]})
                continue
            norm = [tuple(float(c) if not isinstance(c, str) else c for c in row) for row in rows]
            try:
                got = [tuple(rec) for rec in seq.iterdata()]
                if got != norm:
                    problems.append(("records", got, norm))
            except Exception as e:  # noqa
                problems.append(("records cannot be read", repr(e)[:200], ""))
            # constraints as in C04: column subset in any order, one selection, a range
            for _ in range(4):
                cols = rng.sample(range(ncols), rng.randint(1, ncols))
                sel, keep = "", list(norm)
                numeric = [j for j in range(ncols) if kinds[j] == "num"]
                if numeric and rng.random() < 0.6:
                    j = rng.choice(numeric)
                    thr = rng.choice([row[j] for row in norm])
                    op = rng.choice([">", "<", ">=", "<=", "=", "!="])
                    import operator
                    f = {">": operator.gt, "<": operator.lt, ">=": operator.ge, "<=": operator.le, "=": operator.eq, "!=": operator.ne}[op]
                    keep = [row for row in norm if f(row[j], thr)]
                    sel = "&sequence.%s%s%s" % (names[j], op, repr(thr) if thr != int(thr) else "%d" % thr)
                # a record range counts the records that pass the selection, not the lines of the file
                slab = ""
                if rng.random() < 0.5:
                    a_ = rng.randint(0, 2)
                    st_ = rng.randint(1, 2)
                    b_ = rng.randint(a_, 5)
                    slab = "[%d:%d:%d]" % (a_, st_, b_)
                    keep = keep[a_:b_ + 1:st_]
                items = ["sequence.%s" % names[j] for j in cols]
                items[0] = "sequence%s.%s" % (slab, names[cols[0]])
                ce = ",".join(items) + sel
                stats["csv_requests"] += 1
                try:
                    res = open_dods_url("http://localhost:8001/t.dods?" + ce, application=h)
                    got = [tuple(rec) if isinstance(rec, (tuple, list, np.void)) or hasattr(rec, "__len__") and not isinstance(rec, str) else (rec,)
                           for rec in res["sequence"].iterdata()]
                    got = [tuple(float(c) if not isinstance(c, (str, bytes)) else (c.decode() if isinstance(c, bytes) else c) for c in rec) for rec in got]
                    want = [tuple(row[j] for j in cols) for row in keep]
                    if got != want:
                        problems.append(("request " + ce, got, want))
                except Exception as e:  # noqa
                    problems.append(("request " + ce + " cannot be served", repr(e)[:200], ""))
            if problems:
                direct.append({"law": "a CSV file yields one sequence whose columns are the header names and whose records are the file's "
                                      "rows in order, with the side-car attributes attached; constraints select what a reference filter selects",
                               "header": names, "rows": rows, "differences": [list(map(str, p))[:3] for p in problems[:5]]})
        # ------------------------------------------------------------ CSV: header names are taken as they are (blanks included)
        try:
            from urllib.parse import unquote as _unq
            hpath = os.path.join(tmp, "padded.csv")
            hnames = ["idx", " idx", "name ", "a b"]
            hrows = [(1.0, 2.0, "x", "p q"), (3.0, 4.0, " y", ""), (5.0, 6.5, "z ", "r")]
            with open(hpath, "w", newline="") as f:
                w = csv.writer(f, quoting=csv.QUOTE_NONNUMERIC)
                w.writerow(hnames)
                for row in hrows:
                    w.writerow(row)
            r.count(("csv-padded-header",))
            hs = CSVHandler(hpath).dataset["sequence"]
            got_names = [_unq(k) for k in hs.keys()]
            got_rows = [tuple(v.item() if hasattr(v, "item") else v for v in rec) for rec in hs.iterdata()]
            if got_names != hnames or got_rows != hrows:
                direct.append({"law": "a CSV file yields one sequence whose columns are the header names and whose records are the file's rows",
                               "header": hnames, "columns": got_names, "rows": hrows, "records": got_rows})
        except Exception as e:  # noqa
            direct.append({"law": "a CSV file whose header names carry blanks is opened", "error": repr(e)[:300]})
    finally:
        shutil.rmtree(tmp, ignore_errors=True)

    try:
        bad = coq_eval_mismatches(PID, IMPORTS, "chk_scope", scope_cases, "grp * list (string * list string)", shard=100, ztype=False)
    except RuntimeError as e:
        r.violation({"kind": "correspondence-broken", "error": str(e)[-1500:], "theorem": "C20 correspondence"}, found=False)
        bad = []
    try:
        bad_sized = coq_eval_mismatches(PID + "_sized", IMPORTS, "chk_sized", sized_cases, "grp * list (string * list (string * nat))",
                                        shard=100, ztype=False)
    except RuntimeError as e:
        r.violation({"kind": "correspondence-broken", "error": str(e)[-1500:], "theorem": "C20 correspondence (sizes)"}, found=False)
        bad_sized = []
    r.extra["cases"] = {"netcdf_files": len(scope_cases)}
    r.extra["mismatches"] = {"netcdf_files": len(bad), "netcdf_files_sized": len(bad_sized)}
    r.extra["distribution"] = stats
    r.cov["rule"] = ("(a) NetCDF4 files written with the netCDF4 library: groups to depth 2, dimensions re-declared in nested and sibling groups, "
                     "variables of 9 types (i1..i4, u1..u4, f4, f8, S1) and rank 0-3, coordinate variables, scale_factor / add_offset / "
                     "_FillValue, 3 random in-range hyperslabs (stride 1-2) per variable; (b) CSV files written with csv.writer "
                     "(QUOTE_NONNUMERIC): 1-4 columns, numeric and quoted cells incl. empty / comma / quote, 0-7 rows, optional JSON side-car, "
                     "4 constraints each (column subsets in any order, one selection); distinct = distinct file spec")
    if scope_cases:
        r.sample({"netcdf_case": scope_cases[0][:700]})
    if known_hit:
        r.known_finding("a CSV file with a header and no rows cannot be served (the types of a lazy sequence are inferred from its first "
                        "record: same root cause as C04-empty-lazy-result / C15-empty-lazy-sequence)")
    seen = set()
    for d in direct:
        if d["law"] in seen:
            continue
        seen.add(d["law"])
        r.violation(dict(d, kind="property-violated", how="handler.dataset and decoded responses vs netCDF4 / csv reads of generated files"), found=True)
    if not direct and bad_sized and not bad:
        r.violation({"kind": "correspondence-broken", "theorem": "correspondence of the NetCDF handler's shapes with vars_sized (props/C20.v)",
                     "case": sized_cases[bad_sized[0]][:3000], "n_mismatches": len(bad_sized)}, found=False)
    if not direct and bad:
        r.violation({"kind": "correspondence-broken", "theorem": "dimension names given by the NetCDF handler vs the Gallina scoping model (props/C20.v)",
                     "case": scope_cases[bad[0]][:3000], "n_mismatches": len(bad)}, found=False)
    r.assumptions = [
        "the netCDF4 and csv libraries, numpy.lib.Arrayterator and the XDR codec (C05) are trusted here; only the naming logic is modelled",
        "files are generated by the same netCDF4 library the handler reads them with",
        "an unlimited (record) dimension is generated in the root group only, and only when some variable is written along it",
    ]
    r.finish()


if __name__ == "__main__":
    import common
    common.run(main, PID)
