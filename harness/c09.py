"""C09 - decoding is independent of transport chunking and never accepts a cut stream.
Proof: props/C09.v.  Correspondence: StreamReader / BytesReader / find_pattern_in_string_iter / UNPACKDAP4DATA vs the
Gallina models on generated chunkings and truncations.  Direct oracle: every chunk size 1..17 + random partitions through a
re-chunking WSGI middleware, every truncation offset of every generated body (DAP2 and DAP4)."""
import io
import random

import c05 as C5
import dap2gen as G
import dap4ref as D
from common import Report, clist, coq_eval_mismatches, proof_phase, use_repo

PID = "C09"
IMPORTS = "WireCases"


def cB(b):
    return "[%s]%%N" % ";".join(str(x) for x in b)


def cnat(n):
    return "%d%%nat" % n


def partitions(rng, data, T):
    out = []
    for k in range(1, 18):
        out.append([data[i:i + k] for i in range(0, len(data), k)])
    for _ in range(4 if T == "quick" else 20):
        cs, pos = [], 0
        while pos < len(data):
            k = rng.choice([0, 1, 1, 2, 3, 5, 8, 13, 40])
            cs.append(data[pos:pos + k])
            pos += k
        out.append(cs)
    return out


class Rechunk:
    """WSGI middleware: same status/headers/body, body re-split into the given chunk sizes"""

    def __init__(self, app, sizes):
        self.app, self.sizes = app, sizes

    def __call__(self, environ, start_response):
        body = b"".join(self.app(environ, start_response))
        sizes = self.sizes

        def gen():
            pos, i = 0, 0
            while pos < len(body):
                k = sizes[i % len(sizes)]
                i += 1
                yield body[pos:pos + k]
                pos += k
        return gen()


def main():
    r = Report(PID)
    rng = random.Random(r.seed)
    T = r.tier
    proof_phase(r, PID)
    use_repo()
    import numpy as np
    from webob import Request
    from pydap.client import open_url
    from pydap.handlers.dap import UNPACKDAP4DATA, find_pattern_in_string_iter, unpack_dap2_data
    from pydap.handlers.lib import BaseHandler
    from pydap.lib import BytesReader, StreamReader
    from pydap.parsers.dds import dds_to_dataset

    direct = []

    # ------------------------------------------------------------------ (1) readers vs model
    sr_cases, br_cases = [], []
    for _ in range(600 if T == "quick" else 6000):
        n = rng.randint(0, 24)
        data = bytes(rng.randrange(256) for _ in range(n))
        cs = rng.choice(partitions(rng, data, "quick")) if data else [b""] * rng.randint(0, 2)
        if rng.random() < 0.3:
            cs = list(cs)
            cs.insert(rng.randint(0, len(cs)), b"")
        ns = [rng.choice([0, 1, 2, 3, 4, 4, 4, 7, 8, 12]) for _ in range(rng.randint(1, 6))]
        if rng.random() < 0.5 and sum(ns) < n:
            ns.append(n - sum(ns))
        sr = StreamReader(iter(cs))
        out = []
        try:
            for k in ns:
                out.append(sr.read(k))
            res = "(Some %s)" % clist(out, cB)
        except (StopIteration, RuntimeError):
            res = "None"
        sr_cases.append("(%s, %s, %s)" % (clist(cs, cB), clist(ns, cnat), res))
        br = BytesReader(data)
        out = []
        try:
            for k in ns:
                out.append(br.read(k))
            bres = "(Some %s)" % clist(out, cB)
        except Exception:
            bres = "None"
        br_cases.append("(%s, %s, %s)" % (cB(data), clist(ns, cnat), bres))
        r.count(("reads", data, tuple(map(len, cs)), tuple(ns)))
        # direct: both readers agree (same bytes, same failure)
        if (res == "None") != (bres == "None") or (res != "None" and res != bres):
            direct.append({"law": "StreamReader over chunks == strict reader over the joined bytes", "chunks": [list(c) for c in cs],
                           "reads": ns, "stream": res, "bytes": bres})

    # ------------------------------------------------------------------ (2) separator search vs model
    fp_cases = []
    pat = b"Data:\n"
    bodies = []
    for _ in range(60 if T == "quick" else 600):
        pre = bytes(rng.choice(b"Dat:\n aX") for _ in range(rng.randint(0, 14)))
        post = bytes(rng.choice(b"Dat:\n\x00Z\x5a") for _ in range(rng.randint(0, 12)))
        has = rng.random() < 0.8
        bodies.append(pre + (pat if has else b"") + post)
    bodies += [b"Data:\nData:\nx", b"DData:\n", b"Data:Data:\n\x5a\x00\x00\x00", b"", b"Data:", b"ata:\n"]
    for body in bodies:
        parts = partitions(rng, body, T) if body else [[], [b""]]
        for cs in (parts if T != "quick" else rng.sample(parts, min(len(parts), 8))):
            it = iter(cs)
            rest = find_pattern_in_string_iter(pat, it)
            remaining = list(it)
            if rest is None:
                res = "None"
            else:
                res = "(Some (%s, %s))" % (cB(rest), clist(remaining, cB))
            fp_cases.append("(%s, %s, %s)" % (cB(pat), clist(cs, cB), res))
            r.count(("find", body, tuple(map(len, cs))))
            want = body.split(pat, 1)[1] if pat in body else None
            got = None if rest is None else rest + b"".join(remaining)
            if want != got:
                direct.append({"law": "data stream starts right after the first 'Data:\\n' for every partition",
                               "body": list(body), "chunk_sizes": [len(c) for c in cs], "got": None if got is None else list(got)})

    # ------------------------------------------------------------------ (3) DAP2 sequences through a re-chunking middleware
    nseq = 12 if T == "quick" else 120
    seq_checked = 0
    trunc2_checked = 0
    t2_cases = []
    t2_info = []
    for i in range(nseq):
        desc = G.gen_dataset(rng, kinds=("seq", "seq", "base", "struct", "grid"))
        try:
            ds = G.build(desc)
            app = BaseHandler(ds)
            body = Request.blank("/.dods").get_response(app).body
        except Exception:
            continue
        seqs = [sid for sid, d in G.walk_desc(desc) if d[0] == "seq" and "." not in sid]

        def read_all(a):
            out = {}
            c = open_url("http://localhost:8001/", application=a)
            for sid in seqs:
                try:
                    out[sid] = repr([tuple(map(repr_cell, rec)) for rec in c[sid].iterdata()])
                except Exception as e:  # noqa
                    out[sid] = "raise " + type(e).__name__
            return out

        def repr_cell(x):
            if hasattr(x, "iterdata") or isinstance(x, (list, tuple)):
                return repr([tuple(map(repr_cell, y)) for y in x])
            if isinstance(x, (float, np.floating)):
                return np.asarray(x).tobytes().hex()
            return repr(x)
        try:
            ref = read_all(app)
        except Exception:
            continue
        if any(v.startswith("raise") for v in ref.values()):
            continue      # codec limitations are C01/C05's business; here only chunk-independence
        sizes_list = [[k] for k in range(1, 18)] + [[rng.choice([1, 2, 3, 5, 8, 13]) for _ in range(7)] for _ in range(3)]
        for sizes in sizes_list:
            got = read_all(Rechunk(app, sizes))
            seq_checked += 1
            r.count(("rechunk", i, tuple(sizes)))
            if got != ref:
                direct.append({"law": "records do not depend on the chunking of the response", "dataset": repr(desc)[:800],
                               "chunk_sizes": sizes, "reference": ref, "got": got})
                break
        # ---------------------------------------------------------- (5) every truncation offset of the DAP2 body
        dds_txt, data = body.split(b"\nData:\n", 1)
        try:
            full = repr_tree(unpack_dap2_data(BytesReader(data), dds_to_dataset(dds_txt.decode("ascii"))), np)
        except Exception:
            continue
        # the DAP2 decoder MODEL (Xdr.unpack, the subject of C09_dap2_truncation_safe) on sampled cuts of the same body
        try:
            decl2 = C5.c_decl(desc)
            # the description must be what is served (a numpy-backed nested sequence can come out with coerced column types)
            if C5.ref_dds(desc).split() != dds_txt.decode("ascii").split():
                raise ValueError("served declaration differs from the description")
            C5.decoded_to_desc_val(desc, unpack_dap2_data(BytesReader(data), dds_to_dataset(dds_txt.decode("ascii"))), np)
            ks2 = set(rng.sample(range(len(data)), min(len(data), 12 if T == "quick" else 40)))
            ks2 |= {0, len(data) - 1, len(data) - 4, max(0, len(data) - 5)} & set(range(len(data)))
        except Exception:
            decl2, ks2 = None, set()
        for k in range(len(data)):
            try:
                raw_got = unpack_dap2_data(BytesReader(data[:k]), dds_to_dataset(dds_txt.decode("ascii")))
                got = repr_tree(raw_got, np)
            except Exception:
                raw_got = got = None
            trunc2_checked += 1
            if k in ks2:
                try:
                    impl = "None" if got is None else "(Some %s)" % C5.decoded_to_desc_val(desc, raw_got, np)[0]
                    t2_cases.append("(%s, %s, %s)" % (decl2, cB(data[:k]), impl))
                    t2_info.append({"dds": dds_txt.decode("ascii"), "cut_at": k, "length": len(data), "implementation": impl[:300]})
                except Exception:
                    pass
            if got is not None and got != full:
                direct.append({"law": "a DAP2 body cut short raises or decodes to the complete data", "dataset": repr(desc)[:800],
                               "cut_at": k, "length": len(data)})
                break
        r.count(("trunc2", i), nontrivial=True)
        # the same cuts through the other public entry point that reads a whole .dods body: open_dods_url
        from pydap.client import open_dods_url

        def via_open_dods_url(raw):
            def cutapp(environ, start_response):
                start_response("200 OK", [("Content-Type", "application/octet-stream"), ("Content-Length", str(len(raw)))])
                return [raw]
            dsx = open_dods_url("http://localhost:8001/d.dods", application=cutapp)
            out = []
            for v in dsx.values():
                out.append(repr_tree(list(v.iterdata()) if hasattr(v, "iterdata") and not hasattr(v, "shape") else
                                     [c.data for c in v.children()] if hasattr(v, "children") and not hasattr(v, "iterdata") else v.data, np))
            return out
        try:
            full2 = via_open_dods_url(body)
        except Exception:
            full2 = None
        if full2 is not None:
            for k in sorted(set(rng.sample(range(len(body)), min(len(body), 40 if T == "quick" else 200))) | {len(body) - 1, len(body) - 4}):
                try:
                    got2 = via_open_dods_url(body[:k])
                except BaseException:  # noqa  (a bare StopIteration is an error too)
                    got2 = None
                trunc2_checked += 1
                if got2 is not None and got2 != full2:
                    direct.append({"law": "a DAP2 body cut short raises or decodes to the complete data (open_dods_url)",
                                   "dataset": repr(desc)[:800], "cut_at": k, "length": len(body)})
                    break
    # ---------------------------------------------------------- the streaming client on cut responses: every record boundary and
    # sampled other offsets of a sequence response; the reader raises or delivers all the records
    class Cut:
        def __init__(self, app_, at):
            self.app_, self.at = app_, at

        def __call__(self, environ, start_response):
            body_ = b"".join(self.app_(environ, start_response))
            if environ.get("PATH_INFO", "").endswith(".dods"):
                body_ = body_[:self.at]
            return [body_[i_:i_ + 7] for i_ in range(0, len(body_), 7)] or [b""]
    from pydap.model import BaseType as _BT, DatasetType as _DT, SequenceType as _ST
    cq = _DT("c")
    cs_ = _ST("q")
    cs_["a"] = _BT("a")
    cs_["s"] = _BT("s")
    cs_.data = np.array([(j, "r%d" % j) for j in range(6)], dtype=[("a", "i4"), ("s", "S4")])
    cq["q"] = cs_
    capp = BaseHandler(cq)
    full_body = Request.blank("/.dods?q").get_response(capp).body
    want_c = [(j, "r%d" % j) for j in range(6)]
    for at in range(full_body.index(b"Data:\n") + 6, len(full_body)):
        r.count(("client-cut", at))
        try:
            cc = open_url("http://localhost:8001/", application=Cut(capp, at))
            got_c = [(int(a_), s_.decode() if isinstance(s_, bytes) else str(s_)) for a_, s_ in cc["q"].iterdata()]
        except BaseException:  # noqa
            got_c = None
        trunc2_checked += 1
        if got_c is not None and got_c != want_c:
            direct.append({"law": "a sequence response cut short raises or delivers all the records (streaming client)", "cut_at": at,
                           "length": len(full_body), "records_delivered": len(got_c), "records_served": len(want_c)})
            break
    # ---------------------------------------------------------- a response much larger than any buffer: 12000 records (~190 KiB)
    from pydap.model import BaseType, DatasetType, SequenceType
    big = DatasetType("big")
    bq = SequenceType("q")
    bq["a"] = BaseType("a")
    bq["b"] = BaseType("b")
    nbig = 12000
    bq.data = np.array([(j, j * 0.5) for j in range(nbig)], dtype=[("a", "i4"), ("b", "f8")])
    big["q"] = bq
    bigapp = BaseHandler(big)
    want_big = [(j, j * 0.5) for j in range(nbig)]
    for sizes in ([4], [17], [1000], [4096], [65536], [10 ** 7], [rng.choice([3, 700, 40000]) for _ in range(5)]):
        r.count(("big", tuple(sizes)))
        try:
            cbig = open_url("http://localhost:8001/", application=Rechunk(bigapp, sizes))
            got_big = [(int(x), float(y)) for x, y in cbig["q"].iterdata()]
        except Exception as e:  # noqa
            got_big = "raised " + repr(e)[:200]
        seq_checked += 1
        if got_big != want_big:
            direct.append({"law": "records do not depend on the chunking of the response (a response of ~190 KiB)", "chunk_sizes": sizes,
                           "got": got_big if isinstance(got_big, str) else "%d records, first difference at %s" % (
                               len(got_big), next((j for j, (x, y) in enumerate(zip(got_big, want_big)) if x != y), min(len(got_big), nbig)))})
    r.extra["rechunked_reads"] = seq_checked
    r.extra["dap2_truncations_checked"] = trunc2_checked

    # ------------------------------------------------------------------ (4) DAP4 truncation, every offset; model on samples
    t4_cases = []
    trunc4_checked = 0
    for i in range(10 if T == "quick" else 80):
        root = D.gen_dataset(rng, max_depth=2)
        vs = list(D.variables(root))
        little = rng.random() < 0.5
        ser = D.serialize([(v, v.values) for v in vs], little)
        payload = b"".join(x + c for x, c in ser)
        raw = D.respond(D.render_dmr(root), payload, little, D.partition_sizes(rng, len(payload), rng.choice(["one", 3, "random"])),
                        flag_all=rng.random() < 0.6)

        def dec(b):
            try:
                u = UNPACKDAP4DATA(io.BufferedReader(io.BytesIO(b)))
                from pydap.lib import walk
                from pydap.model import BaseType
                return [(v.id, np.asarray(v.data).tobytes(), np.asarray(v.data).shape) for v in walk(u.dataset, BaseType)]
            except Exception:
                return None
        full = dec(raw)
        if full is None:
            continue
        vars_coq = clist(vs, lambda v: "(mkVar %s %d)" % (D.TYPES[v.type][1], int(np.prod(v.shape)) if v.shape else 1))
        ks = list(range(len(raw)))
        sample = set(rng.sample(ks, min(len(ks), 25 if T == "quick" else 80)))
        for k in ks:
            got = dec(raw[:k])
            trunc4_checked += 1
            if got is not None and got != full:
                direct.append({"law": "a DAP4 response cut short raises or decodes to the complete data", "cut_at": k,
                               "length": len(raw), "dmr": D.render_dmr(root).decode()})
                break
            if k in sample:
                impl = "None" if got is None else "(Some (%s, %s))" % (
                    "true" if little else "false", "[" + "; ".join(D.coq_values(v, v.values) for v in vs) + "]")
                t4_cases.append("(%s, %s, %s)" % (cB(raw[:k]), vars_coq, impl))
        r.count(("trunc4", i))
    r.extra["dap4_truncations_checked"] = trunc4_checked

    # ------------------------------------------------------------------ run the models
    groups = [("sreads", "chk_sreads", sr_cases, "list (list N) * list nat * option (list (list N))"),
              ("breads", "chk_breads", br_cases, "list N * list nat * option (list (list N))"),
              ("find", "chk_find", fp_cases, "list N * list (list N) * option (list N * list (list N))"),
              ("trunc4", "chk_dap4", t4_cases, "list N * list var4 * option (bool * list (list value))")]
    mism = {}
    groups.append(("trunc2", "chk_unpack", t2_cases, "decl * list N * option val"))
    for name, chk, cases, ctype in groups:
        try:
            bad = coq_eval_mismatches(PID + "_" + name, "XdrCases" if name == "trunc2" else IMPORTS, chk, cases, ctype,
                                      shard=100, ztype=True)
        except RuntimeError as e:
            r.violation({"kind": "correspondence-broken", "group": name, "error": str(e)[-1500:],
                         "theorem": "correspondence %s (model could not be evaluated)" % name}, found=False)
            bad = []
        mism[name] = [cases[i] for i in bad]
    r.extra["cases"] = {g[0]: len(g[2]) for g in groups}
    r.extra["mismatches"] = {k: len(v) for k, v in mism.items()}
    r.cov["rule"] = ("cases: (byte string, chunk partition, read sizes) for the readers; (body, partition) for the separator search; "
                     "(dataset, chunk sizes) for sequence reads through a re-chunking middleware; (body, truncation offset) for "
                     "DAP2 and DAP4 - every offset of every generated body.  distinct = distinct tuple")
    r.sample({"stream_reader": sr_cases[3]})
    r.sample({"find_pattern": fp_cases[5]})
    if t4_cases:
        r.sample({"dap4_truncated": t4_cases[0][:400]})

    for d in direct[:5]:
        r.violation(dict(d, kind="property-violated", how="chunking / truncation oracle on the implementation"), found=True)
    if not direct:
        for name in mism:
            if mism[name]:
                extra_info = t2_info[t2_cases.index(mism[name][0])] if name == "trunc2" else {}
                r.violation({"kind": "correspondence-broken", "function": name, "input": extra_info,
                             "theorem": "correspondence of pydap with the Gallina model underlying props/C09.v (%s)" % name,
                             "case": mism[name][0][:3000], "n_mismatches": len(mism[name])}, found=False)
    r.assumptions = [
        "find_pattern_in_string_iter is modelled for a literal pattern (re.search of b'Data:\\n')",
        "DAP2 truncation: C09_dap2_truncation_safe / C09_dap2_strict_prefix_rejected are about the decoder model Xdr.unpack "
        "(shared with C05); it is compared with unpack_dap2_data on sampled cuts of every generated body (and on whole "
        "reference bodies under C05), while every cut is run on the implementation",
        "webob joins app_iter for non-sequence reads; chunking therefore matters for sequence reads (SequenceProxy) only",
    ]
    r.finish()


def repr_tree(x, np):
    if isinstance(x, (list, tuple)):
        return [repr_tree(y, np) for y in x]
    if hasattr(x, "iterdata") and not isinstance(x, np.ndarray):
        return ["IterData"] + [repr_tree(y, np) for y in x]
    if isinstance(x, np.ndarray):
        return (str(x.dtype), x.shape, x.tobytes())
    if isinstance(x, (np.generic,)):
        return (str(np.asarray(x).dtype), np.asarray(x).tobytes())
    return repr(x)


if __name__ == "__main__":
    import common
    common.run(main, PID)
