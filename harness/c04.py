"""C04 - sequence constraints return exactly the selected records and columns.
Proof: props/C04.v (the server pipeline = lazy-stream operations of C17 = the reference filter).
Correspondence / oracle: generated tables (Int32, Float64, String columns) x constraints (column subsets/permutations, record
ranges, 0-3 relational clauses) x backend {numpy structured array, IterData, CSV file} x entry {raw URL, open_url(url?ce),
client lazy operators}; result vs an independent reference filter; integer tables also vs the Gallina model."""
import operator
import os
import random
import shutil
import tempfile

from common import Report, clist, coq_eval_mismatches, cz, proof_phase, use_repo

PID = "C04"
IMPORTS = "IterDataCases"
COQOPS = {">": "RGt", ">=": "RGe", "<": "RLt", "<=": "RLe", "=": "REq", "!=": "RNe"}
PYOP = {">": operator.gt, ">=": operator.ge, "<": operator.lt, "<=": operator.le, "=": operator.eq, "!=": operator.ne}


def cs(s):
    return '"%s"%%string' % s


def main():
    r = Report(PID)
    rng = random.Random(r.seed)
    T = r.tier
    proof_phase(r, PID)
    use_repo()
    import numpy as np
    from webob import Request
    from pydap.client import open_dods_url, open_url
    from pydap.handlers.csv import CSVHandler
    from pydap.handlers.dap import unpack_dap2_data
    from pydap.handlers.lib import BaseHandler, IterData
    from pydap.lib import BytesReader
    from pydap.model import BaseType, DatasetType, SequenceType, StructureType
    from pydap.parsers.dds import dds_to_dataset

    tmp = tempfile.mkdtemp(prefix="verif_c04_")
    direct, coq_cases = [], []
    from common import known_findings
    kf = {e["id"]: e for e in known_findings(PID) if e.get("status") == "known"}
    known_hits = []
    stats = {}

    def norm(v):
        if isinstance(v, bytes):
            return v.decode("ascii")
        if isinstance(v, str):
            return v
        if isinstance(v, (float, np.floating)):
            return float(v)
        if hasattr(v, "shape") and v.shape == ():
            return norm(v.item())
        return int(v)

    def reference(cols, types, rows, want_cols, rng_slice, clauses):
        out = []
        for row in rows:
            env = dict(zip(cols, row))
            ok = True
            for c, o, rhs_kind, rhs in clauses:
                b = env[rhs] if rhs_kind == "col" else rhs
                ok = ok and PYOP[o](env[c], b)
            if ok:
                out.append([env[c] for c in want_cols])
        if rng_slice is not None:
            a, s, b = rng_slice
            out = out[a:b + 1:s]
        return out

    def literal(v):
        return '"%s"' % v if isinstance(v, str) else repr(v)

    try:
        n = 40 if T == "quick" else 500
        shared_clients = {}
        for ti in range(n):
            ncols = rng.randint(1, 5)
            cols = ["c%d" % j for j in range(ncols)]
            if ti == 1 or rng.random() < 0.25:
                # column names that are not identifiers (legal DAP names: no quoting needed)
                cols = ["t-max", "obs-id", "c2", "site_no-2", "c4"][:ncols]
            if rng.random() < 0.4:
                cols = rng.sample(cols, len(cols))      # the same names, stored in another order than in other tables
            int_only = rng.random() < 0.4
            types = ["i" if int_only else rng.choice("ids") for _ in cols]
            nrows = rng.randint(0, 8)
            rows = []
            if ti in (2, 3):
                # corpus tables: the same sequence id and column names in two storage orders, asked the same clauses
                ncols, cols, int_only, types, nrows = 3, [["c0", "c1", "c2"], ["c2", "c0", "c1"]][ti - 2], True, ["i", "i", "i"], 0
                rows = [tuple({"c0": j, "c1": 4 - j, "c2": 10 - 3 * j}[c] for c in cols) for j in range(5)]
            if ti == 0:
                # corpus table: two String columns whose padded sizes are permutations of one another from record to record
                ncols, cols, int_only, types, nrows = 3, ["c0", "c1", "c2"], False, ["s", "i", "s"], 0
                rows = [("ab", 1, "abcde"), ("abcdef", 2, "xy"), ("wxyzvu", 3, ""), ("", 4, "abcde"), ("x", 5, "u"),
                        ("abcdefgh", 6, "z")]        # a cell exactly as wide as the numpy field (S8)
            for _ in range(nrows):
                row = []
                for t in types:
                    if t == "i":
                        row.append(rng.choice([rng.randint(-3, 6), rng.randint(-3, 6), 10, 12, 1, 2, 25, -12]))
                    elif t == "d":
                        row.append(rng.choice([0.5, 1.5, -2.25, 3.0, 1e10, 0.0, 1e+20, 12345678.5]))
                    else:
                        # lengths on both sides of the 4-byte padding boundary: two string cells of one record can then have
                        # padded sizes that are a permutation of another record's
                        row.append(rng.choice(["u", "vw", "x", "abc", "A b", "a+b", "a b", "abcde", "wxyzvu", "", "wxyzvu12"]))
                rows.append(tuple(row))
            nrows = len(rows)            # (the corpus tables bring their rows with them)
            # ---- three backends
            def build(backend):
                ds = DatasetType("d")
                seq = SequenceType("q")
                for c in cols:
                    seq[c] = BaseType(c)
                if backend == "numpy":
                    dt = [(c, {"i": "i4", "d": "f8", "s": "S8"}[t]) for c, t in zip(cols, types)]
                    seq.data = np.array(rows, dtype=dt)
                else:
                    seq.data = IterData([tuple({"i": np.int32, "d": np.float64, "s": str}[t](v) for t, v in zip(types, row))
                                         for row in rows], seq)
                ds["q"] = seq
                return BaseHandler(ds)

            backends = ["numpy"] + (["iterdata"] if nrows > 0 else [])
            apps = {b: build(b) for b in backends}
            if nrows > 0 and all(t != "i" or True for t in types):
                path = os.path.join(tmp, "t%d.csv" % ti)
                with open(path, "w") as f:
                    f.write(",".join('"%s"' % c for c in cols) + "\n")
                    for row in rows:
                        f.write(",".join(('"%s"' % v) if isinstance(v, str) else repr(float(v)) if isinstance(v, float) else str(v)
                                         for v in row) + "\n")
                apps["csv"] = CSVHandler(path)
            seqname = {"numpy": "q", "iterdata": "q", "csv": "sequence"}
            for qi in range(4 if T == "quick" else 8):
                want_cols = rng.sample(cols, rng.randint(1, ncols)) if rng.random() < 0.7 else list(cols)
                rng_slice = None
                if rng.random() < 0.5:
                    a = rng.randint(0, 4)
                    rng_slice = (a, rng.randint(1, 3), rng.randint(a, 8))
                clauses = []
                for _ in range(rng.randint(0, 3)):
                    j = rng.randrange(ncols)
                    same = [k for k in range(ncols) if types[k] == types[j] or {types[k], types[j]} <= {"i", "d"}]
                    if rng.random() < 0.3 and len(same) > 1:
                        k = rng.choice([k for k in same if k != j])
                        clauses.append((cols[j], rng.choice(list(PYOP)), "col", cols[k]))
                    else:
                        if types[j] == "s":
                            clauses.append((cols[j], rng.choice(["=", "!="]), "const", rng.choice(["u", "vw", "zz", "A b", "a+b", "a b", "wxyzvu12", "wxyzvu123"])))
                        elif types[j] == "d":
                            clauses.append((cols[j], rng.choice(list(PYOP)), "const", rng.choice([0.5, 1.5, 0.0, 2.0, 1e+20, 12345678.5])))
                        else:
                            clauses.append((cols[j], rng.choice(list(PYOP)), "const", rng.randint(-2, 5)))
                # two clauses on one column with the same operator whose texts are prefix-related (q.c<12, then q.c<1)
                icols = [j for j in range(ncols) if types[j] == "i"]
                if icols and rng.random() < 0.25:
                    j = rng.choice(icols)
                    o_ = rng.choice(list(PYOP))
                    big_, small_ = rng.choice([(12, 1), (10, 1), (-12, -1), (25, 2)])
                    clauses = clauses[:1] + [(cols[j], o_, "const", big_), (cols[j], o_, "const", small_)]
                if ti in (2, 3) and qi < 2:
                    clauses = [[("c0", ">", "const", 1)], [("c1", "<", "col", "c2")]][qi]
                if ti == 0 and qi < 2:
                    # a constant longer than the width of the numpy field whose first 8 characters are a cell
                    clauses = [("c0", ["=", "!="][qi], "const", "abcdefgh9")]
                want = reference(cols, types, rows, want_cols, rng_slice, clauses)
                want_n = [[norm(v) for v in row] for row in want]
                # Gallina model for integer tables (numbers only)
                if int_only and len(coq_cases) < (300 if T == "quick" else 3000):
                    ops = ["(OFilter %s %s %s)" % (cs(c), COQOPS[o], ("(OColumn %s)" % cs(rhs)) if k == "col" else "(OConst %s)" % cz(rhs))
                           for c, o, k, rhs in clauses]
                    ops.append("(OCols %s)" % clist(want_cols, cs))
                    if rng_slice:
                        ops.append("(OSlice (mkSlice (Some %d) (Some %d) (Some %d)))" % (rng_slice[0], rng_slice[2] + 1, rng_slice[1]))
                    coq_cases.append("(%s, %s, %s, %s)" % (clist(cols, cs), clist(rows, lambda rw: clist(rw, cz)),
                                                           "[" + "; ".join(ops) + "]", clist(want, lambda rw: clist(rw, cz))))
                for backend, app in apps.items():
                    sq = seqname[backend]
                    slab = "[%d:%d:%d]" % rng_slice if rng_slice else ""
                    proj_items = ["%s.%s" % (sq, c) for c in want_cols]
                    if set(want_cols) == set(cols) and want_cols == cols and rng.random() < 0.5:
                        proj = sq + slab
                    else:
                        proj_items[0] = sq + slab + "." + want_cols[0]
                        if slab and len(proj_items) > 1 and rng.random() < 0.35:
                            # the record range written with every column: it is one range, applied once
                            proj_items = ["%s%s.%s" % (sq, slab, c) for c in want_cols]
                            stats["range_with_every_column"] = stats.get("range_with_every_column", 0) + 1
                        proj = ",".join(proj_items)
                        if want_cols == cols and not slab and rng.random() < 0.5:
                            proj = sq
                    sel = "&".join("%s.%s%s%s" % (sq, c, o, ("%s.%s" % (sq, rhs)) if k == "col" else literal(rhs))
                                   for c, o, k, rhs in clauses)
                    ce = proj + ("&" + sel if sel else "")
                    proj_cols = want_cols if proj != sq and proj != sq + slab else cols
                    want_here = want_n if proj_cols == want_cols else [[norm(v) for v in rw] for rw in
                                                                        reference(cols, types, rows, cols, rng_slice, clauses)]
                    for entry in ("raw", "open_url", "operators"):
                        key = "%s/%s" % (backend, entry)
                        stats[key] = stats.get(key, 0) + 1
                        r.count((ti, backend, entry, ce))
                        info = {"columns": cols, "types": types, "rows": [list(x) for x in rows], "constraint": ce,
                                "backend": backend, "entry": entry}
                        try:
                            if entry == "raw":
                                res = Request.blank("/d.dods?" + ce).get_response(app)
                                body = res.body
                                if res.status_int != 200:
                                    raise RuntimeError("status %s %s" % (res.status, body[-200:]))
                                dds_txt, data = body.split(b"\nData:\n", 1)
                                dsx = dds_to_dataset(dds_txt.decode("ascii"))
                                dec = unpack_dap2_data(BytesReader(data), dsx)
                                recs = dec[0]
                                got = [[norm(v) for v in (rec if len(proj_cols) >= 1 and hasattr(rec, "__len__") and not isinstance(rec, (str, bytes)) else [rec])]
                                       for rec in recs]
                            elif entry == "open_url":
                                c = open_url("http://localhost:8001/d?" + ce, application=app)
                                got = [[norm(v) for v in rec] for rec in c[sq].iterdata()]
                                # a column of that sequence is a column of the SAME records (range and selection included)
                                cn = rng.choice(list(c[sq].keys()))
                                colgot = [norm(v) for v in c[sq][cn].iterdata()]
                                colwant = [rw[proj_cols.index(cn)] for rw in want_here]
                                if colgot != colwant:
                                    direct.append(dict(info, law="a column of a sequence opened with a constraint in the URL holds the "
                                                                 "records the constraint selects", column=cn, got=colgot, want=colwant))
                            else:
                                # ONE client dataset per (table, back end) answers all operator cases of that table: an earlier
                                # expression must not leak into a later one
                                if (ti, backend) not in shared_clients:
                                    shared_clients[(ti, backend)] = open_url("http://localhost:8001/d", application=app)
                                c = shared_clients[(ti, backend)]
                                s = c[sq]
                                steps = []
                                for cl in clauses:
                                    steps.append(("cond", cl))
                                if proj_cols != cols:
                                    steps.append(("cols", proj_cols))
                                rng.shuffle(steps)          # conditions and column selection in any order
                                if rng_slice:
                                    steps.append(("range", rng_slice))
                                for kind, arg in steps:
                                    if kind == "cond":
                                        cc, o, k, rhs = arg
                                        left = c[sq][cc]
                                        right = c[sq][rhs] if k == "col" else rhs
                                        cond = {">": left > right, ">=": left >= right, "<": left < right, "<=": left <= right,
                                                "=": left == right, "!=": left != right}[o]
                                        s = s[cond]
                                    elif kind == "cols":
                                        s = s[list(arg)]
                                    else:
                                        s = s[arg[0]:arg[2] + 1:arg[1]]
                                got = [[norm(v) for v in rec] for rec in s.iterdata()]
                        except Exception as e:  # noqa
                            if backend in ("iterdata", "csv") and not want_here and "C04-empty-lazy-result" in kf:
                                known_hits.append(ce)           # listed finding: lazy backend, constraint selects no record
                                continue
                            if len(direct) < 15:
                                direct.append(dict(info, law="a valid sequence constraint is answered", error=repr(e)[:300]))
                            continue
                        if got != want_here and len(direct) < 15:
                            direct.append(dict(info, law="records and columns equal the reference filter (source order, request order)",
                                               got=got[:6], want=want_here[:6]))
    finally:
        shutil.rmtree(tmp, ignore_errors=True)
    r.extra["backend_entry_distribution"] = stats
    if "C04-empty-lazy-result" in kf:
        # replay of the listed finding on a fixed witness
        ds0 = DatasetType("d")
        s0 = SequenceType("q")
        s0["a"] = BaseType("a")
        s0.data = IterData([(np.int32(1),), (np.int32(2),)], s0)
        ds0["q"] = s0
        try:
            Request.blank("/d.dods?q&q.a>5").get_response(BaseHandler(ds0)).body
            still = False
        except Exception:
            still = True
        if still:
            r.known_finding("a lazy (IterData / CSV) sequence whose constraint selects no record raises instead of returning an "
                            "empty sequence (GET /d.dods?q&q.a>5 on a 2-record IterData sequence); %d generated cases of this class "
                            "in this run" % len(known_hits))

    # ---- the projection's hyperslabs: mentions of arrays and of the sequence with repeated / different / invalid hyperslabs,
    # compared with the Gallina model of the loop in apply_projection (model/Projection.v) and with a direct reference
    proj_cases, proj_stats = [], {"requests": 0, "refused": 0, "with_repeated_mention": 0}

    def slab_txt(t):
        a, st_, b = t
        if st_ == 1 and rng.random() < 0.3:
            return "[%d:%d]" % (a, b)
        return "[%d:%d:%d]" % (a, st_, b)
    for pi in range(120 if T == "quick" else 1500):
        nx, ny, nq = rng.randint(1, 8), rng.randint(1, 8), rng.randint(0, 8)
        dsp = DatasetType("d")
        dsp["x"] = BaseType("x", np.arange(nx, dtype="i4"))
        dsp["y"] = BaseType("y", np.arange(ny, dtype="i4"))
        sqp = SequenceType("q")
        sqp["a"] = BaseType("a")
        sqp["b"] = BaseType("b")
        sqp.data = np.array([(j, 10 * j) for j in range(nq)], dtype=[("a", "i4"), ("b", "i4")])
        dsp["q"] = sqp
        # two structures with a member of the same name (and often the same extent): a hyperslab belongs to the variable at its
        # PATH, so the same hyperslab text on the namesake is another hyperslab
        n1 = rng.randint(1, 8)
        n2 = n1 if rng.random() < 0.6 else rng.randint(1, 8)
        for sn_, nn_ in (("s1", n1), ("s2", n2)):
            stp = StructureType(sn_)
            stp["t"] = BaseType("t", np.arange(nn_, dtype="i4"))
            dsp[sn_] = stp
        appp = BaseHandler(dsp)
        ext = {"x": nx, "y": ny, "q": nq, "s1.t": n1, "s2.t": n2}
        mentions, texts = [], []
        namesakes = pi % 4 == 0 or rng.random() < 0.3
        for _ in range(rng.randint(1, 4)):
            v = rng.choice(["s1.t", "s2.t", "s2.t", "s1.t", "x"] if namesakes else ["x", "x", "y", "q", "q"])
            prev = [m for m in mentions if m[0] == v and m[1] is not None]
            other = [m for m in mentions if m[0] != v and m[0] != "q" and m[1] is not None]
            if rng.random() < 0.3:
                sl = None
            elif v != "q" and not prev and other and rng.random() < 0.7:
                # the very hyperslab another variable was given
                sl = rng.choice(other)[1]
            elif prev and (rng.random() < 0.5 or (v != "q" and any(m[1][1] != 1 for m in prev))):
                # the same hyperslab once more.  (A DIFFERENT hyperslab after a strided one is not generated for arrays: the
                # composition is numpy.lib.Arrayterator's, which adds the second start to the first without scaling it by the
                # stride - a defect of that library, not a behaviour of pydap's that the property speaks of.)
                sl = rng.choice(prev)[1]
            else:
                a = rng.randint(0, ext[v] + 1)
                sl = (a, rng.randint(1, 3), rng.randint(max(a - 1, 0), ext[v] + 2))
            mentions.append((v, sl))
            txt = v + (slab_txt(sl) if sl else "")
            if v == "q" and rng.random() < 0.6:
                txt += "." + rng.choice("ab")
            texts.append(txt)
        ce = ",".join(texts)
        proj_stats["requests"] += 1
        proj_stats["with_repeated_mention"] += len(set(m for m in mentions if m[1])) < len([m for m in mentions if m[1]])
        r.count(("projection", nx, ny, nq, ce))
        obs = None
        try:
            res = Request.blank("/d.dods?" + ce).get_response(appp)
            body = res.body
            if res.status_int == 200:
                dsr = open_dods_url("http://localhost:8001/d.dods?" + ce, application=appp)
                obs = {}
                for v in dsr.keys():
                    if v in ("s1", "s2"):
                        obs[v + ".t"] = [int(e) for e in np.asarray(dsr[v]["t"].data).reshape(-1)]
                    elif v == "q":
                        col = list(dsr["q"].keys())[0]
                        obs["q"] = [int(rec[0]) // (10 if col == "b" else 1) for rec in dsr["q"][col,].iterdata()]
                    else:
                        obs[v] = [int(e) for e in np.asarray(dsr[v].data).reshape(-1)]
        except Exception as e:  # noqa
            direct.append({"law": "a projection is answered completely or refused with an error document", "backend": "numpy", "entry": "raw",
                           "constraint": ce, "error": repr(e)[:200]})
            continue
        # direct reference: distinct (variable, hyperslab) pairs applied in order of first mention, to what is left
        want, seen_p = {v: list(range(n_)) for v, n_ in ext.items()}, set()
        for v, sl in mentions:
            if sl is None or (v, sl) in seen_p or want is None:
                continue
            seen_p.add((v, sl))
            a, st_, b = sl
            if not (0 <= a < b + 1 and st_ >= 1 and (v == "q" or a < len(want[v]))):
                want = None
                break
            want[v] = want[v][a:b + 1:st_]
        proj_stats["refused"] += obs is None
        if (obs is None) != (want is None) or (obs is not None and any(obs[v] != want[v] for v in obs)):
            direct.append({"law": "a hyperslab written more than once for a variable is one hyperslab; distinct ones apply in order to what "
                                  "is left; an invalid one is refused", "backend": "numpy", "entry": "raw", "constraint": ce,
                           "extents": ext, "got": obs, "want": want})
        proj_cases.append("(%s, %s, %s)" % (
            "[" + "; ".join("(%s, %s, %d%%nat)" % (cs(v), "false" if v == "q" else "true", n_) for v, n_ in ext.items()) + "]",
            clist(mentions, lambda m: "(%s, %s)" % (cs(m[0]), "None" if m[1] is None else "(Some (mkSlab %d %d %d))" % (m[1][0], m[1][2] + 1, m[1][1]))),
            "None" if obs is None else "(Some %s)" % clist(sorted(obs.items()), lambda kv: "(%s, %s)" % (cs(kv[0]), clist(kv[1], cz)))))
    r.extra["projection_hyperslabs"] = proj_stats
    try:
        badp = coq_eval_mismatches(PID + "_proj", "ProjectionCases", "chk_projection", proj_cases,
                                   "list (cname * bool * nat) * list mention * option (list (cname * list Z))", shard=200)
    except RuntimeError as e:
        r.violation({"kind": "correspondence-broken", "error": str(e)[-1500:], "theorem": "projection model evaluation"}, found=False)
        badp = []
    if badp and not direct:
        r.violation({"kind": "correspondence-broken", "theorem": "Gallina model of the hyperslab loop of apply_projection (model/Projection.v)",
                     "case": proj_cases[badp[0]], "n_mismatches": len(badp)}, found=False)

    try:
        bad = coq_eval_mismatches(PID + "_model", IMPORTS, "chk_pipeline", coq_cases,
                                  "list cname * list row * list op * list row", shard=200)
    except RuntimeError as e:
        r.violation({"kind": "correspondence-broken", "error": str(e)[-1500:], "theorem": "model evaluation"}, found=False)
        bad = []
    r.extra["cases"] = {"model": len(coq_cases)}
    r.extra["mismatches"] = {"model": len(bad)}
    r.cov["rule"] = ("a case is (table 0-8 rows x 1-5 columns of Int32/Float64/String, column subset/permutation, optional record range, "
                     "0-3 clauses, backend numpy/IterData/CSV, entry raw URL/open_url(url?ce)/client operators in shuffled order); "
                     "distinct = distinct tuple")
    if coq_cases:
        r.sample({"model_case": coq_cases[0]})
    seen = set()
    for d in direct:
        k = (d["law"], d["backend"], d["entry"])
        if k in seen:
            continue
        seen.add(k)
        if len(seen) <= 5:
            r.violation(dict(d, kind="property-violated", how="served sequence vs independent reference filter"), found=True)
    if not direct and bad:
        r.violation({"kind": "correspondence-broken", "theorem": "Gallina pipeline (filters, OCols, OSlice) vs the reference filter on the "
                     "cases the implementation agreed with", "case": coq_cases[bad[0]], "n_mismatches": len(bad)}, found=False)
    r.assumptions = [
        "the Gallina model covers integer tables; Float64 and String columns are decided by the reference filter of the harness",
        "CSV files are written by the harness (numbers unquoted, strings quoted) and read by pydap's CSV handler",
        "the column projection + record range is written seq[range].col,... (the only form the server honours)",
    ]
    r.finish()


if __name__ == "__main__":
    import common
    common.run(main, PID)
