"""Generator of datasets over the DAP2 value domain (shared by C01 C05 C06 C09 C13 ...).

Abstract description (plain tuples, hashable, independent of pydap):
  ("base", name, code, shape, flat_values)        code in B h H i I f d b S   (S = ASCII strings)
  ("struct", name, (members...))
  ("grid", name, array_base, (map_bases...))
  ("seq", name, (columns...), rows)               columns: rank-0 bases (values unused) or nested seq (rows unused)
                                                   rows: tuple of tuples; a nested-sequence cell is a tuple of rows
Floats are carried as python floats produced from exact bit patterns (compare via bits()).
"""
import struct

import numpy as np

CODES = "BhHiIfdbS"
NP = {"B": "u1", "h": "i2", "H": "u2", "i": "i4", "I": "u4", "f": "f4", "d": "f8", "b": "i1"}
DAP2 = {"B": "Byte", "h": "Int16", "H": "UInt16", "i": "Int32", "I": "UInt32", "f": "Float32", "d": "Float64",
        "b": "Int16", "S": "String"}
F32_SPECIAL = [0x00000000, 0x80000000, 0x7F800000, 0xFF800000, 0x7FC00000, 0x7F7FFFFF, 0x00000001, 0x3F800000, 0xC2F70000]
F64_SPECIAL = [0x0, 0x8000000000000000, 0x7FF0000000000000, 0xFFF0000000000000, 0x7FF8000000000000,
               0x7FEFFFFFFFFFFFFF, 0x1, 0x3FF0000000000000, 0xC05EC00000000000]
PRINTABLE = "".join(chr(c) for c in range(32, 127))


def f32(bits):
    return struct.unpack(">f", struct.pack(">I", bits))[0]


def f64(bits):
    return struct.unpack(">d", struct.pack(">Q", bits))[0]


def bits(code, x):
    """canonical comparison key of one value"""
    if code == "f":
        b = struct.unpack(">I", struct.pack(">f", x))[0]
        return ("f", 0x7FC00000 if (b & 0x7F800000) == 0x7F800000 and (b & 0x7FFFFF) else b)
    if code == "d":
        b = struct.unpack(">Q", struct.pack(">d", x))[0]
        return ("d", 0x7FF8000000000000 if (b & 0x7FF0000000000000) == 0x7FF0000000000000 and (b & 0xFFFFFFFFFFFFF) else b)
    if code == "S":
        return ("S", x if isinstance(x, str) else bytes(x).decode("ascii"))
    return ("i", int(x))


def gen_value(rng, code, strings_nonempty=False):
    if code == "f":
        return f32(rng.choice(F32_SPECIAL)) if rng.random() < 0.4 else f32(struct.unpack(">I", struct.pack(">f", rng.uniform(-1e4, 1e4)))[0])
    if code == "d":
        return f64(rng.choice(F64_SPECIAL)) if rng.random() < 0.4 else rng.uniform(-1e8, 1e8)
    if code == "S":
        n = rng.choice([0, 1, 2, 3, 4, 5, 7, 8, 11]) if not strings_nonempty else rng.choice([1, 2, 3, 4, 5, 8])
        if rng.random() < 0.04:
            n = rng.choice([127, 128, 129, 200])      # longer than the |S128 placeholder dtype of parsed String variables
        return "".join(rng.choice(PRINTABLE) for _ in range(n))
    info = np.iinfo(NP[code])
    return int(rng.choice([info.min, info.max, 0, 1, info.max - 1])) if rng.random() < 0.4 else rng.randint(int(info.min), int(info.max))


def gen_base(rng, name, codes=CODES, max_rank=3, **kw):
    code = rng.choice(codes)
    rank = rng.randint(0, max_rank)
    shape = tuple(rng.randint(1, 3) for _ in range(rank))
    n = int(np.prod(shape)) if shape else 1
    vals = [gen_value(rng, code, **kw) for _ in range(n)]
    if code == "S" and shape and rng.random() < 0.3:
        # one element of a String ARRAY longer than the |S128 placeholder dtype the DDS parser declares
        vals[rng.randrange(n)] = "".join(rng.choice(PRINTABLE) for _ in range(rng.choice([129, 150, 260])))
    return ("base", name, code, shape, tuple(vals))


def gen_seq(rng, name, depth=0, codes=CODES, inner=True, nrows=None):
    ncols = rng.randint(1, 4)
    cols = []
    two_strings = "S" in codes and ncols >= 2 and rng.random() < 0.25     # records whose string sizes are permutations of one another
    for j in range(ncols):
        cols.append(("base", "%s_c%d" % (name, j), "S" if (two_strings and j < 2) else rng.choice(codes), (), ()))
    has_inner = inner and depth < 1 and rng.random() < 0.4
    if has_inner:
        cols.append(gen_seq(rng, name + "_in", depth + 1, codes, inner=False, nrows=0)[:3] + ((),))
    rows = []
    for _ in range(rng.choice([0, 1, 2, 3, 5]) if nrows is None else nrows):
        row = []
        for c in cols:
            if c[0] == "base":
                row.append(gen_value(rng, c[2]))
            else:
                row.append(tuple(tuple(gen_value(rng, cc[2]) for cc in c[2]) for _ in range(rng.choice([0, 0, 1, 2, 3]))))
        rows.append(tuple(row))
    return ("seq", name, tuple(cols), tuple(rows))


def gen_grid(rng, name, codes="BhHiIfdb"):
    rank = rng.randint(1, 3)
    shape = tuple(rng.randint(1, 3) for _ in range(rank))
    code = rng.choice(codes)
    n = int(np.prod(shape))
    arr = ("base", name, code, shape, tuple(gen_value(rng, code) for _ in range(n)))
    maps = []
    for k, ext in enumerate(shape):
        mc = rng.choice("ifdh")
        maps.append(("base", "%s_m%d" % (name, k), mc, (ext,), tuple(gen_value(rng, mc) for _ in range(ext))))
    return ("grid", name, arr, tuple(maps))


def gen_struct(rng, name, depth, kinds):
    members = []
    for j in range(rng.randint(1, 3)):
        members.append(gen_var(rng, "%s_%d" % (name, j), depth + 1, kinds))
    return ("struct", name, tuple(members))


def gen_var(rng, name, depth=0, kinds=("base", "base", "struct", "grid", "seq")):
    k = rng.choice(kinds)
    if k == "struct" and depth < 2:
        return gen_struct(rng, name, depth, kinds)
    if k == "grid":
        return gen_grid(rng, name)
    if k == "seq":
        return gen_seq(rng, name)
    return gen_base(rng, name)


def gen_dataset(rng, kinds=("base", "base", "struct", "grid", "seq"), nvars=None):
    n = nvars or rng.randint(1, 4)
    return ("dataset", "d%d" % rng.randint(0, 99), tuple(gen_var(rng, "v%d" % j, 0, kinds) for j in range(n)))


# ------------------------------------------------------------------ building pydap objects
def memory_layout(a, key):
    """the same array (same shape, same values) laid out differently in memory: the order of the elements on the wire is the
    logical (row-major) order, whatever the strides of the array that is served.  Deterministic in `key`."""
    if a.ndim < 2:
        return a
    k = key % 3
    if k == 1:
        return np.asfortranarray(a)
    if k == 2:
        return np.ascontiguousarray(a.swapaxes(0, 1)).swapaxes(0, 1)     # a view with permuted strides
    return a


def np_array(code, shape, flat):
    if code == "S":
        a = np.array(list(flat), dtype="S") if flat and max(len(s) for s in flat) > 0 else np.array(list(flat), dtype="S1")
        return memory_layout(a.reshape(shape), len(flat) + sum(len(s) for s in flat))
    a = np.array(list(flat), dtype=NP[code]).reshape(shape)
    a = memory_layout(a, len(flat) * 5 + len(str(flat[0])) if flat else 0)
    # stored byte order is not part of the value: big-endian, little-endian and native arrays (netCDF-3 readers and pydap's own
    # client deliver big-endian data) must be served alike.  Deterministic in the values, so that rebuilt datasets agree.
    k = (len(flat) * 7 + sum(len(str(x)) for x in flat[:3]) + len(shape)) % 4
    if k == 1:
        a = a.astype(a.dtype.newbyteorder(">"))
    elif k == 2:
        a = a.astype(a.dtype.newbyteorder("<"))
    return a


def build(desc, seq_backend="numpy"):
    """abstract description -> pydap object tree (server side)"""
    from pydap.handlers.lib import IterData
    from pydap.model import BaseType, DatasetType, GridType, SequenceType, StructureType
    k = desc[0]
    if k == "dataset":
        ds = DatasetType(desc[1])
        for m in desc[2]:
            ds[m[1]] = build(m, seq_backend)
        return ds
    if k == "base":
        return BaseType(desc[1], np_array(desc[2], desc[3], desc[4]))
    if k == "struct":
        s = StructureType(desc[1])
        for m in desc[2]:
            s[m[1]] = build(m, seq_backend)
        return s
    if k == "grid":
        g = GridType(desc[1])
        arr = desc[2]
        dims = tuple(m[1] for m in desc[3])
        g[arr[1]] = BaseType(arr[1], np_array(arr[2], arr[3], arr[4]), dims=dims)
        for m in desc[3]:
            g[m[1]] = BaseType(m[1], np_array(m[2], m[3], m[4]))
        return g
    if k == "seq":
        s = SequenceType(desc[1])
        for c in desc[2]:
            if c[0] == "base":
                s[c[1]] = BaseType(c[1])
            else:
                inner = SequenceType(c[1])
                for cc in c[2]:
                    inner[cc[1]] = BaseType(cc[1])
                s[c[1]] = inner
        nested = any(c[0] == "seq" for c in desc[2])
        if nested or seq_backend == "iterdata":
            def typed(c, x):
                # IterData infers the column types from the values: use typed numpy scalars
                return x if c[2] == "S" else np.dtype(NP[c[2]]).type(x)
            rows = []
            for row in desc[3]:
                rows.append(tuple(typed(c, cell) if c[0] == "base" else
                                  [tuple(typed(cc, x) for cc, x in zip(c[2], r)) for r in cell]
                                  for c, cell in zip(desc[2], row)))
            s.data = IterData(rows, s)
        else:
            dt = []
            for j, c in enumerate(desc[2]):
                if c[2] == "S":
                    w = max([len(r[j]) for r in desc[3]] + [1])
                    dt.append((c[1], "S%d" % w))
                else:
                    dt.append((c[1], NP[c[2]]))
            s.data = np.array([tuple(r) for r in desc[3]], dtype=dt)
        return s
    raise ValueError(k)


def walk_desc(desc, prefix=""):
    """yield (id, leaf description) for base leaves outside sequences, and (id, seq desc) for sequences"""
    k = desc[0]
    if k == "dataset":
        for m in desc[2]:
            yield from walk_desc(m, "")
    elif k == "base":
        yield (prefix + desc[1], desc)
    elif k == "struct":
        for m in desc[2]:
            yield from walk_desc(m, prefix + desc[1] + ".")
    elif k == "grid":
        yield from walk_desc(desc[2], prefix + desc[1] + ".")
        for m in desc[3]:
            yield from walk_desc(m, prefix + desc[1] + ".")
    elif k == "seq":
        yield (prefix + desc[1], desc)


def canon_base(desc):
    return (DAP2[desc[2]], tuple(desc[3]), tuple(bits(desc[2], x) for x in desc[4]))


def canon_rows(seqdesc, rows=None):
    rows = seqdesc[3] if rows is None else rows
    out = []
    for row in rows:
        cells = []
        for c, cell in zip(seqdesc[2], row):
            if c[0] == "base":
                cells.append(bits(c[2], cell))
            else:
                cells.append(tuple(tuple(bits(cc[2], x) for cc, x in zip(c[2], r)) for r in cell))
        out.append(tuple(cells))
    return tuple(out)
