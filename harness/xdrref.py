"""Independent reference DAP2/XDR encoder and decoder over the abstract descriptions of dap2gen."""
import struct

START = b"\x5a\x00\x00\x00"
END = b"\xa5\x00\x00\x00"


def be32(n):
    return struct.pack(">I", n)


def pad4(n):
    return b"\0" * (-n % 4)


def atom(code, x):
    if code == "B":
        return bytes([int(x)])
    if code in "hib":
        return struct.pack(">i", int(x))
    if code in "HI":
        return struct.pack(">I", int(x))
    if code == "f":
        return struct.pack(">f", x)
    if code == "d":
        return struct.pack(">d", x)
    if code == "S":
        b = x.encode("ascii") if isinstance(x, str) else bytes(x)
        return be32(len(b)) + b + pad4(len(b))
    raise ValueError(code)


def enc_base(desc):
    _, name, code, shape, flat = desc
    if not shape:
        out = atom(code, flat[0])
        return out + (b"\0\0\0" if code == "B" else b"")
    n = len(flat)
    out = be32(n) + (b"" if code == "S" else be32(n))
    out += b"".join(atom(code, x) for x in flat)
    if code == "B":
        out += pad4(n)
    return out


def enc(desc, rows=None):
    k = desc[0]
    if k == "dataset":
        return b"".join(enc(m) for m in desc[2])
    if k == "base":
        return enc_base(desc)
    if k == "struct":
        return b"".join(enc(m) for m in desc[2])
    if k == "grid":
        return enc(desc[2]) + b"".join(enc(m) for m in desc[3])
    if k == "seq":
        rows = desc[3] if rows is None else rows
        out = b""
        for row in rows:
            out += START
            for c, cell in zip(desc[2], row):
                if c[0] == "base":
                    out += enc_base(("base", c[1], c[2], (), (cell,)))
                else:
                    out += enc(c, rows=cell)
        return out + END
    raise ValueError(k)
