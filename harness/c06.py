"""C06 - all response kinds describe the same constrained dataset.
Proof: props/C06.v (source facts regenerated on every run, handler model on those facts, ASCII layout laws).
Correspondence: for generated datasets (C01's domain) and valid constraints, pydap's ASCII body vs the Gallina layout model applied
to the DDS text of the same request and the value tokens of the constrained dataset.
Direct oracle: DDS text is the head of the data and ASCII bodies; the data body is the reference XDR encoding of the constrained
dataset; an independent reader of the ASCII body finds every value in order with the right index labels; DAS with and without
the constraint are identical."""
import itertools
import random

import dap2gen as G
import xdrref as X
from common import Report, clist, coq_eval_mismatches, known_findings, proof_phase, use_repo
from c07 import ctext

PID = "C06"
IMPORTS = "AsciiCases"


def tok(code, v):
    if code == "S":
        return '"%s"' % (v if isinstance(v, str) else bytes(v).decode("ascii"))
    if code in "fd":
        import numpy as np
        return "%.6g" % (float(np.float32(v)) if code == "f" else float(v))
    return "%.6g" % int(v)


def constrain(rng, desc):
    """valid constraint on top-level variables -> (query string, constrained description, has_selection)"""
    import numpy as np
    picks = rng.sample(list(desc[2]), rng.randint(1, len(desc[2])))
    toks, members, sel, moved = [], [], [], []

    def slab(m):
        sl, txt = [], ""
        for e in m[3]:
            a = rng.randrange(e)
            b = rng.randrange(a, e)
            st = rng.randint(1, 2)
            sl.append(slice(a, b + 1, st))
            txt += rng.choice(["[%d:%d:%d]" % (a, st, b), "[%d:%d]" % (a, b)] if st == 1 else ["[%d:%d:%d]" % (a, st, b)])
        arr = np.array(list(m[4]), dtype=object).reshape(m[3])[tuple(sl)]
        return sl, txt, ("base", m[1], m[2], tuple(arr.shape), tuple(arr.reshape(-1).tolist()))
    for m in picks:
        k = rng.random()
        if m[0] == "base" and m[3] and k < 0.7:
            _, txt, cm = slab(m)
            members.append(cm)
            toks.append(m[1] + txt)
        elif m[0] == "struct" and m[2] and k < 0.5 and all(x[0] == "base" for x in m[2]):
            sub = rng.choice(m[2])
            if sub[3] and rng.random() < 0.5:
                _, txt, cs = slab(sub)
                members.append(("struct", m[1], (cs,)))
                toks.append("%s.%s%s" % (m[1], sub[1], txt))
            else:
                members.append(("struct", m[1], (sub,)))
                toks.append("%s.%s" % (m[1], sub[1]))
        elif m[0] == "grid" and k < 0.6:
            arr = m[2]
            sl, txt, ca = slab(arr)
            maps = []
            for s_, mp in zip(sl, m[3]):
                a = np.array(list(mp[4]), dtype=object)[s_]
                maps.append(("base", mp[1], mp[2], (len(a),), tuple(a.tolist())))
            moved.append(("grid", m[1], ca, tuple(maps)))     # a sliced Grid is re-inserted: it ends up after the other variables
            toks.append(m[1] + txt)
        elif m[0] == "seq" and all(c[0] == "base" for c in m[2]) and m[3] and k < 0.7:
            cols = list(range(len(m[2])))
            chosen = rng.sample(cols, rng.randint(1, len(cols)))
            rows = list(m[3])
            numeric = [j for j in cols if m[2][j][2] in "hHiI"]
            if numeric and rng.random() < 0.5:
                j = rng.choice(numeric)
                thr = rng.choice([r_[j] for r_ in rows])
                op = rng.choice([">", "<", ">=", "<=", "=", "!="])
                import operator
                f = {">": operator.gt, "<": operator.lt, ">=": operator.ge, "<=": operator.le, "=": operator.eq, "!=": operator.ne}[op]
                kept = [r_ for r_ in rows if f(r_[j], thr)]
                if kept:
                    rows = kept
                    sel.append("%s.%s%s%d" % (m[1], m[2][j][1], op, thr))
            members.append(("seq", m[1], tuple(m[2][j] for j in chosen), tuple(tuple(r_[j] for j in chosen) for r_ in rows)))
            toks.append(",".join("%s.%s" % (m[1], m[2][j][1]) for j in chosen))
        else:
            members.append(m)
            toks.append(m[1])
    q = ",".join(toks) + "".join("&" + s for s in sel)
    return q, ("dataset", desc[1], tuple(members + moved))


def flat_only(desc):
    """no nested sequences (the layout model covers flat sequences)"""
    def rec(d):
        if d[0] in ("dataset", "struct"):
            return all(rec(m) for m in d[2])
        if d[0] == "seq":
            return all(c[0] == "base" for c in d[2])
        return True
    return rec(desc)


def c_avar(d, prefix=""):
    """Gallina avar of a constrained description (ids as pydap prints them)"""
    k = d[0]
    vid = (prefix + "." + d[1]) if prefix else d[1]
    if k == "base":
        return "(A1 %s %s %s)" % (ctext(vid), clist(list(d[3]), lambda n: "%d%%nat" % n), clist([tok(d[2], v) for v in d[4]], ctext))
    if k == "struct":
        return "(VStruct %s)" % clist(list(d[2]), lambda m: c_avar(m, vid))
    if k == "grid":
        return "(VStruct %s)" % clist([d[2]] + list(d[3]), lambda m: c_avar(m, vid))
    ids = ["%s.%s" % (vid, c[1]) for c in d[2]]
    rows = [[tok(c[2], cell) for c, cell in zip(d[2], row)] for row in d[3]]
    return "(AS %s %s)" % (clist(ids, ctext), clist(rows, lambda r_: clist(r_, ctext)))


def read_ascii(text):
    """independent reader of the value part: list of ('arr', id, [(index tuple, token)]) / ('scalar', id, token) /
    ('seq', [ids], [[tokens]])"""
    out = []
    lines = text.split("\n")
    i = 0
    while i < len(lines):
        ln = lines[i]
        if ln == "":
            i += 1
            continue
        # a sequence header is a line of ids followed by record lines; an array / scalar is an id line followed by values
        nxt = lines[i + 1] if i + 1 < len(lines) else ""
        if nxt.startswith("["):
            elems = []
            j = i + 1
            while j < len(lines) and lines[j].startswith("["):
                lab, _, t = lines[j].partition(" ")
                elems.append((tuple(int(x) for x in lab[1:-1].split("][")), t))
                j += 1
            out.append(("arr", ln, elems))
            i = j
        else:
            out.append(("block", ln, nxt))
            i += 2
    return out


def main():
    r = Report(PID)
    rng = random.Random(r.seed)
    T = r.tier
    proof_phase(r, PID)
    use_repo()
    import numpy as np
    from webob import Request
    from pydap.handlers.lib import BaseHandler

    direct, cases = [], []
    stats = {"requests": 0, "constrained": 0, "with_selection": 0, "nested_sequences": 0, "arrays_checked": 0, "values_checked": 0}
    # names that need DAP quoting: every response kind names a variable by the same (quoted) id
    try:
        from pydap.model import BaseType, DatasetType, SequenceType, StructureType
        qd = DatasetType("quoted")
        qd["my var"] = BaseType("my var", np.arange(3, dtype="i4"))
        qs = StructureType("s")
        qs["a.b"] = BaseType("a.b", np.arange(2, dtype="f8"))
        qd["s"] = qs
        qq = SequenceType("q")
        qq["col 1"] = BaseType("col 1")
        qq["b"] = BaseType("b")
        qq.data = np.array([(1, 2.5), (3, 4.5)], dtype=[("col%201", "i4"), ("b", "f8")])
        qd["q"] = qq
        qapp = BaseHandler(qd)
        for ce, ids in (("", ["my%20var", "s.a%2Eb"]), ("my%20var", ["my%20var"]), ("q", []), ("s", ["s.a%2Eb"])):
            dds_b = Request.blank("/.dds?" + ce).get_response(qapp).body.decode("ascii")
            asc_b = Request.blank("/.ascii?" + ce).get_response(qapp).body.decode("ascii")
            dods_b = Request.blank("/.dods?" + ce).get_response(qapp).body
            r.count(("quoted-names", ce))
            tail = asc_b[len(dds_b):]
            lines = tail.split("\n")
            missing = [i_ for i_ in ids if i_ not in lines]
            seq_hdr_ok = (ce not in ("", "q")) or ("q.col%201, q.b" in lines)
            dds_ok = all(i_.split(".")[-1] in dds_b for i_ in ids) and (ce not in ("", "q") or "col%201" in dds_b)
            if missing or not seq_hdr_ok or not dds_ok or not dods_b.startswith(dds_b.encode()):
                direct.append({"law": "the ASCII response names every variable by the id the DDS of the same request declares (names that "
                                      "need quoting)", "ce": ce, "ids_not_found_as_lines": missing, "sequence_header_found": seq_hdr_ok,
                               "ascii": asc_b[:600]})
    except Exception as e:  # noqa
        direct.append({"law": "a dataset whose names need quoting is answered in every response kind", "error": repr(e)[:300]})
    known_nested = False
    # ---- the projection of ONE COLUMN OF AN INNER sequence (n.in.v): the three response kinds agree and complete
    kf = {e["id"]: e for e in known_findings(PID) if e.get("status") == "known"}
    nseq = ("dataset", "c3", (("seq", "n", (("base", "k", "i", (), ()), ("seq", "in", (("base", "u", "i", (), ()), ("base", "v", "d", (), ())), ())),
                               ((1, ((10, 1.5), (11, 2.5))), (2, ((20, 3.5),)))),))
    for col_, jcol_ in (("v", 1), ("u", 0)):
        ncd = ("dataset", "c3", (("seq", "n", (("seq", "in", (nseq[2][0][2][1][2][jcol_],), ()),),
                                  tuple((tuple((r_[jcol_],) for r_ in row_[1]),) for row_ in nseq[2][0][3])),))
        r.count(("nested-column-projection", col_))
        nprob = None
        try:
            appn = BaseHandler(G.build(nseq, "iterdata"))
            got_ = {}
            for ext in ("dds", "dods", "ascii"):
                resn = Request.blank("/.%s?n.in.%s" % (ext, col_)).get_response(appn)
                got_[ext] = resn.body
                if resn.status_int != 200:
                    nprob = "%s: status %s" % (ext, resn.status)
            if nprob is None and got_["dods"][len(got_["dds"]) + 6:] != X.enc(ncd):
                nprob = "the data response does not carry the values of column %s" % col_
            if nprob is None:
                want_tokens = [("%g" % r_[jcol_]) for row_ in nseq[2][0][3] for r_ in row_[1]]
                atxt = got_["ascii"][len(got_["dds"]):].decode("latin-1")
                if not all(t_ in atxt for t_ in want_tokens):
                    nprob = "the ASCII response does not print the values of column %s (%s)" % (col_, ", ".join(want_tokens))
        except Exception as e:  # noqa
            nprob = "raised while the body was produced: " + repr(e)[:200]
        if nprob is not None:
            if "C06-nested-column-projection" in kf:
                known_nested = True
            else:
                direct.append({"law": "for a valid constraint every response kind completes without error and carries the same values",
                               "ce": "n.in." + col_, "dataset": repr(nseq), "error": nprob})
    n = 150 if T == "quick" else 2500
    # corpus (independent of the seed): a String column before a Byte column; a projection naming the columns in another order
    q3 = ("seq", "q", (("base", "a", "i", (), ()), ("base", "b", "i", (), ()), ("base", "c", "h", (), ())),
          ((1, 10, 100), (2, 20, 200), (3, 30, 300)))
    q3ca = ("seq", "q", (q3[2][2], q3[2][0]), tuple((row[2], row[0]) for row in q3[3]))
    sb = ("seq", "q", (("base", "s", "S", (), ()), ("base", "b", "B", (), ()), ("base", "n", "i", (), ())),
          (("ab", 7, 1), ("", 255, 2), ("abcde", 0, 3)))
    corpus = [(("dataset", "c0", (sb,)), "", ("dataset", "c0", (sb,))),
              (("dataset", "c1", (q3,)), "q.c,q.a", ("dataset", "c1", (q3ca,))),
              (("dataset", "c2", (q3,)), "q.c,q.a&q.a>1", ("dataset", "c2", (("seq", "q", q3ca[2], q3ca[3][1:]),)))]
    for i in range(n + len(corpus)):
        desc = G.gen_dataset(rng)
        if i < len(corpus):
            desc = corpus[i][0]
        backend = "numpy"
        # lazy backends cannot describe an empty sequence (known findings C04 / C15): numpy backend here
        ok = True

        def rec(d):
            nonlocal ok
            if d[0] in ("dataset", "struct"):
                for m in d[2]:
                    rec(m)
            elif d[0] == "seq" and any(c[0] == "seq" for c in d[2]):
                if not d[3] or any(c[0] == "seq" and not any(row[j] for row in d[3]) for j, c in enumerate(d[2])):
                    ok = False
        rec(desc)
        if not ok:
            continue
        ce, cdesc = ("", desc) if rng.random() < 0.35 else constrain(rng, desc)
        if i < len(corpus):
            desc, ce, cdesc = corpus[i]
        stats["requests"] += 1
        stats["constrained"] += bool(ce)
        stats["with_selection"] += "&" in ce
        r.count(("req", repr(cdesc)[:3000], ce))
        app = BaseHandler(G.build(desc, backend))
        try:
            bodies = {}
            env = {"pydap.buffer_size": rng.choice([1, 2, 3, 5, 7, 8, 13, 64])} if rng.random() < 0.4 else {}
            for ext in ("dds", "dods", "ascii", "das"):
                res = Request.blank("/.%s?%s" % (ext, ce), environ=dict(env)).get_response(app)
                if res.status_int != 200:
                    raise RuntimeError("%s: status %s %s" % (ext, res.status, res.body[:200]))
                bodies[ext] = res.body
            das0 = Request.blank("/.das").get_response(app).body
        except Exception as e:  # noqa
            direct.append({"law": "for a valid constraint every response kind completes without error", "ce": ce,
                           "dataset": repr(cdesc)[:1200], "error": repr(e)[:300]})
            continue
        dds_txt = bodies["dds"].decode("ascii")
        # 1. same DDS text at the head of the data and ASCII bodies
        if not bodies["dods"].startswith(bodies["dds"] + b"Data:\n"):
            direct.append({"law": "the data response starts with the DDS of the same request", "ce": ce, "dds": dds_txt[:600],
                           "dods_head": bodies["dods"][:len(bodies["dds"]) + 10].decode("latin-1")[:600]})
        sep = ("-" * 45 + "\n").encode()
        if not bodies["ascii"].startswith(bodies["dds"] + sep):
            direct.append({"law": "the ASCII response starts with the DDS of the same request", "ce": ce, "dds": dds_txt[:600],
                           "ascii_head": bodies["ascii"][:len(bodies["dds"]) + 50].decode("latin-1")[:600]})
            continue
        # 2. the data body is the reference encoding of the constrained dataset
        data = bodies["dods"][len(bodies["dds"]) + 6:]
        if data != X.enc(cdesc):
            direct.append({"law": "the data response carries the values of the constrained dataset", "ce": ce,
                           "dataset": repr(cdesc)[:1200]})
        # 3. DAS independent of the constraint
        if bodies["das"] != das0:
            direct.append({"law": "the DAS response is independent of the constraint", "ce": ce,
                           "with": bodies["das"].decode("latin-1")[:400], "without": das0.decode("latin-1")[:400]})
        # 4. ASCII: independent reader (arrays) + layout model (whole body)
        atext = bodies["ascii"][len(bodies["dds"]) + len(sep):].decode("ascii")
        arrays = {}
        for rec_ in read_ascii(atext):
            if rec_[0] == "arr":
                arrays[rec_[1]] = rec_[2]

        def check_arrays(d, prefix=""):
            vid = (prefix + "." + d[1]) if prefix else d[1]
            if d[0] == "base" and d[3]:
                want = list(zip(itertools.product(*[range(e) for e in d[3]]), [tok(d[2], v) for v in d[4]]))
                stats["arrays_checked"] += 1
                stats["values_checked"] += len(want)
                if 0 in d[3]:
                    return
                if arrays.get(vid) != want:
                    direct.append({"law": "the ASCII response prints every value of the data response, in order, next to its index",
                                   "ce": ce, "variable": vid, "printed": repr(arrays.get(vid))[:500], "expected": repr(want)[:500]})
            elif d[0] == "struct":
                for m in d[2]:
                    check_arrays(m, vid)
            elif d[0] == "grid":
                for m in (d[2],) + tuple(d[3]):
                    check_arrays(m, vid)
        for m in cdesc[2]:
            check_arrays(m)
        if flat_only(cdesc):
            cases.append("(%s, %s, %s)" % (ctext(dds_txt), clist(list(cdesc[2]), c_avar), ctext(bodies["ascii"].decode("ascii"))))
        else:
            stats["nested_sequences"] += 1

    try:
        bad = coq_eval_mismatches(PID, IMPORTS, "chk_ascii", cases, "string * list avar * string", shard=60, ztype=False)
    except RuntimeError as e:
        r.violation({"kind": "correspondence-broken", "error": str(e)[-1500:], "theorem": "C06 correspondence"}, found=False)
        bad = []
    r.extra["cases"] = {"ascii_bodies": len(cases)}
    r.extra["mismatches"] = {"ascii_bodies": len(bad)}
    r.extra["distribution"] = stats
    r.cov["rule"] = ("a case is (dataset of C01's domain: arrays of rank 0-3 of every DAP2 type incl. strings, structures, grids, flat and "
                     "nested sequences; constraint: none / projections with hyperslabs on arrays, structure members, grids, sequence column "
                     "subsets in any order, one relational selection); the four response kinds are fetched for the same query; "
                     "distinct = distinct (constrained dataset, query)")
    if cases:
        r.sample({"ascii_case": cases[0][:900]})
    seen = set()
    if known_nested:
        r.known_finding("a request for one column of an INNER sequence (?n.in.v) is not answered: the data response raises while the body "
                        "is produced and the ASCII response prints another column's values")
    for d in direct:
        if d["law"] in seen:
            continue
        seen.add(d["law"])
        r.violation(dict(d, kind="property-violated", how="four responses of one handler for one query string"), found=True)
    if not direct and bad:
        r.violation({"kind": "correspondence-broken", "theorem": "pydap ASCII body vs the Gallina layout model (props/C06.v)",
                     "case": cases[bad[0]][:3000], "n_mismatches": len(bad)}, found=False)
    r.assumptions = [
        "value tokens ('%.6g' / quoted string) come from a reference encoder in the harness; number formatting is outside the model",
        "source facts (tools/gen_facts.py) are syntactic: shape of each response's __iter__, the single dataset assignment in __call__",
        "nested sequences: prefix / data / DAS checks only (their ASCII layout is not modelled)",
        "numpy-backed sequences (lazy backends cannot describe empty sequences: known findings C04 / C15)",
    ]
    r.finish()


if __name__ == "__main__":
    import common
    common.run(main, PID)
