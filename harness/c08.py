"""C08 - attributes survive the DAS: served, parsed and re-attached unchanged.
Proof: props/C08.v (DAS parser inverts the DAS printer on every attribute tree; value lists; string values).
Correspondence: das() text vs the Gallina printer, parse_das() vs the Gallina parser (pydap-served and reference-rendered foreign
DAS), add_attributes() vs the Gallina placement model on generated (variable tree, attribute dict) pairs with opaque leaves.
Direct oracle: attributes seen by a real client (open_url on an in-process handler) vs the served ones, to six significant digits."""
import math
import random

from common import Report, clist, coq_eval_mismatches, proof_phase, use_repo
from c07 import cname, ctext, ref_quote

PID = "C08"
IMPORTS = "DASCases"

NAMES = ["units", "long_name", "valid_range", "a", "b", "cc", "scale_factor", "_FillValue", "title", "history", "k", "n", "x_y", "Z"]
VNAMES = ["x", "y", "lat", "lon", "t", "s", "q", "g", "u", "v", "w", "st", "sq", "m0"]
STRS = ["", "m", "m s-1", "a; b", "p, q", "{c}", "} x {", "degrees_north", " lead", "trail ", "semi;", "comma,", "x=1", "it's", "100%",
        "nan", "1.5", "Attributes {", "String s", "a\tb", "#hash", "(1,2)", "[3]", "é"[:0] + "e"]
NPKINDS = [("f4", "Float32"), ("f8", "Float64"), ("i2", "Int16"), ("u2", "UInt16"), ("i4", "Int32"), ("u4", "UInt32"), ("u1", "Byte")]


def gen_scalar(rng, kind):
    if kind == "str":
        return rng.choice(STRS)
    if kind == "int":
        return rng.choice([0, 1, -1, 7, 42, -300, 99999, 123456, -999999, rng.randint(-999999, 999999)])
    x = rng.choice([0.0, 1.0, -2.0, 0.5, 1.5, -273.15, 1e-3, 1.25e-7, 6.02e23, -1e10, 3.0e5, 123456.0, 1234567.0, 0.1, 1 / 3,
                    float("nan"), float("inf"), float("-inf"), rng.uniform(-1e4, 1e4), rng.uniform(-1, 1) * 10 ** rng.randint(-12, 12)])
    return x


def gen_value(rng, depth=0, allow_dict=True):
    k = rng.random()
    if allow_dict and depth < 2 and k < 0.12:
        d = {}
        for _ in range(rng.randint(1, 3)):
            d[rng.choice(NAMES) + rng.choice(["", "2"])] = gen_value(rng, depth + 1)
        return d
    kind = rng.choice(["str", "int", "float"])
    if k < 0.3:
        return [gen_scalar(rng, kind) for _ in range(rng.randint(2, 4))]
    if k < 0.38:
        import numpy as np
        dt, _ = rng.choice(NPKINDS)
        val = rng.choice([0, 1, 3, 100, 250]) if dt[0] != "f" else rng.choice([0.5, 1.25, -3.75, 2.0])
        if rng.random() < 0.5:
            return np.dtype(dt).type(val)
        return np.array([val, val], dtype=dt)
    return gen_scalar(rng, kind)


def gen_attrs(rng, lo=0, hi=4, forbidden=()):
    out = {}
    for _ in range(rng.randint(lo, hi)):
        n = rng.choice(NAMES)
        if n not in forbidden:
            out[n] = gen_value(rng)
    return out


def gen_var(rng, depth, used):
    import numpy as np
    from pydap.model import BaseType, GridType, SequenceType, StructureType
    name = rng.choice([v for v in VNAMES if v not in used] or ["v%d" % len(used)])
    used.add(name)
    k = rng.random()
    if depth <= 1 or k < 0.5:
        return BaseType(name, np.arange(3, dtype="i4"), attributes=gen_attrs(rng))
    if k < 0.7:
        st = StructureType(name, attributes=gen_attrs(rng, forbidden=VNAMES))
        u = set()
        for _ in range(rng.randint(0, 3)):
            c = gen_var(rng, depth - 1, u)
            st[c.name] = c
        return st
    if k < 0.85:
        sq = SequenceType(name, attributes=gen_attrs(rng, forbidden=VNAMES))
        cols = ["c%d" % j for j in range(rng.randint(1, 3))]
        for c in cols:
            sq[c] = BaseType(c, attributes=gen_attrs(rng, hi=2))
        sq.data = np.array([tuple(1 for _ in cols)], dtype=[(c, "i4") for c in cols])
        return sq
    g = GridType(name, attributes=gen_attrs(rng, forbidden=VNAMES))
    g[name] = BaseType(name, np.zeros((2,), dtype="f8"), dims=("gm",), attributes=gen_attrs(rng, hi=1))
    g["gm"] = BaseType("gm", np.arange(2.0))
    return g


# ---------------------------------------------------------------- reference encoding (independent of pydap.lib.encode / get_type)
def ref_tok(x):
    import numpy as np
    if isinstance(x, (str, np.str_)):
        return ("S", str(x))
    return ("N", "%.6g" % x)


def ref_leaf(v):
    """(type word, [tokens]) the DAS must show for a python attribute value"""
    import numpy as np
    if isinstance(v, np.ndarray):
        word = dict(NPKINDS)[v.dtype.str[1:]]
        return word, [ref_tok(x) for x in v]
    if isinstance(v, np.generic):
        return dict(NPKINDS)[v.dtype.str[1:]], [ref_tok(v)]
    vals = v if isinstance(v, list) else [v]
    kinds = ["String" if isinstance(x, str) else "Float64" if isinstance(x, float) else "Int32" for x in vals]
    word = "String" if "String" in kinds else "Float64" if "Float64" in kinds else "Int32"
    return word, [ref_tok(x) for x in vals]


def c_item(t):
    return "(IStr %s)" % cname(t[1]) if t[0] == "S" else "(INum %s)" % cname(t[1])


def c_aval(v):
    if isinstance(v, dict):
        return "(ADict %s)" % clist(list(v.items()), lambda kv: "(%s, %s)" % (cname(kv[0]), c_aval(kv[1])))
    word, toks = ref_leaf(v)
    return "(ALeaf %s %s)" % (cname(word), clist(toks, c_item))


def c_adict(d):
    return clist(list(d.items()), lambda kv: "(%s, %s)" % (cname(kv[0]), c_aval(kv[1])))


def c_vtree(var):
    from pydap.model import BaseType, GridType
    kind = "KBase" if isinstance(var, BaseType) else "KGrid" if isinstance(var, GridType) else "KStruct"
    return "(VNode %s %s %s %s)" % (kind, cname(var.name), c_adict(dict(var.attributes)), clist(list(var.children()), c_vtree))


def c_parsed(v):
    """Gallina term for what parse_das must return for the served value v: names quoted, tokens as printed"""
    if isinstance(v, dict):
        return "(ADict %s)" % clist(list(v.items()), lambda kv: "(%s, %s)" % (
            cname(kv[0] if isinstance(kv[1], dict) else ref_quote(kv[0])), c_parsed(kv[1])))
    return c_aval(v)


def served_das(ds):
    """the DAS as a nested python dict of (word, tokens) leaves, in printed order - from the dataset alone"""
    from pydap.model import BaseType, GridType

    def own(var):
        return {k: var.attributes[k] for k in sorted(var.attributes)}

    def rec(var):
        d = dict(own(var))
        if not isinstance(var, (BaseType, GridType)):
            for c in var.children():
                d[c.name] = rec(c)
        return d
    top = dict(own(ds))
    for c in ds.children():
        top[c.name] = rec(c)
    return top


def same_value(a, b):
    """served python value vs client python value: numbers to six significant digits, NaN = NaN, lists elementwise;
    a one-element list and its element are the same DAS; the numeric kind (int / float) must agree"""
    import numpy as np
    if isinstance(a, dict) or isinstance(b, dict):
        return isinstance(a, dict) and isinstance(b, dict) and list(a) == list(b) and all(same_value(a[k], b[k]) for k in a)
    la = list(a) if isinstance(a, (list, np.ndarray)) else [a]
    lb = list(b) if isinstance(b, list) else [b]
    if len(la) != len(lb):
        return False
    for x, y in zip(la, lb):
        if isinstance(x, (str, np.str_)):
            if not (isinstance(y, str) and str(x) == y):
                return False
            continue
        if isinstance(y, str) or isinstance(y, bool):
            return False
        xf = float(x)
        is_int = isinstance(x, (int, np.integer))
        # the type the DAS declares for the whole attribute decides int / float
        if math.isnan(xf):
            if not (isinstance(y, float) and math.isnan(y)):
                return False
        elif math.isinf(xf):
            if y != xf:
                return False
        else:
            want = float("%.6g" % xf)
            if float(y) != want:
                return False
    return True


def kind_ok(served, client):
    """value types: a String attribute comes back as str, an integer attribute as int, a floating one as float"""
    import numpy as np
    if isinstance(served, dict):
        return all(kind_ok(served[k], client[k]) for k in served if k in client) if isinstance(client, dict) else False
    word, _ = ref_leaf(served)
    lb = client if isinstance(client, list) else [client]
    for y in lb:
        if word == "String" and not isinstance(y, str):
            return False
        if word in ("Float32", "Float64") and not isinstance(y, float):
            return False
        if word in ("Int16", "UInt16", "Int32", "UInt32", "Byte") and not (isinstance(y, int) and not isinstance(y, bool)):
            # "%.6g" of an integer of more than 6 digits is a float token: outside the property's domain (ints of up to 6 digits)
            return False
    return True


# ---------------------------------------------------------------- placement cases with opaque leaves
def gen_skeleton(rng, depth, used):
    from pydap.model import BaseType, GridType, SequenceType, StructureType
    import numpy as np
    name = rng.choice([v for v in VNAMES if v not in used] or ["v%d" % len(used)])
    used.add(name)
    k = rng.random()
    if depth <= 1 or k < 0.5:
        return BaseType(name, np.arange(2))
    if k < 0.85:
        st = (StructureType if rng.random() < 0.6 else SequenceType)(name)
        u = set()
        for _ in range(rng.randint(0, 3)):
            c = gen_skeleton(rng, depth - 1, u)
            st[c.name] = c
        return st
    g = GridType(name)
    g[name] = BaseType(name, np.zeros((2,)), dims=("gm",))
    g["gm"] = BaseType("gm", np.arange(2.0))
    return g


def skeleton_paths(ds):
    from pydap.lib import walk
    return [v.id for v in walk(ds)][1:]


def gen_attr_dict(rng, ds, counter):
    """a parsed-DAS-like nested dict with unique integer leaves: nested and flat variable containers, leaves that collide
    with variable names, global containers, stray entries"""
    ids = skeleton_paths(ds)
    top = {}

    def leaf():
        counter[0] += 1
        return counter[0]

    def some_attrs(lo=0, hi=3, nested=True):
        d = {}
        for _ in range(rng.randint(lo, hi)):
            n = rng.choice(NAMES)
            d[n] = {rng.choice(NAMES): leaf()} if (nested and rng.random() < 0.15) else leaf()
        return d
    style = rng.choice(["nested", "nested", "flat", "mixed"])
    for vid in ids:
        if rng.random() < 0.15:
            continue
        parts = vid.split(".")
        flat = style == "flat" or (style == "mixed" and rng.random() < 0.5)
        if flat and len(parts) > 1:
            top.setdefault(vid, {}).update(some_attrs())
        else:
            d = top
            ok = True
            for p in parts:
                nxt = d.setdefault(p, {})
                if not isinstance(nxt, dict):
                    ok = False
                    break
                d = nxt
            if ok:
                d.update(some_attrs())
    # disturbances
    for _ in range(rng.randint(0, 3)):
        k = rng.random()
        if k < 0.3:
            top[rng.choice(["NC_GLOBAL", "DODS_EXTRA"])] = some_attrs(1, 3, nested=False)
        elif k < 0.5:
            top[rng.choice(NAMES)] = leaf()
        elif k < 0.65:
            top["stray_" + rng.choice(NAMES)] = some_attrs(1, 2)
        elif k < 0.75 and ids:
            top[rng.choice(ids).split(".")[0]] = leaf()          # a global leaf named like a variable
        elif k < 0.85 and ids:
            vid = rng.choice(ids)
            d = top
            for p in vid.split(".")[:-1]:
                d = d.setdefault(p, {}) if isinstance(d.get(p, {}), dict) else None
                if d is None:
                    break
            if d is not None:
                d[vid.split(".")[-1]] = leaf()                     # a leaf where a variable's container is expected
        elif k < 0.92:
            top[ds.name] = some_attrs(1, 2)
        else:
            top["NC_GLOBAL"] = leaf()
    # shuffle the top-level order
    keys = list(top)
    rng.shuffle(keys)
    return {k: top[k] for k in keys}


def c_opaque(v):
    if isinstance(v, dict):
        return "(ADict %s)" % clist(list(v.items()), lambda kv: "(%s, %s)" % (cname(kv[0]), c_opaque(kv[1])))
    return "(ALeaf %s [INum %s])" % (cname("Int32"), cname(str(v)))


def c_skel(var):
    from pydap.model import BaseType, GridType
    kind = "KBase" if isinstance(var, BaseType) else "KGrid" if isinstance(var, GridType) else "KStruct"
    return "(VNode %s %s [] %s)" % (kind, cname(var.name), clist(list(var.children()), c_skel))


def deep_copy_dict(d):
    return {k: deep_copy_dict(v) if isinstance(v, dict) else v for k, v in d.items()}


# ---------------------------------------------------------------- foreign-style DAS
def render_foreign(rng, d, lvl=1):
    out = ""
    ind = rng.choice(["    ", "  ", "\t", ""]) * lvl
    for k, v in d.items():
        if isinstance(v, dict):
            out += "%s%s%s{%s" % (ind, k, rng.choice([" ", "  ", "\t"]), rng.choice(["\n", "\r\n", " \n"]))
            out += render_foreign(rng, v, lvl + 1)
            out += "%s}%s" % (ind, rng.choice(["\n", "\n\n", " \n"]))
        else:
            word, toks = v
            w = word
            vals = rng.choice([", ", ",", ",  "]).join('"%s"' % t[1] if t[0] == "S" else t[1] for t in toks)
            out += "%s%s%s%s %s;%s" % (ind, w, rng.choice([" ", "  "]), k, vals, rng.choice(["\n", " \n", "\r\n"]))
    return out


def gen_foreign_dict(rng, depth=0):
    d = {}
    for _ in range(rng.randint(0 if depth else 1, 4)):
        n = rng.choice(NAMES + VNAMES + ["NC_GLOBAL", "s.y", "my%20attr", "a-b"])
        if depth < 3 and rng.random() < 0.35:
            d[n] = gen_foreign_dict(rng, depth + 1)
        else:
            word = rng.choice(["String", "Url", "Float32", "Float64", "Int16", "Int32", "UInt32", "Byte"])
            word = rng.choice([word, word, word.lower(), word.upper()])
            cnt = rng.choice([1, 1, 2, 3])
            if word.lower() in ("string", "url"):
                toks = [("S", rng.choice(STRS)) for _ in range(cnt)]
            elif word.lower().startswith("float"):
                toks = [("N", rng.choice(["1.5", "-0.25", "1e-05", "2", "nan", "inf", "-inf", "6.02e+23", "NaN", "3.", "-1.0"])) for _ in range(cnt)]
            else:
                toks = [("N", str(rng.choice([0, 1, -1, 255, 32767, -100000]))) for _ in range(cnt)]
            d[n] = (word, toks)
    return d


def c_foreign(d):
    def leaf(v):
        return "(ALeaf %s %s)" % (cname(v[0]), clist(v[1], c_item))
    return clist(list(d.items()), lambda kv: "(%s, %s)" % (cname(kv[0]), "(ADict %s)" % c_foreign(kv[1]) if isinstance(kv[1], dict) else leaf(kv[1])))


def foreign_value(v):
    import ast
    word, toks = v
    out = []
    for kind, t in toks:
        if word.lower() in ("string", "url"):
            out.append(t)
        elif t.lower() in ("nan", "-nan", "nan."):
            out.append(float("nan"))
        elif t.lower() in ("inf", "inf."):
            out.append(float("inf"))
        elif t.lower() in ("-inf", "-inf."):
            out.append(float("-inf"))
        else:
            x = ast.literal_eval(t)
            out.append(float(x) if word.lower().startswith("float") else x)
    return out[0] if len(out) == 1 else out


def foreign_expected(d):
    return {k: foreign_expected(v) if isinstance(v, dict) else foreign_value(v) for k, v in d.items()}


def py_equal(a, b):
    if isinstance(a, dict) or isinstance(b, dict):
        return isinstance(a, dict) and isinstance(b, dict) and list(a) == list(b) and all(py_equal(a[k], b[k]) for k in a)
    la = a if isinstance(a, list) else [a]
    lb = b if isinstance(b, list) else [b]
    if isinstance(a, list) != isinstance(b, list) or len(la) != len(lb):
        return False
    for x, y in zip(la, lb):
        if type(x) is not type(y):
            return False
        if isinstance(x, float) and math.isnan(x):
            if not math.isnan(y):
                return False
        elif x != y:
            return False
    return True


def main():
    r = Report(PID)
    rng = random.Random(r.seed)
    T = r.tier
    proof_phase(r, PID)
    use_repo()
    from pydap.client import open_url
    from pydap.handlers.lib import BaseHandler
    from pydap.lib import walk
    from pydap.model import DatasetType
    from pydap.parsers.das import add_attributes, parse_das
    from pydap.responses.das import das

    direct, print_cases, parse_cases, add_cases = [], [], [], []
    stats = {"datasets": 0, "attributes": 0, "nan_or_inf": 0, "lists": 0, "dicts": 0, "numpy": 0, "placement": 0,
             "placement_raises": 0, "foreign": 0}

    def count_vals(d):
        import numpy as np
        for v in d.values():
            stats["attributes"] += 1
            if isinstance(v, dict):
                stats["dicts"] += 1
                count_vals(v)
            elif isinstance(v, list):
                stats["lists"] += 1
            elif isinstance(v, (np.generic, np.ndarray)):
                stats["numpy"] += 1
            elif isinstance(v, float) and (math.isnan(v) or math.isinf(v)):
                stats["nan_or_inf"] += 1

    # ---- (1) served datasets: printer, parser, client
    n_ds = 120 if T == "quick" else 2000
    for i in range(n_ds):
        dsa = gen_attrs(rng, 0, 4, forbidden=VNAMES)
        if rng.random() < 0.3:
            dsa[rng.choice(["NC_GLOBAL", "DODS_EXTRA"])] = {n: gen_value(rng, 1, allow_dict=False) for n in rng.sample(NAMES, 2)}
        ds = DatasetType("d%d" % i, attributes=dsa)
        used = set()
        for _ in range(rng.randint(0, 4)):
            c = gen_var(rng, rng.randint(1, 3), used)
            ds[c.name] = c
        # two lists that are numerically equal but of different type (ints / integral floats) keep their own types
        if rng.random() < 0.35:
            twins = [[0, 7], [0.0, 7.0]] if rng.random() < 0.5 else [[-999.0, 999.0, 5.0], [-999, 999, 5]]
            holders = [v for v in walk(ds) if not ("." in v.id and type(ds[v.id.rsplit(".", 1)[0]]).__name__ == "GridType")]
            for lst in twins:
                rng.choice(holders).attributes["twin_%s" % type(lst[0]).__name__] = list(lst)
        stats["datasets"] += 1
        for v in walk(ds):
            count_vals(v.attributes)
        r.count(("dataset", i, repr(served_das(ds))))
        try:
            text = "".join(das(ds))
        except Exception as e:  # noqa
            direct.append({"law": "a dataset with DAS-safe attributes can be served as a DAS", "attributes": repr(served_das(ds))[:1500],
                           "error": repr(e)[:200]})
            continue
        print_cases.append("(%s, %s, %s)" % (c_adict(dict(ds.attributes)), clist(list(ds.children()), c_vtree), ctext(text)))
        served = served_das(ds)
        parse_cases.append("(%s, Some %s)" % (ctext(text), clist(list(served.items()), lambda kv: "(%s, %s)" % (
            cname(kv[0] if isinstance(kv[1], dict) else ref_quote(kv[0])), c_parsed(kv[1])))))
        # the real client
        try:
            cl = open_url("http://localhost:8001/", application=BaseHandler(ds))
            if rng.random() < 0.5:
                # the same dataset (the same DAS text) opened once more in this process: it gets its attributes again
                cl = open_url("http://localhost:8001/", application=BaseHandler(ds))
                stats["opened_twice"] = stats.get("opened_twice", 0) + 1
        except Exception as e:  # noqa
            direct.append({"law": "a client can open a dataset whose attributes are DAS-safe", "das": text, "error": repr(e)[:300]})
            continue
        problems = []
        for v in walk(ds):
            if v is ds:
                continue
            parent_is_grid = "." in v.id and type(ds[v.id.rsplit(".", 1)[0]]).__name__ == "GridType"
            if parent_is_grid:
                continue
            got = dict(cl[v.id].attributes)
            want = {k: v.attributes[k] for k in sorted(v.attributes)}
            if set(got) != set(want):
                problems.append((v.id, "names", sorted(got), sorted(want)))
                continue
            for k in want:
                if not same_value(want[k], got[k]) or not kind_ok(want[k], got[k]):
                    problems.append((v.id, k, repr(want[k]), repr(got[k])))
        gwant = {}
        for k in sorted(ds.attributes):
            v = ds.attributes[k]
            if k in ("NC_GLOBAL", "DODS_EXTRA") and isinstance(v, dict):
                continue
            gwant[k] = v
        for k in ds.attributes:          # global containers are flattened, in the order the DAS lists them
            if k in ("NC_GLOBAL", "DODS_EXTRA") and isinstance(ds.attributes[k], dict):
                pass
        flat = {}
        for k in sorted(ds.attributes):
            v = ds.attributes[k]
            if k in ("NC_GLOBAL", "DODS_EXTRA") and isinstance(v, dict):
                flat.update(v)
        gwant = {**flat, **gwant} if not (set(flat) & set(gwant)) else None
        if gwant is not None:
            got = dict(cl.attributes)
            if set(got) != set(gwant):
                problems.append(("<dataset>", "names", sorted(got), sorted(gwant)))
            else:
                for k in gwant:
                    if not same_value(gwant[k], got[k]) or not kind_ok(gwant[k], got[k]):
                        problems.append(("<dataset>", k, repr(gwant[k]), repr(got[k])))
        # the same dataset opened with a projection in the URL (the DAS still describes the whole dataset): the global attributes,
        # nested ones included, are all there, and the projected variable carries its own
        kids_ = list(ds.children())
        if gwant is not None and kids_ and rng.random() < 0.5:
            pv = rng.choice(kids_)
            stats["opened_with_projection"] = stats.get("opened_with_projection", 0) + 1
            try:
                cl2 = open_url("http://localhost:8001/?" + pv.name, application=BaseHandler(ds))
                got2 = dict(cl2.attributes)
                for k in gwant:
                    if k not in got2:
                        problems.append(("<dataset opened with ?%s>" % pv.name, "global attribute missing", k, sorted(got2)))
                    elif not same_value(gwant[k], got2[k]) or not kind_ok(gwant[k], got2[k]):
                        problems.append(("<dataset opened with ?%s>" % pv.name, k, repr(gwant[k]), repr(got2[k])))
                if type(pv).__name__ != "GridType":
                    gotv = dict(cl2[pv.name].attributes)
                    for k in pv.attributes:
                        if k not in gotv or not same_value(pv.attributes[k], gotv[k]):
                            problems.append((pv.id + " (opened with a projection)", k, repr(pv.attributes[k]), repr(gotv.get(k))))
            except Exception as e:  # noqa
                problems.append(("<dataset opened with ?%s>" % pv.name, "cannot be opened", repr(e)[:200], ""))
        # one long-lived application: a DAS is served, an attribute is edited in place, the DAS is served again - it describes the
        # dataset as it is now (what a fresh application answers)
        if kids_ and (i < 5 or rng.random() < 0.4):
            from webob import Request as _Rq
            stats["das_after_edit"] = stats.get("das_after_edit", 0) + 1
            app0 = BaseHandler(ds)
            tgt = kids_[0]
            try:
                _Rq.blank("/.das").get_response(app0).body
                tgt.attributes["zz_edit"] = 7
                now_ = _Rq.blank("/.das?" + tgt.name).get_response(app0).body
                fresh_ = _Rq.blank("/.das").get_response(BaseHandler(ds)).body
                if now_ != fresh_:
                    problems.append(("<DAS of a long-lived application>", "after an attribute of %s was set" % tgt.id,
                                     now_.decode("latin-1")[:300], fresh_.decode("latin-1")[:300]))
            except Exception as e:  # noqa
                problems.append(("<DAS of a long-lived application>", "raised", repr(e)[:200], ""))
            finally:
                tgt.attributes.pop("zz_edit", None)
        if problems:
            direct.append({"law": "attributes served as a DAS are found by the client on the same variables with the same names, nesting, "
                                  "value types and values (six significant digits; NaN / infinities preserved)",
                           "das": text, "differences": [list(map(str, p)) for p in problems[:6]]})

    # ---- (2) placement: add_attributes on (skeleton, dict) pairs with opaque leaves
    n_pl = 250 if T == "quick" else 4000
    counter = [0]
    for i in range(n_pl):
        ds = DatasetType(rng.choice(["d", "ds1", "x"]))
        used = set()
        for _ in range(rng.randint(0, 4)):
            c = gen_skeleton(rng, rng.randint(1, 3), used)
            ds[c.name] = c
        attrs = gen_attr_dict(rng, ds, counter)
        stats["placement"] += 1
        r.count(("placement", repr(attrs), repr(skeleton_paths(ds))))
        skel = clist(list(ds.children()), c_skel)
        c_in = c_opaque(attrs)[len("(ADict "):-1]
        try:
            add_attributes(ds, deep_copy_dict(attrs))
            res = "(Some (%s, %s))" % (c_opaque(dict(ds.attributes))[len("(ADict "):-1],
                                       clist([v for v in walk(ds)][1:], lambda v: "(%s, %s)" % (
                                           clist(v.id.split("."), ctext), c_opaque(dict(v.attributes))[len("(ADict "):-1])))
        except Exception:  # noqa
            res = "None"
            stats["placement_raises"] += 1
        add_cases.append("(%s, %s, %s, %s)" % (ctext(ds.name), skel, c_in, res))

    # ---- (3) foreign-style DAS
    n_f = 120 if T == "quick" else 2000
    for i in range(n_f):
        d = gen_foreign_dict(rng)
        text = rng.choice(["Attributes {\n", "attributes {\n", "ATTRIBUTES  {\r\n", "Attributes{"]) + render_foreign(rng, d) + "}\n"
        stats["foreign"] += 1
        r.count(("foreign", text))
        try:
            got = parse_das(text)
        except Exception as e:  # noqa
            direct.append({"law": "a DAS in the style of other servers parses to the attributes it lists", "das": text, "error": repr(e)[:200]})
            parse_cases.append("(%s, None)" % ctext(text))
            continue
        parse_cases.append("(%s, Some %s)" % (ctext(text), c_foreign(d)))
        want = foreign_expected(d)
        if not py_equal(want, got):
            direct.append({"law": "a DAS in the style of other servers parses to the attributes it lists", "das": text,
                           "parsed": repr(got)[:1200], "listed": repr(want)[:1200]})

    bad = {}
    for label, checker, cases, ctype in (
            ("printer", "chk_das_print", print_cases, "adict * list vtree * string"),
            ("parser", "chk_das_parse", parse_cases, "string * option adict"),
            ("placement", "chk_add", add_cases, "string * list vtree * adict * option (adict * list (list string * adict))")):
        try:
            bad[label] = coq_eval_mismatches(PID + "_" + label, IMPORTS, checker, cases, ctype, shard=100, ztype=False)
        except RuntimeError as e:
            r.violation({"kind": "correspondence-broken", "error": str(e)[-1500:], "theorem": "C08 correspondence (%s)" % label}, found=False)
            bad[label] = []
    r.extra["cases"] = {"printer": len(print_cases), "parser": len(parse_cases), "placement": len(add_cases)}
    r.extra["mismatches"] = {k: len(v) for k, v in bad.items()}
    r.extra["distribution"] = stats
    r.cov["rule"] = ("(a) datasets with Base / Structure / Sequence / Grid members (depth <= 3) whose attribute maps draw from strings "
                     "(empty, blanks, ; , { }, no double quote / backslash), ints of up to 6 digits, floats incl. integral values and "
                     "extreme exponents, NaN, +-inf, homogeneous lists, numpy scalars / arrays, nested dicts, NC_GLOBAL / DODS_EXTRA; served, "
                     "parsed, attached by a real client; (b) (variable tree, attribute dict) pairs for add_attributes: nested / flat / mixed "
                     "containers, leaves colliding with variable names, global containers, stray entries, shuffled order; (c) reference-rendered "
                     "foreign DAS (type word case, Url, spacing, CRLF); distinct = distinct tuple")
    if print_cases:
        r.sample({"printer_case": print_cases[0][:700]})
    if add_cases:
        r.sample({"placement_case": add_cases[0][:700]})
    seen = set()
    for d in direct:
        if d["law"] in seen:
            continue
        seen.add(d["law"])
        r.violation(dict(d, kind="property-violated", how="real client / pydap parser against the served or listed attributes"), found=True)
    if not direct:
        for label, cases in (("printer", print_cases), ("parser", parse_cases), ("placement", add_cases)):
            if bad.get(label):
                r.violation({"kind": "correspondence-broken", "theorem": "pydap DAS %s vs the Gallina model (props/C08.v)" % label,
                             "case": cases[bad[label][0]][:3000], "n_mismatches": len(bad[label])}, found=False)
    r.assumptions = [
        "numbers are modelled as DAS tokens: '%.6g' formatting and ast.literal_eval are outside the Gallina model (checked by the oracle)",
        "C08_placement covers served DAS without NC_GLOBAL / DODS_EXTRA containers; flattening and foreign layouts are compared only",
        "attribute names are identifiers (names needing quoting come back in quoted form, like variable names)",
        "ASCII texts; Grid members' own attributes are not served by the DAS (excluded by the property)",
    ]
    r.finish()


if __name__ == "__main__":
    import common
    common.run(main, PID)
