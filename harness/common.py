"""Shared machinery for the /verif checks.

Every check (harness/cXX.py) does, in this order:
  1. lint the Coq sources (no axioms / admits / disabled checks),
  2. full `make` of the Coq development (under a file lock), then re-compile
     props/<id>.v to capture its `Print Assumptions` output,
  3. correspondence: run the real pydap code (from $VERIF_REPO/src) and the Gallina
     model (vm_compute inside coqc) on the same generated inputs and compare,
  4. decide: VIOLATION (with a concrete replay when one is found), KNOWN-FINDING, or ok,
  5. write evidence/<id>.json.
"""
import fcntl
import hashlib
import json
import os
import random
import re
import shutil
import subprocess
import sys
import time

VERIF = os.path.dirname(os.path.dirname(os.path.abspath(__file__)))
REPO = os.environ.get("VERIF_REPO", "/repo")
COQ = os.path.join(VERIF, "coq")
SCRATCH = os.path.join(VERIF, ".scratch")
NPROC = int(os.environ.get("VERIF_JOBS", "16"))

FORBIDDEN = re.compile(
    r"\b(Admitted|admit|Axiom|Axioms|Parameter|Parameters|Conjecture|Conjectures|"
    r"Admit Obligations|bypass_check|native_compute)\b|Unset\s+Guard|Unset\s+Positivity|"
    r"Unset\s+Universe\s+Checking|type-in-type|impredicative-set"
)
TOPLEVEL_VAR = re.compile(r"^\s*(Variable|Variables|Hypothesis|Hypotheses|Context)\b")


def use_repo():
    """Make `import pydap` resolve to $VERIF_REPO/src, and verify that it did."""
    src = os.path.join(REPO, "src")
    if sys.path[:1] != [src]:
        sys.path.insert(0, src)
    os.environ.setdefault("PYTHONHASHSEED", "0")
    import warnings

    warnings.filterwarnings("ignore")
    import pydap

    got = os.path.realpath(os.path.dirname(pydap.__file__))
    want = os.path.realpath(os.path.join(src, "pydap"))
    if got != want:
        raise RuntimeError("pydap imported from %s, expected %s" % (got, want))
    return pydap


def seed():
    try:
        return int(os.environ.get("VERIF_SEED", "0"))
    except ValueError:
        return 0


def tier(argv=None):
    t = os.environ.get("VERIF_TIER", "")
    argv = sys.argv if argv is None else argv
    if "--tier" in argv:
        t = argv[argv.index("--tier") + 1]
    return t if t in ("quick", "thorough") else "quick"


# --------------------------------------------------------------------------- Coq
def lint_coq():
    """Reject axioms, admits and disabled kernel checks anywhere in the development."""
    bad = []
    for root, _dirs, files in os.walk(COQ):
        if "/cases" in root:
            continue
        for f in files:
            if not f.endswith(".v"):
                continue
            p = os.path.join(root, f)
            depth = 0
            txt = open(p).read()
            txt_nc = re.sub(r"\(\*.*?\*\)", lambda m: "\n" * m.group().count("\n"), txt, flags=re.S)
            for n, line in enumerate(txt_nc.split("\n"), 1):
                if re.match(r"^\s*Section\b", line):
                    depth += 1
                elif re.match(r"^\s*End\b", line) and depth > 0:
                    depth -= 1
                if FORBIDDEN.search(line):
                    bad.append("%s:%d: %s" % (p, n, line.strip()))
                if depth == 0 and TOPLEVEL_VAR.match(line):
                    bad.append("%s:%d: section-less %s" % (p, n, line.strip()))
    for f in ("_CoqProject",):
        t = open(os.path.join(COQ, f)).read()
        if FORBIDDEN.search(t):
            bad.append("_CoqProject has a forbidden flag")
    return bad


class CoqLock:
    """exclusive, re-entrant (within the process) lock around everything that touches coq/*.vo"""
    depth = 0
    handle = None

    def __enter__(self):
        if CoqLock.depth == 0:
            os.makedirs(SCRATCH, exist_ok=True)
            CoqLock.handle = open(os.path.join(SCRATCH, "coq.lock"), "w")
            fcntl.flock(CoqLock.handle, fcntl.LOCK_EX)
        CoqLock.depth += 1
        return self

    def __exit__(self, *a):
        CoqLock.depth -= 1
        if CoqLock.depth == 0:
            fcntl.flock(CoqLock.handle, fcntl.LOCK_UN)
            CoqLock.handle.close()


def _run(cmd, cwd=None, timeout=1800, env=None):
    e = dict(os.environ)
    if env:
        e.update(env)
    try:
        p = subprocess.run(cmd, cwd=cwd, stdout=subprocess.PIPE, stderr=subprocess.STDOUT,
                           timeout=timeout, env=e, shell=isinstance(cmd, str))
        out = p.stdout.decode("utf-8", "replace")
        rc = p.returncode
    except subprocess.TimeoutExpired as ex:
        out = (ex.stdout or b"").decode("utf-8", "replace") + "\nTIMEOUT"
        rc = 124
    out = "\n".join(l for l in out.split("\n") if "conda.cli.condarc" not in l)
    return rc, out


MAKE_CMD = "cd %s && coq_makefile -f _CoqProject.build -o Makefile && timeout 1500 make -j%d" % (COQ, NPROC)


def coq_build():
    """Full .vo build (incremental through make).  Returns (ok, log)."""
    with CoqLock():
        # structural facts are re-extracted from the source on every run (fail-closed translator)
        rc, out0 = _run([sys.executable, os.path.join(VERIF, "tools", "gen_facts.py")], timeout=120,
                        env={"VERIF_REPO": REPO})
        if rc != 0:
            return False, "gen_facts failed:\n" + out0
        # model and proofs of the whole development are built here; the statement file props/<id>.v of the property under check is
        # compiled by coq_props.  (A premise of another property's statements that the source no longer satisfies - a regenerated
        # fact, say - must not fail the check of THIS property.)
        lines = [ln for ln in open(os.path.join(COQ, "_CoqProject")).read().split("\n") if not ln.strip().startswith("props/")]
        with open(os.path.join(COQ, "_CoqProject.build"), "w") as f:
            f.write("\n".join(lines) + "\n")
        rc, out = _run("coq_makefile -f _CoqProject.build -o Makefile", cwd=COQ, timeout=120)
        if rc != 0:
            return False, out
        rc, out2 = _run("timeout 1500 make -j%d" % NPROC, cwd=COQ, timeout=1600)
        return rc == 0, out + out2


def coq_props(pid):
    """Re-compile props/<pid>.v, return (ok, theorems, assumptions-per-theorem, log)."""
    path = os.path.join(COQ, "props", pid + ".v")
    with CoqLock():
        rc, out = _run(["coqc", "-Q", ".", "PydapV", "props/%s.v" % pid], cwd=COQ, timeout=900)
    src = open(path).read()
    src_nc = re.sub(r"\(\*.*?\*\)", "", src, flags=re.S)
    theorems = re.findall(r"^\s*Theorem\s+(\w+)", src_nc, flags=re.M)
    examples = re.findall(r"^\s*Example\s+(\w+)", src_nc, flags=re.M)
    printed = re.findall(r"^\s*Print Assumptions\s+(\w+)", src_nc, flags=re.M)
    # split the output into one block per Print Assumptions, in order
    blocks = re.split(r"(?m)^(?=Closed under the global context|Axioms:)", out)
    blocks = [b.strip() for b in blocks if b.strip().startswith(("Closed", "Axioms:"))]
    assum = {}
    for name, blk in zip(printed, blocks):
        assum[name] = blk
    ok = rc == 0 and len(blocks) == len(printed) and all(t in printed for t in theorems)
    return ok, theorems, examples, assum, out


ALLOWED_AXIOMS = (
    # standard-library axioms that may legitimately appear (named in the trusted base when they do)
    "functional_extensionality_dep", "proof_irrelevance", "classic", "Eqdep.Eq_rect_eq.eq_rect_eq",
    "JMeq_eq", "propositional_extensionality",
)


def axioms_ok(assum):
    bad = []
    for name, blk in assum.items():
        if blk.startswith("Closed under the global context"):
            continue
        for line in blk.split("\n")[1:]:
            m = re.match(r"^(\S+)\s*:", line)
            if m and not any(m.group(1).endswith(a.split(".")[-1]) for a in ALLOWED_AXIOMS):
                bad.append("%s depends on %s" % (name, m.group(1)))
    return bad


# --- Coq literal emission
def cz(n):
    return "(%d)" % n if n < 0 else str(n)


def cstr(s):
    """Coq string literal for a str/bytes of printable 7-bit characters; other bytes
    via explicit String (ascii_of_nat ..)."""
    if isinstance(s, bytes):
        s = s.decode("latin-1")
    if all(32 <= ord(c) < 127 for c in s):
        return '"%s"%%string' % s.replace('"', '""')
    return "(l2s [%s])" % ";".join("ascii_of_nat %d" % ord(c) for c in s)


def cbytes(b):
    """list N literal for bytes"""
    return "[%s]%%N" % ";".join(str(x) for x in b)


def copt(x, f=cz):
    return "None" if x is None else "(Some %s)" % f(x)


def clist(xs, f=cz):
    return "[%s]" % "; ".join(f(x) for x in xs)


def cbool(b):
    return "true" if b else "false"


def coq_eval_mismatches(pid, imports, checker, cases, ctype, shard=400, timeout=900, ztype=True, max_bytes=1200000):
    """cases: list of Coq terms (strings), each of the input type of `checker`
    (a Gallina function `case -> bool`).  Returns the indices i with checker(case_i) = false,
    or raises RuntimeError when coqc itself fails."""
    d = os.path.join(SCRATCH, "cases_%s_%d" % (pid, os.getpid()))
    shutil.rmtree(d, ignore_errors=True)
    os.makedirs(d)
    files = []
    # a shard closes at `shard` cases or at max_bytes of literal text, whichever comes first: coqc's memory grows
    # with the size of the literal (several GB for a multi-MB file), and NPROC of them run side by side
    groups, cur, size = [], [], 0
    for i, c in enumerate(cases):
        if cur and (len(cur) >= shard or size + len(c) > max_bytes):
            groups.append(cur)
            cur, size = [], 0
        cur.append((i, c))
        size += len(c)
    if cur:
        groups.append(cur)
    for gi, grp in enumerate(groups):
        fn = os.path.join(d, "s%05d.v" % gi)
        with open(fn, "w") as f:
            f.write("From PydapV Require Import %s.\n" % imports)
            f.write("Local Open Scope Z_scope.\n" if ztype else "")
            f.write("Definition cases : list (N * (%s)) := [\n" % ctype)
            f.write(";\n".join("(%d%%N, %s)" % (i, c) for i, c in grp))
            f.write("\n].\n")
            f.write("Eval vm_compute in (map fst (filter (fun p => negb (%s (snd p))) cases)).\n" % checker)
        files.append(fn)
    bad = []
    if not files:
        return bad
    listing = os.path.join(d, "files.txt")
    open(listing, "w").write("\n".join(files) + "\n")
    cmd = ("cat %s | xargs -P %d -I{} sh -c 'ulimit -s unlimited 2>/dev/null; "
           "timeout %d coqc -noglob -Q %s PydapV {} > {}.out 2>&1 || echo FAIL {} >> %s/fail.txt'"
           % (listing, NPROC, timeout, COQ, d))
    _run(cmd, timeout=timeout * (1 + len(files) // NPROC) + 60)
    if os.path.exists(os.path.join(d, "fail.txt")):
        failed = open(os.path.join(d, "fail.txt")).read().split()[1::2]
        msg = open(failed[0] + ".out").read()[-2000:]
        raise RuntimeError("coqc failed on %s:\n%s" % (failed[0], msg))
    for fn in files:
        out = open(fn + ".out").read()
        m = re.search(r"=\s*\[(.*?)\]\s*:\s*list N", out, flags=re.S)
        if not m:
            m2 = re.search(r"=\s*nil\s*:\s*list N", out)
            if m2:
                continue
            raise RuntimeError("cannot parse coqc output of %s:\n%s" % (fn, out[-1000:]))
        body = m.group(1).replace("%N", "")
        bad.extend(int(x) for x in re.findall(r"\d+", body))
    shutil.rmtree(d, ignore_errors=True)
    return sorted(bad)


def coq_show(imports, term, timeout=120):
    """Evaluate one term with vm_compute and return Coq's printed text (for replay files)."""
    os.makedirs(SCRATCH, exist_ok=True)
    fn = os.path.join(SCRATCH, "show_%d_%d.v" % (os.getpid(), random.randrange(1 << 30)))
    open(fn, "w").write("From PydapV Require Import %s.\nLocal Open Scope Z_scope.\nEval vm_compute in (%s).\n"
                        % (imports, term))
    rc, out = _run(["coqc", "-Q", COQ, "PydapV", fn], timeout=timeout)
    for ext in ("", "o", "ok", "os", ".glob"):
        pass
    base = fn[:-2]
    for e in (".v", ".vo", ".vok", ".vos", ".glob"):
        try:
            os.remove(base + e)
        except OSError:
            pass
    try:
        os.remove(os.path.join(os.path.dirname(fn), "." + os.path.basename(base) + ".aux"))
    except OSError:
        pass
    return out.strip()


# ------------------------------------------------------------------- reporting
def known_findings(pid):
    p = os.path.join(VERIF, "known_findings.json")
    if not os.path.exists(p):
        return []
    return [e for e in json.load(open(p)) if e.get("property") == pid]


def write_replay(pid, payload):
    os.makedirs(os.path.join(VERIF, "replays"), exist_ok=True)
    blob = json.dumps(payload, sort_keys=True, default=repr, indent=1)
    h = hashlib.sha1(blob.encode()).hexdigest()[:10]
    path = os.path.join(VERIF, "replays", "%s-%s.json" % (pid, h))
    open(path, "w").write(blob + "\n")
    return path


class Report:
    """Collects the outcome of one check run and writes evidence + the VIOLATION lines."""

    def __init__(self, pid):
        self.pid = pid
        self.t0 = time.time()
        self.tier = tier()
        self.seed = seed()
        self.violations = []          # (replay_path, found_input: bool)
        self.known = []
        self.cov = {"evaluations": 0, "distinct_nontrivial": 0, "samples": [], "rule": ""}
        self.assumptions = []
        self.obligations = 0
        self.discharged = 0
        self.trusted = []
        self.extra = {}
        self._seen = set()

    # -- counting
    def count(self, case, nontrivial=True):
        self.cov["evaluations"] += 1
        if nontrivial:
            h = hashlib.sha1(repr(case).encode()).digest()[:8]
            if h not in self._seen:
                self._seen.add(h)
                self.cov["distinct_nontrivial"] += 1

    def sample(self, case, limit=6):
        if len(self.cov["samples"]) < limit:
            self.cov["samples"].append(case)

    # -- outcomes
    def violation(self, payload, found=True):
        payload = dict(payload)
        payload["property"] = self.pid
        payload["repo"] = REPO
        payload["failing_input_found"] = bool(found)
        path = write_replay(self.pid, payload)
        self.violations.append((path, found))

    def known_finding(self, what):
        self.known.append(what)

    def finish(self):
        wall = time.time() - self.t0
        cov = dict(self.cov)
        cov["obligations"] = self.obligations
        cov["discharged"] = self.discharged
        cov["checker_cmd"] = MAKE_CMD + " && coqc -Q . PydapV props/%s.v" % self.pid
        cov["trusted_base"] = self.trusted
        cov.update(self.extra)
        ev = {
            "property_id": self.pid, "tier": self.tier, "seed": self.seed, "level": "proof",
            "coverage": cov, "assumptions": self.assumptions, "wall_s": round(wall, 2),
            "violations": len(self.violations), "known_findings": self.known,
            "repo": REPO,
        }
        evdir = os.environ.get("VERIF_EVIDENCE_DIR") or os.path.join(VERIF, "evidence")
        os.makedirs(evdir, exist_ok=True)
        with open(os.path.join(evdir, self.pid + ".json"), "w") as f:
            json.dump(ev, f, indent=1, default=repr)
            f.write("\n")
        for k in self.known:
            print("KNOWN-FINDING: property=%s %s" % (self.pid, k))
        # a broken proof / correspondence is reported through the concrete failing input when the search found one
        shown = [v for v in self.violations if v[1]] or self.violations
        for path, found in shown[:5]:
            print("VIOLATION property=%s replay=%s%s" % (self.pid, path, "" if found else " no-failing-input-found"))
        sys.stdout.flush()
        if self.violations:
            sys.exit(1)
        print("OK property=%s tier=%s evaluations=%d obligations=%d/%d wall=%.1fs"
              % (self.pid, self.tier, cov["evaluations"], self.discharged, self.obligations, wall))
        sys.exit(0)


BASE_TRUST = [
    "Coq 8.16.1 kernel and coqc (vm_compute used for finite sweeps inside proofs and to run the model on "
    "correspondence cases; native_compute is not used)",
    "hand-written Gallina model tied to the source by the correspondence check of this run "
    "(harness generators, canonicalisation and Coq-literal emission are trusted)",
    "CPython 3.12 / numpy as installed in /venv (little-endian x86-64)",
]


def proof_phase(rep, pid):
    """Steps 1-2 shared by every check.  Returns True when all obligations are discharged."""
    with CoqLock():
        return _proof_phase(rep, pid)


def _proof_phase(rep, pid):
    bad = lint_coq()
    if bad:
        rep.violation({"kind": "lint", "what": "forbidden construct in the Coq development", "where": bad[:20],
                       "theorem": "all"}, found=False)
        return False
    ok, log = coq_build()
    if not ok:
        tail = log[-3000:]
        m = re.search(r'File "\./([^"]+)", line (\d+)', log)
        rep.violation({"kind": "proof-broken", "what": "Coq build failed", "file": m.group(1) if m else None,
                       "theorem": "see log", "log_tail": tail}, found=False)
        return False
    ok, theorems, examples, assum, out = coq_props(pid)
    rep.obligations = len(theorems)
    if not ok:
        rep.violation({"kind": "proof-broken", "what": "props/%s.v does not check" % pid, "log_tail": out[-3000:],
                       "theorem": theorems}, found=False)
        return False
    badax = axioms_ok(assum)
    if badax:
        rep.violation({"kind": "axioms", "what": badax, "theorem": list(assum)}, found=False)
        return False
    rep.discharged = len([t for t in theorems if t in assum])
    rep.extra["theorems"] = theorems
    rep.extra["nonvacuity_examples"] = examples
    rep.extra["print_assumptions"] = {k: v.split("\n")[0] if v.startswith("Closed") else v for k, v in assum.items()}
    rep.trusted = list(BASE_TRUST)
    axs = sorted({l.split(":")[0].strip() for v in assum.values() if not v.startswith("Closed")
                  for l in v.split("\n")[1:] if ":" in l})
    rep.trusted.append("axioms reported by Print Assumptions: " + (", ".join(axs) if axs else "none (all theorems closed under the global context)"))
    return True


def run(main, pid):
    """Entry point of every check: an exception escaping the harness (typically raised by the implementation in a place
    the harness did not anticipate) is reported as a violation with the traceback as replay, never as a bare crash."""
    import traceback
    try:
        main()
    except SystemExit:
        raise
    except BaseException:  # noqa
        tb = traceback.format_exc()
        path = write_replay(pid, {"property": pid, "kind": "exception-during-check", "repo": REPO,
                                  "theorem": "correspondence run of %s (aborted by an exception)" % pid,
                                  "traceback": tb[-4000:], "failing_input_found": False})
        print("VIOLATION property=%s replay=%s no-failing-input-found" % (pid, path))
        sys.stdout.flush()
        sys.exit(1)
