"""C19 - server-side functions compute what they name and are transparent otherwise.
Proof: props/C19.v (the proxy's call text is read back as the same call tree; top-level comma tokenizer; requests without calls are
not intercepted; mean() axis bookkeeping; bounds() record filter).
Correspondence: call ids built by the client proxies vs the Gallina printer; call trees the server evaluates (spy functions) vs the
Gallina parser; interception of requests vs the Gallina detector; bounds() rows vs the Gallina filter; mean() dims vs drop_index.
Direct oracle: byte-identical responses with and without the middleware for function-free requests (valid and malformed);
mean() against exact rational means, shapes, dims and maps; bounds() against a reference filter (numpy and lazy sequences);
proxy results against raw requests."""
import os
import random
import shutil
from fractions import Fraction

from common import Report, clist, coq_eval_mismatches, proof_phase, use_repo
from c07 import ctext

PID = "C19"
SC = 10 ** 6        # float cells are multiples of 1e-6: the model compares them as integers

IMPORTS = "CallsCases"


def c_cexp(t):
    if isinstance(t, tuple):
        return "(C %s %s)" % (ctext(t[0]), clist(list(t[1]), c_cexp))
    return "(L %s)" % ctext(t)


def text_of(t):
    if isinstance(t, tuple):
        return "%s(%s)" % (t[0], ",".join(text_of(a) for a in t[1]))
    return t


def build(rng, lazy, corpus=None):
    import numpy as np
    from pydap.handlers.lib import IterData
    from pydap.model import BaseType, DatasetType, GridType, SequenceType, StructureType
    ds = DatasetType("d")
    arrays = {}
    # a Grid whose maps are named like top-level arrays declared after it: a function argument names the variable with that id,
    # not some other variable with the same short name
    clash = rng.random() < 0.5
    grank = rng.randint(1, 3)
    gshape = tuple(rng.randint(1, 4) for _ in range(grank))
    gd = tuple((["x", "f", "w"][k] if clash else "m%d" % k) for k in range(grank))

    def add_grid():
        g = GridType("g")
        ga_ = (np.arange(int(np.prod(gshape))) * 1.5 - 2).reshape(gshape)
        g["a"] = BaseType("a", ga_, dims=gd)
        maps_ = {}
        for k, n in enumerate(gshape):
            maps_[gd[k]] = np.arange(n) * (k + 1.0) + 100
            g[gd[k]] = BaseType(gd[k], maps_[gd[k]])
        ds["g"] = g
        return ga_, maps_
    if clash:
        ga, maps = add_grid()
    # (names that are not plain identifiers are variable names, too: a hyphen, a leading digit, a blank - quoted in ids)
    odd = rng.choice(["t-2m", "2m_temp", "my var"])
    for name, rank in (("x", rng.randint(1, 3)), ("f", rng.randint(1, 3)), ("w", 2), (odd, rng.randint(1, 2))):
        shape = tuple(rng.randint(1, 4) for _ in range(rank))
        dt = rng.choice(["i4", "f8", "i2", "f4", "u1"])
        a = (np.arange(int(np.prod(shape))) * rng.choice([1, 3, -2]) + rng.randint(-5, 5)).astype(dt).reshape(shape)
        dims = tuple("%s_d%d" % (name.replace(" ", "_"), k) for k in range(rank)) if rng.random() < 0.6 else ()
        if dims and rank >= 2 and rng.random() < 0.35:
            # two axes over the same dimension (a covariance-like array): removing one axis must not remove its namesake
            i1, i2 = sorted(rng.sample(range(rank), 2))
            dims = tuple(dims[i1] if k == i2 else d for k, d in enumerate(dims))
            shape = tuple(shape[i1] if k == i2 else e for k, e in enumerate(shape))
            a = (np.arange(int(np.prod(shape))) * rng.choice([1, 3, -2]) + rng.randint(-5, 5)).astype(dt).reshape(shape)
        # a fill-value attribute naming a value the array really holds: mean() is the arithmetic mean of what is stored
        fattrs = {}
        if rng.random() < 0.4:
            fattrs[rng.choice(["_FillValue", "missing_value"])] = a.reshape(-1)[rng.randrange(a.size)].item()
        ds[name] = BaseType(name, a, dims=dims, **fattrs)
        arrays[ds[name].name] = (a, dims)          # (the name as requests spell it: my%20var)
    if not clash:
        ga, maps = add_grid()
    st = StructureType("st")
    sa = np.arange(6, dtype="i4").reshape(2, 3)
    st["m"] = BaseType("m", sa)
    ds["st"] = st
    arrays["st.m"] = (sa, ())
    # one sequence with X / Y / Z axis columns (bounds() works on the first sequence of the dataset)
    cols = [("lon", "X"), ("lat", "Y"), ("depth", "Z"), ("t", None)]
    if rng.random() < 0.3:
        # an axis carried by two columns (both are bounded), the axis letter in either case
        cols.append(rng.choice([("lon2", "X"), ("lat2", "y"), ("lon2", "x")]))
    rng.shuffle(cols)
    n = rng.choice([0, 1, 3, 6]) if not lazy else rng.choice([1, 3, 6])
    # half of the datasets have float columns with values a few parts in 10^7 away from the interval ends: a closed interval
    # (a degenerate one above all) keeps a record only if the stored value really lies inside it
    floaty = rng.random() < 0.5

    wide = rng.random() < 0.5          # values beyond the "whole globe": negative, above 360, above 90

    def cell():
        if wide and rng.random() < 0.4:
            return (float if floaty else int)(rng.choice([-5, -95, 365, 95, 400, -185]))
        v = rng.randint(0, 6) * 5
        if floaty:
            return float(v) + (rng.choice([0, 0, 4e-6, -4e-6]) if v else 0.0)
        return v
    rows = [tuple(cell() for _ in cols) for _ in range(n)]
    if corpus == "near":
        # corpus: float cells a few parts in 10^7 away from the constants of degenerate intervals
        cols, floaty = [("lon", "X"), ("t", None), ("lat", "Y"), ("depth", "Z")], True
        rows = [(10.000004, 1.0, 15.0, 5.0), (10.0, 2.0, 15.000004, 5.0), (9.999996, 3.0, 14.999996, 5.0), (10.0, 4.0, 15.0, 5.000004),
                (20.0, 5.0, 15.0, 5.0), (10.0, 6.0, 15.0, 5.0)]
    elif corpus == "two":
        # corpus: one axis carried by two columns that disagree about some records
        cols, floaty = [("lon2", "x"), ("lon", "X"), ("lat", "Y"), ("depth", "Z"), ("t", None)], False
        rows = [(10, 10, 15, 5, 1), (10, 30, 15, 5, 2), (30, 10, 15, 5, 3), (30, 30, 15, 5, 4), (10, 10, 40, 5, 5)]
    loc = SequenceType("loc")
    for c, axis in cols:
        loc[c] = BaseType(c, attributes={"axis": axis} if axis else {})
    if lazy:
        loc.data = IterData([tuple((np.float64 if floaty else np.int32)(v) for v in r_) for r_ in rows], loc)
    else:
        loc.data = np.array(rows, dtype=[(c, "f8" if floaty else "i4") for c, _ in cols])
    ds["loc"] = loc
    return ds, arrays, (ga, gd, maps), (cols, rows)


def exact_mean(a, axis):
    """arithmetic mean along axis in exact rationals -> nested lists"""
    import numpy as np
    moved = np.moveaxis(a, axis, 0)
    n = moved.shape[0]
    out = np.empty(moved.shape[1:], dtype=object)
    for idx in np.ndindex(*moved.shape[1:]):
        out[idx] = sum(Fraction(float(moved[(j,) + idx])) for j in range(n)) / n
    return out


def close(got, want):
    import numpy as np
    got = np.asarray(got, dtype=float)
    if got.shape != want.shape:
        return False
    for idx in np.ndindex(*want.shape):
        w = float(want[idx])
        if abs(float(got[idx]) - w) > 1e-9 * max(1.0, abs(w)):
            return False
    return True


def fetch(app, url):
    from webob import Request
    try:
        res = Request.blank(url).get_response(app)
        return (res.status, tuple(sorted((k, v) for k, v in res.headers.items())), res.body)
    except Exception as e:  # noqa
        return ("raised", type(e).__name__, "")


def main():
    r = Report(PID)
    rng = random.Random(r.seed)
    T = r.tier
    proof_phase(r, PID)
    use_repo()
    import re

    import numpy as np
    from webob import Request
    from pydap.client import open_dods_url, open_url
    from pydap.handlers.lib import BaseHandler
    from pydap.model import BaseType, GridType
    from pydap.wsgi.ssf import ServerSideFunctions

    direct, id_cases, parse_cases, called_cases, bounds_cases, drop_cases = [], [], [], [], [], []
    stats = {"datasets": 0, "transparent_requests": 0, "mean_calls": 0, "nested_means": 0, "bounds_calls": 0, "lazy_bounds": 0,
             "degenerate_bounds": 0, "proxy_calls": 0, "spy_calls": 0}

    class Seen:
        """innermost application: records the query it is handed"""
        def __init__(self, app):
            self.app, self.q = app, None

        def __call__(self, environ, start_response):
            self.q = environ.get("QUERY_STRING", "")
            return self.app(environ, start_response)

    free = ["", "x", "x,f", "g", "g.a", "st", "st.m", "loc", "loc.t,loc.lon", "loc&loc.t>5", "loc.t&loc.t>=10&loc.lon<20", 'loc&loc.t!=5',
            "x[0:0]", "f[0]", "g[0:0]", "nope", "x[5:9]", "x[a]", "loc&loc.zz>1", "x[0:1", "loc&loc.t>>1", "x,,f", "&&", "%", "x%5B0%5D",
            'loc&loc.t="(5)"', 'loc&loc.t="a(b"', 'loc&loc.t="f(1,2)"']
    exts = ["dds", "das", "dods", "ascii", "ver", "xyz"]
    n_ds = 25 if T == "quick" else 300
    for i in range(n_ds):
        lazy = rng.random() < 0.4
        ds, arrays, (ga, gd, gmaps), (cols, rows) = build(rng, lazy, corpus={0: "near", 1: "two"}.get(i))
        stats["datasets"] += 1
        gz = rng.random() < 0.3            # the handler may compress its responses (a deployment setting)
        stats["gzip_handlers"] = stats.get("gzip_handlers", 0) + gz
        plain = BaseHandler(ds, gzip=gz)
        inner = Seen(BaseHandler(ds, gzip=gz))

        def spy(dataset, *args):
            return ("spy", args)
        ssf = ServerSideFunctions(inner)

        class SmallBuffer:
            """the same application with a small streaming block size (environ key pydap.buffer_size), a deployment setting"""
            def __init__(self, app_, size):
                self.app_, self.size = app_, size

            def __call__(self, environ, start_response):
                environ["pydap.buffer_size"] = self.size
                return self.app_(environ, start_response)

        # ---- (1) transparency
        for _ in range(12):
            ce = rng.choice(free)
            path = rng.choice(["/d." + rng.choice(exts), "/d", "/"])
            url = path + ("?" + ce if ce else "")
            a, b = fetch(plain, url), fetch(ssf, url)
            stats["transparent_requests"] += 1
            r.count(("free", i, url))
            if a[0] == "raised" and b[0] == "raised":
                same = a[1] == b[1]
            elif a[0] == "raised" or b[0] == "raised":
                same = False
            elif a[0].startswith("500"):
                strip = lambda x: re.sub(rb"0x[0-9a-fA-F]+|line \d+|\n.*?\^+\n", b"", x)  # noqa
                same = a[0] == b[0] and a[1][:0] == b[1][:0] and b"Error {" in b[2]
            else:
                same = a == b
            if not same:
                direct.append({"law": "a request without function calls gets the same response with and without the function middleware",
                               "request": url, "plain": (str(a[0]), repr(a[2])[:200]), "with_middleware": (str(b[0]), repr(b[2])[:200])})
            # interception vs the model (only for well-formed query strings: the middleware hands malformed ones on untouched)
            if path.startswith("/d.") and not path.endswith(".das"):
                inner.q = None
                fetch(ssf, url)
                from urllib.parse import unquote
                q = unquote(ce)
                proj = q.split("&")[0] if q else ""
                sel = q.split("&")[1:] if q else []
                try:
                    from pydap.parsers import parse_ce
                    parse_ce(ce)
                    wellformed = True
                except Exception:
                    wellformed = False
                if wellformed and inner.q is not None:
                    called_cases.append("(%s, %s, %s)" % (ctext(proj), clist(sel, ctext), "false" if inner.q == ce else "true"))

        # ---- (2) mean: alone, nested, beside projections; arrays and grids; every valid axis
        client = open_url("http://localhost:8001/d", application=ssf)
        for name, (a, dims) in arrays.items():
            for axis in range(a.ndim):
                stats["mean_calls"] += 1
                r.count(("mean", i, name, axis, a.shape))
                call = "mean(%s,%d)" % (name, axis)
                beside = rng.choice(["", "g.a,", "loc,"]) if "." not in name else ""
                url = "/d.dods?%s%s" % (beside, call)
                try:
                    # with the default block size, or with blocks smaller than one plane of the array
                    mean_app = ssf if rng.random() < 0.6 else SmallBuffer(ssf, rng.choice([8, 16, 40, 64]))
                    res = open_dods_url("http://localhost:8001/d.dods?%s%s" % (beside, call), application=mean_app)
                    leaf = name.split(".")[-1]
                    var = res[leaf] if leaf in res.keys() else res[name.split(".")[0]][leaf]
                    got = np.asarray(var.data[:]) if var.shape else np.asarray(var.data)
                    want = exact_mean(a, axis)
                    want_dims = tuple(d for k, d in enumerate(dims) if k != axis)
                    if not close(got, want):
                        direct.append({"law": "mean(v, axis) returns the arithmetic mean of the source array along that axis",
                                       "request": url, "shape": a.shape, "got": np.asarray(got).tolist(), "want": [float(x) for x in want.flat]})
                    if tuple(var.shape) != want.shape:
                        direct.append({"law": "mean removes exactly that axis from the shape", "request": url,
                                       "got": tuple(var.shape), "want": want.shape})
                    if dims and tuple(var.dims) != want_dims:
                        direct.append({"law": "mean removes exactly that axis from the dimensions", "request": url,
                                       "got": tuple(var.dims), "want": want_dims})
                    drop_cases.append("(%d%%nat, %s, %s)" % (axis, clist(list(dims), ctext), clist(list(want_dims), ctext)))
                except Exception as e:  # noqa
                    direct.append({"law": "mean(v, axis) on a valid axis is answered", "request": url, "error": repr(e)[:300]})
                # nested: mean(mean(v, a1), a2)
                if a.ndim >= 2:
                    a2 = rng.randrange(a.ndim - 1)
                    stats["nested_means"] += 1
                    call2 = "mean(mean(%s,%d),%d)" % (name, axis, a2)
                    try:
                        res = open_dods_url("http://localhost:8001/d.dods?" + call2, application=ssf)
                        leaf = name.split(".")[-1]
                        var = res[leaf]
                        got = np.asarray(var.data[:]) if var.shape else np.asarray(var.data)
                        w1 = exact_mean(a, axis)
                        want = exact_mean(w1, a2) if w1.ndim else w1
                        if not close(got, want):
                            direct.append({"law": "nested mean calls compose", "request": call2, "got": np.asarray(got).tolist(),
                                           "want": [float(x) for x in want.flat]})
                    except Exception as e:  # noqa
                        direct.append({"law": "nested mean calls are answered", "request": call2, "error": repr(e)[:300]})
        for axis in range(ga.ndim):
            stats["mean_calls"] += 1
            call = "mean(g,%d)" % axis
            try:
                res = open_dods_url("http://localhost:8001/d.dods?" + call, application=ssf)
                gg = res["g"]
                got = np.asarray(gg["a"].data[:]) if gg["a"].shape else np.asarray(gg["a"].data)
                want = exact_mean(ga, axis)
                want_dims = tuple(d for k, d in enumerate(gd) if k != axis)
                if not close(got, want):
                    direct.append({"law": "mean(grid, axis) returns the mean of the grid's array", "request": call})
                if isinstance(gg, GridType):
                    mp = tuple(gg.maps.keys())
                    if mp != want_dims:
                        direct.append({"law": "mean removes exactly that axis from the grid maps", "request": call, "got": mp, "want": want_dims})
                    for d in want_dims:
                        if not np.array_equal(np.asarray(gg[d].data[:]), gmaps[d]):
                            direct.append({"law": "the remaining grid maps keep their values", "request": call, "map": d})
                drop_cases.append("(%d%%nat, %s, %s)" % (axis, clist(list(gd), ctext), clist(list(want_dims), ctext)))
            except Exception as e:  # noqa
                direct.append({"law": "mean(grid, axis) on a valid axis is answered", "request": call, "error": repr(e)[:300]})

        # ---- (2b) mean on a variable served from a file (the NetCDF handler hands out lazy variables)
        if i % 8 == 0:
            try:
                import netCDF4
                import tempfile
                from pydap.handlers.netcdf import NetCDFHandler
                tdir = tempfile.mkdtemp(prefix="verif_c19_")
                try:
                    ncp = os.path.join(tdir, "m.nc")
                    shp = tuple(rng.randint(1, 4) for _ in range(rng.randint(1, 3)))
                    arr_nc = (np.arange(int(np.prod(shp))) * 1.25 - 3).reshape(shp)
                    with netCDF4.Dataset(ncp, "w") as ncd:
                        for k_, n_ in enumerate(shp):
                            ncd.createDimension("d%d" % k_, n_)
                        vv = ncd.createVariable("v", "f8", tuple("d%d" % k_ for k_ in range(len(shp))))
                        vv[...] = arr_nc
                    ncapp = ServerSideFunctions(NetCDFHandler(ncp))
                    for axis in range(len(shp)):
                        stats["mean_calls"] += 1
                        r.count(("mean-netcdf", i, axis, shp))
                        res = open_dods_url("http://localhost:8001/m.dods?mean(v,%d)" % axis, application=ncapp)
                        got = np.asarray(res["v"].data[:]) if res["v"].shape else np.asarray(res["v"].data)
                        if not close(got, exact_mean(arr_nc, axis)):
                            direct.append({"law": "mean(v, axis) returns the arithmetic mean of the source array along that axis",
                                           "request": "mean(v,%d) on a NetCDF file" % axis, "shape": shp, "got": np.asarray(got).tolist()})
                finally:
                    shutil.rmtree(tdir, ignore_errors=True)
            except Exception as e:  # noqa
                direct.append({"law": "mean(v, axis) on a valid axis is answered", "request": "mean on a variable served from a NetCDF file",
                               "error": repr(e)[:300]})
        # ---- (3) bounds: closed intervals incl. min = max, selection position with different projections
        colnames = [c for c, _ in cols]
        # every column that carries an axis attribute (in either letter case) is bounded by that axis' interval
        axis_cols = [(colnames.index(c), ax.upper()) for c, ax in cols if ax]
        for bi in range(6):
            b = {}
            for ax in "XYZ":
                lo = rng.randint(-1, 6) * 5
                hi = lo if rng.random() < 0.35 else lo + rng.randint(0, 4) * 5
                if rng.random() < 0.2:
                    lo, hi = rng.choice([(0, 360), (-90, 90), (-180, 180), (0, 359)])     # the extents a GrADS client sends
                if bi == 0 and ax in "XY":
                    lo, hi = {"X": (0, 360), "Y": (-90, 90)}[ax]      # the whole globe - which some records may lie beyond
                if rng.random() < 0.3:
                    # fractional ends (also on integer-typed columns: 0.5 <= X keeps 1, not 0)
                    lo, hi = lo + rng.choice([0.5, 0.25, -0.5, 0]), hi + rng.choice([0.5, 0.75, 0])
                b[ax] = (lo, hi)
            if i >= 2 and bi == 5:
                # scripted: an interval with fractional ends around stored whole numbers
                b = {"X": (4.5, 10.5), "Y": (0.25, 30), "Z": (-0.5, 25.75)}
            if i < 2 and bi in (1, 2, 3):
                # the corpus tables are asked with intervals that are degenerate on one axis
                b = {"X": (10, 10) if bi == 1 else (0, 30), "Y": (15, 15) if bi == 2 else (0, 30), "Z": (5, 5) if bi == 3 else (0, 30)}
            stats["bounds_calls"] += 1
            stats["lazy_bounds"] += lazy
            stats["degenerate_bounds"] += any(lo == hi for lo, hi in b.values())
            call = "bounds(%s,%s,%s,%s,%s,%s,0,0)" % tuple(repr(v_) for v_ in (b["X"] + b["Y"] + b["Z"]))
            proj = rng.choice(["loc", "", "loc.t", "loc." + rng.choice(colnames) + ",loc.t"])
            # the call in selection position (after '&') or in projection position (one more item of the projection list)
            sep = rng.choice(["&", ","]) if proj else ""
            if sep == "," and rng.random() < 0.25:
                proj = rng.choice(["x", "x,loc", "loc,x"])
            stats["bounds_in_projection_position"] = stats.get("bounds_in_projection_position", 0) + (sep == "," or not proj)
            url = "/d.dods?%s%s%s" % (proj, sep, call)
            r.count(("bounds", i, url, tuple(rows)))
            want_rows = [r_ for r_ in rows if all(b[ax][0] <= r_[j] <= b[ax][1] for j, ax in axis_cols)]
            axes_in_col_order = sorted((j, b[ax][0], b[ax][1]) for j, ax in axis_cols)
            bounds_cases.append("(%s, %s, %s)" % (
                clist(axes_in_col_order, lambda t: "(%d%%nat, (%d)%%Z, (%d)%%Z)" % (t[0], round(t[1] * SC), round(t[2] * SC))),
                clist(rows, lambda r_: clist(list(r_), lambda v: "(%d)%%Z" % round(v * SC))),
                clist(want_rows, lambda r_: clist(list(r_), lambda v: "(%d)%%Z" % round(v * SC)))))
            try:
                res = open_dods_url("http://localhost:8001" + url, application=ssf)
                seq = res["loc"]
                names = list(seq.keys())
                got = [tuple(float(v) for v in rec) for rec in seq.iterdata()]
                want = [tuple(float(r_[colnames.index(nm)]) for nm in names) for r_ in want_rows]
                if got != want:
                    direct.append({"law": "bounds(...) keeps exactly the records inside the closed intervals on the X, Y, Z columns",
                                   "request": url, "lazy_sequence": lazy, "columns": cols, "rows": rows, "got": got, "want": want})
            except Exception as e:  # noqa
                if True:
                    direct.append({"law": "bounds(...) is answered", "request": url, "lazy_sequence": lazy, "error": repr(e)[:300]})

        # ---- (4) proxies: the id the client builds, and the values against the raw request
        def gen_tree(depth):
            if depth <= 0 or rng.random() < 0.3:
                return rng.choice(["x", "f", "g", "g.a", "st.m", "0", "1", "2", "-1", "1.5", '"txt"',
                                   # numbers with more than six significant digits reach the server with all of them
                                   "12345678", "3000007", "0.1234567891", "-1234567.25"])
            return ("spy", [gen_tree(depth - 1) for _ in range(rng.randint(1, 3))])
        ssf_spy = ServerSideFunctions(BaseHandler(ds), spy=lambda dataset, *args: BaseType("r", np.array(0)) if False else Node(args))
        client2 = open_url("http://localhost:8001/d", application=ServerSideFunctions(BaseHandler(ds)))
        for _ in range(6):
            t = ("spy", [gen_tree(rng.randint(0, 3)) for _ in range(rng.randint(1, 3))])

            def via_proxy(node):
                if isinstance(node, tuple):
                    return getattr(client2.functions, node[0])(*[via_proxy(a) for a in node[1]])
                if node in ("x", "f", "g", "st.m", "g.a"):
                    return client2[node.split(".")[0]][node.split(".")[1]] if "." in node else client2[node]
                if node.startswith('"'):
                    return node.strip('"')
                return float(node) if "." in node else int(node)
            stats["proxy_calls"] += 1
            pid = via_proxy(t).id
            # the proxy writes numbers with all their digits and strings quoted: the same tokens as in the tree
            id_cases.append("(%s, %s)" % (c_cexp(t), ctext(pid)))
            # what the server evaluates for that text
            stats["spy_calls"] += 1
            try:
                Node.top = None
                Request.blank("/d.dds?" + pid).get_response(ssf_spy).body
            except Exception:
                pass
            seen = Node.top
            parse_cases.append("(%s, %s)" % (ctext(pid), "None" if seen is None else "(Some %s)" % c_cexp(seen)))
            if seen is not None and seen != canon(t):
                direct.append({"law": "a call made through the client's function proxy is evaluated by the server as the same call",
                               "call": pid, "evaluated": repr(seen)[:400], "meant": repr(canon(t))[:400]})
        # values: proxy vs raw request
        try:
            v1 = np.asarray(client.functions.mean(client["x"], 0)["x"].data[:]) if arrays["x"][0].ndim > 1 else np.asarray(
                client.functions.mean(client["x"], 0)["x"].data)
            raw = open_dods_url("http://localhost:8001/d.dods?mean(x,0)", application=ssf)["x"]
            v2 = np.asarray(raw.data[:]) if raw.shape else np.asarray(raw.data)
            if not np.array_equal(v1, v2):
                direct.append({"law": "a function call made through the client's function proxy returns the same values as the raw request",
                               "call": "mean(x,0)", "proxy": v1.tolist(), "raw": v2.tolist()})
        except Exception as e:  # noqa
            direct.append({"law": "a function result can be read through the proxy", "error": repr(e)[:300]})

    bad = {}
    for label, checker, cases, ctype in (
            ("proxy_ids", "chk_call_id", id_cases, "cexp * string"),
            ("server_parse", "chk_parse_call", parse_cases, "string * option cexp"),
            ("interception", "chk_called", called_cases, "string * list string * bool"),
            ("bounds", "chk_bounds", bounds_cases, "list (nat * Z * Z) * list (list Z) * list (list Z)"),
            ("mean_dims", "chk_drop", drop_cases, "nat * list string * list string")):
        try:
            bad[label] = coq_eval_mismatches(PID + "_" + label, IMPORTS, checker, cases, ctype, shard=200, ztype=False)
        except RuntimeError as e:
            r.violation({"kind": "correspondence-broken", "error": str(e)[-1500:], "theorem": "C19 correspondence (%s)" % label}, found=False)
            bad[label] = []
    r.extra["cases"] = {"proxy_ids": len(id_cases), "server_parse": len(parse_cases), "interception": len(called_cases),
                        "bounds": len(bounds_cases), "mean_dims": len(drop_cases)}
    r.extra["mismatches"] = {k: len(v) for k, v in bad.items()}
    r.extra["distribution"] = stats
    r.cov["rule"] = ("per generated dataset (arrays of rank 1-3 with / without named dims, a grid of rank 1-3, a structure member, a "
                     "numpy or lazy sequence with X / Y / Z axis columns in random column order): (a) 12 function-free requests (valid, "
                     "malformed, string constants with parentheses; every response kind, with / without extension) with and without the "
                     "middleware; (b) mean on every axis, alone / beside a projection / nested; (c) bounds with random closed intervals incl. "
                     "min = max in 4 projection positions; (d) random call trees (depth <= 4) through the client proxies and a spy function")
    if id_cases:
        r.sample({"proxy_case": id_cases[0][:400]})
    if bounds_cases:
        r.sample({"bounds_case": bounds_cases[0][:400]})
    seen_laws = set()
    for d in direct:
        if d["law"] in seen_laws:
            continue
        seen_laws.add(d["law"])
        r.violation(dict({k: (repr(v) if not isinstance(v, (str, int, float, bool, list, dict)) else v) for k, v in d.items()},
                         kind="property-violated", how="ServerSideFunctions(BaseHandler(ds)) vs BaseHandler(ds); decoded function results"), found=True)
    if not direct:
        for label, cases in (("proxy_ids", id_cases), ("server_parse", parse_cases), ("interception", called_cases),
                             ("bounds", bounds_cases), ("mean_dims", drop_cases)):
            if bad.get(label):
                r.violation({"kind": "correspondence-broken", "theorem": "pydap %s vs the Gallina model (props/C19.v)" % label,
                             "case": cases[bad[label][0]][:2000], "n_mismatches": len(bad[label])}, found=False)
    r.assumptions = [
        "numpy.mean (floating point summation) is outside the model: results are compared with exact rational means to 1e-9 relative",
        "bounds() is exercised on the first sequence of the dataset with integer-valued cells; the T axis (needs coards) is not exercised",
        "call trees through the proxies use constants without comma / parenthesis (C19_proxy_call_is_read_back's hypothesis)",
        "an empty result of a lazy sequence is not comparable (known findings C04 / C15)",
    ]
    r.finish()


class Node:
    """what a spy function was called with, as a comparable tree"""
    top = None

    def __init__(self, args):
        self.tree = ("spy", [canon_arg(a) for a in args])
        Node.top = self.tree


def canon_arg(a):
    from pydap.model import DapType
    if isinstance(a, Node):
        return a.tree
    if isinstance(a, DapType):
        return a.id
    if isinstance(a, str):
        return '"%s"' % a if not a.startswith('"') else a
    return num_token(a)


def num_token(v):
    """a number with all its digits (ints as ints)"""
    if isinstance(v, bool):
        return repr(v)
    if hasattr(v, "item"):
        v = v.item()
    return str(v) if isinstance(v, int) else repr(float(v))


def canon(t):
    if isinstance(t, tuple):
        return (t[0], [canon(a) for a in t[1]])
    if t.startswith('"') or t in ("x", "f", "g", "g.a", "st.m"):
        return t
    return num_token(float(t) if "." in t or "e" in t.lower() else int(t))


if __name__ == "__main__":
    import common
    common.run(main, PID)
