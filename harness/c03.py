"""C03 - slice algebra.  Proof (props/C03.v) + correspondence of the Gallina model with
pydap.lib.fix_slice / combine_slices / hyperslab and pydap.parsers.parse_hyperslab, + validation
of the numpy SPEC against numpy, + the direct property oracle (numpy) used as failing-input search."""
import itertools
import random
import sys

from common import (Report, cbool, clist, copt, coq_eval_mismatches, coq_show, cstr, cz, known_findings,
                    proof_phase, seed, tier, use_repo)

PID = "C03"
IMPORTS = "SlicesCases"


# ----------------------------------------------------------------- Coq literals
def c_slice(s):
    return "(mkSlice %s %s %s)" % (copt(s.start), copt(s.stop), copt(s.step))


def c_item(it):
    if it is Ellipsis:
        return "IEllipsis"
    if isinstance(it, slice):
        return "(ISlice %s)" % c_slice(it)
    return "(IInt %s)" % cz(int(it))


def c_items(t):
    return clist(t, c_item)


def c_oitems(t):
    return "None" if t is None else "(Some %s)" % c_items(t)


def canon_items(t):
    """implementation result -> tuple of python ints / slices with plain-int fields, or None"""
    out = []
    for it in t:
        if isinstance(it, slice):
            f = []
            for v in (it.start, it.stop, it.step):
                if v is None:
                    f.append(None)
                elif isinstance(v, int) and not isinstance(v, bool):
                    f.append(int(v))
                else:
                    return None
            out.append(slice(*f))
        elif isinstance(it, int) and not isinstance(it, bool):
            out.append(int(it))
        else:
            return None
    return tuple(out)


def rep(x):
    return repr(x)


# ----------------------------------------------------------------- scope
STEPS = (None, 1, 2, 3, 4)


def axis_slices(N):
    bounds = [None] + list(range(-N, N + 4))
    for a in bounds:
        for b in bounds:
            for k in STEPS:
                yield slice(a, b, k)


def main():
    r = Report(PID)
    lib = None
    T = r.tier
    rng = random.Random(r.seed)
    proof_ok = proof_phase(r, PID)

    use_repo()
    import numpy as np
    from pydap.lib import combine_slices, fix_slice, hyperslab
    from pydap.parsers import parse_hyperslab

    def call(f, *a):
        try:
            return f(*a)
        except Exception as e:  # noqa
            return ("raise", type(e).__name__)

    def is_raise(x):
        return isinstance(x, tuple) and len(x) == 2 and x[0] == "raise"

    direct_fail = []          # concrete inputs on which the implementation breaks the property itself
    NMAX = 8

    # ---------------------------------------------------------- (A) SPEC vs numpy, exhaustive one-axis scope
    np_cases = []
    for N in range(NMAX + 1):
        base = list(range(N))
        for s in axis_slices(N):
            np_cases.append("(%d, %s, %s)" % (N, c_slice(s), clist(base[s])))
    # tuple-level expansion spec vs numpy (per-axis index lists)
    sel_cases = []
    shapes = [(3,), (2, 3), (3, 2, 2), (1, 4, 2)]
    forms = [0, -1, slice(None), slice(1, None), slice(None, -1), slice(0, 5, 2), Ellipsis]
    for shape in shapes:
        for L in range(0, len(shape) + 2):
            for tup in itertools.product(forms, repeat=L):
                if sum(1 for t in tup if t is Ellipsis) > 1:
                    continue
                if L == len(shape) + 1 and Ellipsis not in tup:
                    continue          # too many indices (IndexError) is outside the property; a zero-width Ellipsis is inside
                # numpy oracle: per-axis index lists via np.ix_-free trick (index an index grid)
                try:
                    grids = np.indices(shape)
                    t2 = tuple(keep(i) for i in tup)
                    sub = [g[t2] for g in grids]
                    axes = []
                    for ax, g in enumerate(sub):
                        idx = [0] * len(shape)
                        lst = []
                        for j in range(g.shape[ax]):
                            idx[ax] = j
                            lst.append(int(g[tuple(idx)]))
                        axes.append(lst)
                        if g.size == 0:
                            axes = None
                            break
                    if axes is None:
                        continue
                    exp = "(Some %s)" % clist(axes, lambda l: clist(l))
                except IndexError:
                    exp = "None"
                sel_cases.append("(%s, %s, %s)" % (clist(shape), c_items(tup), exp))

    # ---------------------------------------------------------- (B) fix_slice: impl vs model (+ numpy oracle)
    fix_cases, fix_inputs = [], []

    def add_fix(sl, shape, in_domain):
        # an integer index may be a numpy integer (the result of an argmax, an element of an index array): same normalisation
        arg = tuple(rng.choice([np.int64, np.int32, np.intp])(i) if type(i) is int and rng.random() < 0.25 else i for i in sl)
        res = call(fix_slice, arg if len(arg) != 1 or rng.random() < 0.5 else arg[0], shape)
        can = None if is_raise(res) else canon_items(res)
        fix_inputs.append((sl, shape, res))
        fix_cases.append("(%s, %s, %s)" % (c_items(sl), clist(shape), c_oitems(can)))
        r.count(("fix", rep(sl), shape), nontrivial=True)
        if in_domain:
            # direct oracle: x[fix_slice(s)] == x[s] (ints kept as length-1 axes)
            x = np.arange(int(np.prod(shape))).reshape(shape) if shape else np.array(7)
            want = x[tuple(keep(i) for i in sl)]
            try:
                got = x[tuple(keep(i) for i in res)]
                ok = (got.shape == want.shape and (got == want).all() and len(res) == len(shape)
                      and all((isinstance(i, int) and i >= 0) or
                              (isinstance(i, slice) and None not in (i.start, i.stop, i.step)
                               and i.start >= 0 and i.stop >= 0 and i.step >= 1) for i in res))
            except Exception:
                ok = False
            if not ok:
                direct_fail.append({"law": "fix_slice preserves selection", "slice": rep(sl), "shape": list(shape),
                                    "got": rep(res), "numpy_selection": want.tolist()})

    for N in range(NMAX + 1):
        for s in axis_slices(N):
            add_fix((s,), (N,), True)
        for i in range(-N, N):
            add_fix((i,), (N,), True)
        # outside the property's domain (start/stop < -N): model must still mirror the code
        for a, b in ((-N - 1, None), (None, -N - 2), (-N - 3, -N - 1)):
            add_fix((slice(a, b, 2),), (N,), False)
    # tuples, Ellipsis positions, short tuples, rank <= 3
    per_axis = lambda N: [None] + list(range(-N, N + 4))  # noqa
    ntuples = 1500 if T == "quick" else 30000
    for _ in range(ntuples):
        rank = rng.randint(1, 3)
        shape = tuple(rng.randint(0, NMAX) for _ in range(rank))
        L = rng.randint(0, rank + 1)
        ell = (rng.random() < 0.4 and L > 0) or L == rank + 1      # rank+1 items: one is a zero-width Ellipsis
        sl = []
        axes = list(range(rank))
        pos = rng.randrange(L) if ell else -1
        # items address axes left of the Ellipsis from the left, right of it from the right
        for j in range(L):
            if j == pos:
                sl.append(Ellipsis)
                continue
            ax = j if (pos < 0 or j < pos) else rank - (L - j)
            N = shape[ax]
            if rng.random() < 0.25 and N > 0:
                sl.append(rng.randrange(-N, N))
            else:
                sl.append(slice(rng.choice(per_axis(N)), rng.choice(per_axis(N)), rng.choice(STEPS)))
        add_fix(tuple(sl), shape, True)
    # large-N samples beyond the enumerated scope
    for _ in range(300 if T == "quick" else 5000):
        N = rng.choice([10, 100, 10 ** 6, 2 ** 31, 2 ** 40])
        a = rng.choice([None, rng.randint(-N, N + 3)])
        b = rng.choice([None, rng.randint(-N, N + 3)])
        k = rng.choice([None, 1, 2, 3, 7, N // 3 + 1])
        res = call(fix_slice, (slice(a, b, k),), (N,))
        can = None if is_raise(res) else canon_items(res)
        fix_cases.append("(%s, %s, %s)" % (c_items((slice(a, b, k),)), clist((N,)), c_oitems(can)))
        r.count(("fixL", a, b, k, N))
        if not is_raise(res):
            if range(N)[res[0]] != range(N)[slice(a, b, k)]:
                direct_fail.append({"law": "fix_slice preserves selection", "slice": rep((slice(a, b, k),)),
                                    "shape": [N], "got": rep(res)})

    # ---------------------------------------------------------- (C) combine_slices
    comb_cases = []
    pairs = []
    for N in range(NMAX + 1):
        firsts = {}
        for s in axis_slices(N):
            f = call(fix_slice, (s,), (N,))
            if is_raise(f):
                continue
            firsts[rep(f)] = f[0]
        firsts["full"] = slice(None)
        for s1 in firsts.values():
            M = len(range(N)[s1])
            seconds = {}
            for s in axis_slices(M):
                f = call(fix_slice, (s,), (M,))
                if is_raise(f):
                    continue
                seconds[rep(f)] = f[0]
            for j in range(M):
                seconds["int%d" % j] = j
            for s2 in seconds.values():
                pairs.append((N, s1, s2))
    # direct oracle on every pair of the enumerated scope (python/numpy only: cheap)
    base = {N: list(range(N)) for N in range(NMAX + 1)}
    n_pairs_checked = 0
    for (N, s1, s2) in pairs:
        res = call(combine_slices, (s1,), (s2,))
        n_pairs_checked += 1
        first = base[N][s1]
        want = first[slice(s2, s2 + 1) if isinstance(s2, int) else s2]
        ok = (not is_raise(res)) and len(res) == 1 and isinstance(res[0], slice) and base[N][res[0]] == want
        if not ok:
            if len(direct_fail) < 50:
                direct_fail.append({"law": "x[combine_slices(s1,s2)] == x[s1][s2]", "N": N, "s1": rep(s1), "s2": rep(s2),
                                    "got": rep(res), "want_selection": want})
    r.extra["combine_pairs_checked_against_numpy"] = n_pairs_checked
    # model correspondence on a seeded subset of the pairs + unequal-length tuples
    k = 4000 if T == "quick" else 60000
    sub = pairs if len(pairs) <= k else rng.sample(pairs, k)
    for (N, s1, s2) in sub:
        res = call(combine_slices, (s1,), (s2,))
        can = None if is_raise(res) else canon_items(res)
        comb_cases.append("(%s, %s, %s)" % (c_items((s1,)), c_items((s2,)), c_oitems(can)))
        r.count(("comb", rep(s1), rep(s2)))
    for _ in range(600 if T == "quick" else 6000):
        la, lb = rng.randint(0, 3), rng.randint(0, 3)
        mk = lambda: rng.choice([rng.randint(0, 9), slice(None), slice(rng.randint(0, 9), rng.choice([None, rng.randint(0, 12)]), rng.choice([None, 1, 2, 3])),
                                 slice(rng.choice([None, 0, 2]), rng.randint(0, 12), rng.randint(1, 4))])  # noqa
        a = tuple(mk() for _ in range(la))
        b = tuple(mk() for _ in range(lb))
        res = call(combine_slices, a, b)
        can = None if is_raise(res) else canon_items(res)
        comb_cases.append("(%s, %s, %s)" % (c_items(a), c_items(b), c_oitems(can)))
        r.count(("combT", rep(a), rep(b)))
        # direct oracle per axis on a long axis
        if not is_raise(res):
            x = list(range(14))
            for e1, e2, c in itertools.zip_longest(a, b, res, fillvalue=slice(None)):
                e1s = slice(e1, e1 + 1) if isinstance(e1, int) else e1
                e2s = slice(e2, e2 + 1) if isinstance(e2, int) else e2
                if x[c] != x[e1s][e2s]:
                    direct_fail.append({"law": "x[combine_slices(s1,s2)] == x[s1][s2]", "N": 14, "s1": rep(a), "s2": rep(b),
                                        "got": rep(res)})
                    break

    # ---------------------------------------------------------- (D) hyperslab / parse_hyperslab
    hyp_cases, parse_cases = [], []
    seen_txt = set()
    normal = []
    for N in range(NMAX + 1):
        for s in axis_slices(N):
            f = call(fix_slice, (s,), (N,))
            if not is_raise(f):
                normal.append((N, f[0]))
    uniq = {}
    for N, s in normal:
        uniq[(N, rep(s))] = (N, s)
    normal = list(uniq.values())
    for N, s in normal:
        txt = call(hyperslab, (s,))
        hyp_cases.append("(%s, %s)" % (c_items((s,)), "None" if is_raise(txt) or not isinstance(txt, str) else "(Some %s)" % cstr(txt)))
        r.count(("hyp", rep(s)))
        nonempty = len(range(N)[s]) > 0
        if nonempty:
            back = call(parse_hyperslab, txt) if isinstance(txt, str) else txt
            ok = (not is_raise(back)) and len(back) == 1 and range(N)[back[0]] == range(N)[s]
            if not ok:
                direct_fail.append({"law": "parse_hyperslab(hyperslab(s)) selects what s selects", "N": N, "s": rep(s),
                                    "text": rep(txt), "parsed": rep(back)})
        if isinstance(txt, str) and txt not in seen_txt:
            seen_txt.add(txt)
            back = call(parse_hyperslab, txt)
            can = None if is_raise(back) else canon_items(back)
            parse_cases.append("(%s, %s)" % (cstr(txt), c_oitems(can)))
    # multi-axis, trailing full slices, non-tuple argument, foreign forms [a], [a:b]
    for _ in range(400 if T == "quick" else 4000):
        L = rng.randint(0, 3)
        sl = tuple(rng.choice([slice(None), rng.choice(normal)[1]]) for _ in range(L))
        txt = call(hyperslab, sl)
        hyp_cases.append("(%s, %s)" % (c_items(sl), "None" if is_raise(txt) or not isinstance(txt, str) else "(Some %s)" % cstr(txt)))
        r.count(("hypT", rep(sl)))
    extra_txt = ["", "[3]", "[1:4]", "[0:2:9][5]", "[1:2:3:4]", "[a]", "[1:]", "[:3]", "[]", "[1][2][3]", "[0:1:0]",
                 "[-1]", "[10:2:3]", "[007]"]
    for _ in range(200 if T == "quick" else 2000):
        parts = []
        for _ in range(rng.randint(1, 3)):
            n = rng.randint(1, 3)
            parts.append("[" + ":".join(str(rng.randint(0, 12)) for _ in range(n)) + "]")
        extra_txt.append("".join(parts))
    for txt in extra_txt:
        if txt in seen_txt:
            continue
        seen_txt.add(txt)
        back = call(parse_hyperslab, txt)
        can = None if is_raise(back) else canon_items(back)
        parse_cases.append("(%s, %s)" % (cstr(txt), c_oitems(can)))
        r.count(("parse", txt))

    # ---------------------------------------------------------- run the model on all cases
    groups = [("np", "chk_np", np_cases, "Z * slice * list Z"),
              ("npsel", "chk_np_select", sel_cases, "list Z * list item * option (list (list Z))"),
              ("fix", "chk_fix", fix_cases, "list item * list Z * option (list item)"),
              ("combine", "chk_combine", comb_cases, "list item * list item * option (list item)"),
              ("hyperslab", "chk_hyperslab", hyp_cases, "list item * option string"),
              ("parse", "chk_parse", parse_cases, "string * option (list item)")]
    mism = {}
    for name, chk, cases, ctype in groups:
        try:
            bad = coq_eval_mismatches(PID + "_" + name, IMPORTS, chk, cases, ctype)
        except RuntimeError as e:
            r.violation({"kind": "correspondence-broken", "group": name, "error": str(e)[-1500:],
                         "theorem": "correspondence %s (model could not be evaluated)" % name}, found=False)
            bad = []
        mism[name] = [cases[i] for i in bad]
    r.extra["cases"] = {name: len(cases) for name, _, cases, _t in groups}
    r.extra["mismatches"] = {k: len(v) for k, v in mism.items()}
    r.extra["exhaustive"] = True
    r.extra["exhaustive_scope"] = ("one-axis: N in 0..8, start/stop in [-N,N+3] or None, step in {None,1,2,3,4}: all slices (fix_slice, "
                                   "SPEC vs numpy, hyperslab round trip) and all (normalised s1, normalised s2 / int) pairs for the "
                                   "composition law against numpy; tuples / Ellipsis / large N / model correspondence of combine: seeded samples")
    r.cov["evaluations"] += len(np_cases) + len(sel_cases) + n_pairs_checked
    r.cov["rule"] = ("cases are (function, arguments) of the four pure functions; distinct = distinct canonical argument "
                     "repr; all are non-trivial except that SPEC-vs-numpy cases are counted in evaluations only")
    r.sample({"fix_slice": fix_cases[137]})
    r.sample({"combine_slices": comb_cases[11]})
    r.sample({"hyperslab": hyp_cases[50]})
    r.sample({"parse_hyperslab": parse_cases[5]})
    r.sample({"numpy_spec": np_cases[999]})

    # ---------------------------------------------------------- decide
    spec_bad = mism["np"] + mism["npsel"]
    if spec_bad:
        r.violation({"kind": "spec-invalid", "what": "Gallina numpy SPEC disagrees with numpy", "cases": spec_bad[:5],
                     "theorem": "SPEC validation np_indices / np_select"}, found=False)
    for d in direct_fail[:10]:
        r.violation(dict(d, kind="property-violated", how="implementation vs numpy oracle"), found=True)
    if not direct_fail:
        for name in ("fix", "combine", "hyperslab", "parse"):
            if mism[name]:
                model_out = coq_show(IMPORTS, {"fix": "let '(a,b,_) := %s in fix_slice a b",
                                               "combine": "let '(a,b,_) := %s in combine_slices a b",
                                               "hyperslab": "let '(a,_) := %s in hyperslab a",
                                               "parse": "let '(a,_) := %s in parse_hyperslab a"}[name] % mism[name][0])
                r.violation({"kind": "correspondence-broken", "function": name,
                             "theorem": "correspondence of pydap.%s with the Gallina model underlying C03_* (props/C03.v)" % name,
                             "case_(input..,implementation_output)": mism[name][0], "model_output": model_out,
                             "n_mismatches": len(mism[name]),
                             "note": "implementation and model differ on this input, but no input in the enumerated scope "
                                     "violates the numpy oracle"}, found=False)
    r.assumptions = [
        "numpy basic indexing is the reference semantics (the Gallina SPEC np_indices/np_select is compared with numpy on the whole one-axis scope)",
        "model of Python int() restricted to canonical decimal strings; hyperslab texts fed to parse_hyperslab are digit/colon/bracket strings",
        "theorems quantify over all N >= 0, all ranks and strides; the correspondence samples the implementation",
    ]
    r.finish()


def keep(i):
    """numpy index item with integer axes kept as length-1 axes (pydap's convention)"""
    if isinstance(i, int):
        return slice(i, i + 1 or None)
    return i


if __name__ == "__main__":
    import common
    common.run(main, PID)
