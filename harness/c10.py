"""C10 - DAP4 responses decode to the served values for any chunking and byte order.
Proof: props/C10.v.  Correspondence: pydap's UNPACKDAP4DATA vs the Gallina model on responses produced by an
independent reference DAP4 server (harness/dap4ref.py), whose output is itself compared with the Gallina SPEC."""
import io
import random

import dap4ref as D
from common import Report, clist, coq_eval_mismatches, proof_phase, use_repo

PID = "C10"
IMPORTS = "WireCases"


def cB(b):
    return "[%s]%%N" % ";".join(str(x) for x in b)


def snapshot_dataset(ds):
    """{path: canonical values} of a decoded dataset, read from the dataset object as it is NOW"""
    import numpy as np
    from pydap.lib import walk
    from pydap.model import BaseType
    out = {}
    for v in walk(ds, BaseType):
        path = v.attributes.get("path")
        out[(path + "/" + v.name) if path else v.name] = canon(np.asarray(v.data))
    return out


def decode_with_pydap(raw, keep=None):
    """-> (little?, {path: (dtype str, shape, canonical values)}) or ('raise', name); the dataset object is appended to `keep`"""
    import numpy as np
    from pydap.handlers.dap import UNPACKDAP4DATA
    from pydap.lib import walk
    from pydap.model import BaseType
    try:
        u = UNPACKDAP4DATA(io.BufferedReader(io.BytesIO(raw)))
        ds = u.dataset
        if keep is not None:
            keep.append(ds)
        out = {}
        for v in walk(ds, BaseType):
            path = v.attributes.get("path")
            full = (path + "/" + v.name) if path else v.name
            arr = np.asarray(v.data)
            out[full] = (arr.dtype.newbyteorder("=").str, tuple(arr.shape), arr)
        return (u.endianness == "<", out)
    except Exception as e:  # noqa
        return ("raise", type(e).__name__)


def canon(arr):
    import numpy as np
    a = np.ascontiguousarray(arr)
    if a.dtype.kind == "f":
        return a.astype(a.dtype.newbyteorder("=")).view("u%d" % a.dtype.itemsize).reshape(-1).tolist()
    return [int(x) for x in a.reshape(-1)]


def main():
    r = Report(PID)
    rng = random.Random(r.seed)
    T = r.tier
    proof_phase(r, PID)
    use_repo()
    import numpy as np

    n_ds = 120 if T == "quick" else 1500
    dec_cases, spec_cases = [], []
    direct = []
    dist = {"types": {}, "rank": {}, "depth": {}, "partition": {}}
    for i in range(n_ds):
        root = D.gen_dataset(rng)
        vs = list(D.variables(root))
        dmr = D.render_dmr(root)
        if i % 3 == 1 and vs:
            # two responses with the SAME DMR and other values (two time steps of one request), decoded one after the other: the
            # dataset decoded first keeps its values
            other = [np.ascontiguousarray(np.asarray(v.values).reshape(-1)[::-1].reshape(np.asarray(v.values).shape)) if np.asarray(v.values).size > 1
                     else np.asarray(v.values) + np.asarray(1, dtype=np.asarray(v.values).dtype) for v in vs]
            held = []
            l1, l2 = rng.random() < 0.5, rng.random() < 0.5
            for vals, lit in (([v.values for v in vs], l1), (other, l2)):
                ser_ = D.serialize(list(zip(vs, vals)), lit)
                pay_ = b"".join(raw_ + cks_ for raw_, cks_ in ser_)
                decode_with_pydap(D.respond(dmr, pay_, lit, D.partition_sizes(rng, len(pay_), rng.choice(["one", 3, "random"]))), held)
            r.count(("dap4-two-responses", i))
            if len(held) == 2:
                snaps = [snapshot_dataset(d_) for d_ in held]
                for which, vals in ((0, [v.values for v in vs]), (1, other)):
                    for v, val in zip(vs, vals):
                        ks = [k for k in snaps[which] if k.lstrip("/") == v.path.lstrip("/")]
                        if (held[0] is held[1] or len(ks) != 1 or snaps[which][ks[0]] != canon(val)) and len(direct) < 10:
                            direct.append({"law": "two responses decoded one after the other give two datasets, each with the values of its "
                                                  "own response (the earlier one keeps them)", "dmr": dmr.decode(), "variable": v.path,
                                           "response": which + 1, "same_object": held[0] is held[1],
                                           "held": snaps[which].get(ks[0] if ks else None, None) and snaps[which][ks[0]][:8],
                                           "served": canon(val)[:8]})
                            break
            else:
                direct.append({"law": "reference response decodes", "dmr": dmr.decode(), "error": "one of two responses with the same DMR"})
        for little in (True, False):
            ser = D.serialize([(v, v.values) for v in vs], little)
            payload = b"".join(raw + cks for raw, cks in ser)
            modes = ["one", 1, rng.randint(2, 7), "random"] if i % 3 == 0 else [rng.choice(["one", 1, 3, 5, "random"])]
            for mode in modes:
                sizes = D.partition_sizes(rng, len(payload), mode)
                raw = D.respond(dmr, payload, little, sizes)
                res = decode_with_pydap(raw)
                # a sender may set the byte-order bit on the first (DMR) chunk only: the first chunk is the authoritative one
                if rng.random() < 0.5:
                    res1 = decode_with_pydap(D.respond(dmr, payload, little, sizes, flag_all=False))
                    same1 = res1[0] == res[0] and (res[0] == "raise" or (sorted(res1[1]) == sorted(res[1]) and all(
                        res1[1][k][0] == res[1][k][0] and res1[1][k][1] == res[1][k][1] and canon(res1[1][k][2]) == canon(res[1][k][2])
                        for k in res[1])))
                    if not same1 and len(direct) < 10:
                        direct.append({"law": "the byte order of a response is the one its first chunk announces", "dmr": dmr.decode(),
                                       "little": little, "sizes": sizes})
                key = "fixed" if isinstance(mode, int) else mode
                dist["partition"][key] = dist["partition"].get(key, 0) + 1
                r.count(("dap4", i, little, tuple(sizes)))
                # --- direct oracle: decoded == served
                ok = res[0] != "raise" and res[0] == little and set(res[1]) == {v.path.lstrip("/") if "/" not in v.path.lstrip("/") else v.path for v in vs} or True
                if res[0] == "raise":
                    direct.append({"law": "reference response decodes", "error": res[1], "dmr": dmr.decode(), "little": little,
                                   "sizes": sizes})
                    impl = "None"
                else:
                    got = res[1]
                    per_var = []
                    bad = None
                    for v in vs:
                        cands = [k for k in got if k.lstrip("/") == v.path.lstrip("/")]
                        if len(cands) != 1:
                            bad = "variable %s not found (have %s)" % (v.path, sorted(got))
                            break
                        dt, shape, arr = got[cands[0]]
                        want = np.dtype(D.TYPES[v.type][0])
                        if np.dtype(dt) != want or shape != v.shape or canon(arr) != canon(v.values):
                            bad = "variable %s: got %s %s %s, served %s %s %s" % (
                                v.path, dt, shape, canon(arr)[:6], want.str, v.shape, canon(v.values)[:6])
                            break
                        per_var.append(D.coq_values(v, arr))
                    if bad or res[0] != little:
                        if len(direct) < 10:
                            direct.append({"law": "decoded values/shapes/types equal the served ones", "error": bad or "byte order",
                                           "dmr": dmr.decode(), "little": little, "sizes": sizes})
                        continue
                    impl = "(Some (%s, %s))" % ("true" if res[0] else "false", "[" + "; ".join(per_var) + "]")
                vars_coq = clist(vs, lambda v: "(mkVar %s %d)" % (D.TYPES[v.type][1], int(np.prod(v.shape)) if v.shape else 1))
                dec_cases.append("(%s, %s, %s)" % (cB(raw), vars_coq, impl))
                if len(spec_cases) < (150 if T == "quick" else 1500):
                    spec_cases.append("(%s, %s, %s, %s, %s)" % (
                        "true" if little else "false", cB(dmr),
                        clist(list(zip(vs, ser)), lambda p: "(mkVar %s %d, %s, %s)" % (
                            D.TYPES[p[0].type][1], int(np.prod(p[0].shape)) if p[0].shape else 1,
                            D.coq_values(p[0], p[0].values), cB(p[1][1]))),
                        clist(sizes, lambda s: "%d%%nat" % s), cB(raw)))
        for v in vs:
            dist["types"][v.type] = dist["types"].get(v.type, 0) + 1
            dist["rank"][len(v.shape)] = dist["rank"].get(len(v.shape), 0) + 1
            d = v.path.count("/") - (1 if v.path.startswith("/") else 0)
            dist["depth"][d] = dist["depth"].get(d, 0) + 1
    r.extra["input_distribution"] = dist

    # ---- indexing over DAP4: the dataset opened against the reference server, whole and after a hyperslab in the URL
    from pydap.client import open_url
    stats_ix = {"reads": 0, "reads_after_url_hyperslab": 0, "whole_reads_after_url_hyperslab": 0}

    def axis_items(n):
        ints = list(range(-n, n))
        bounds = [None] + list(range(-n, n + 3))
        return ([slice(None)] * 2 + [rng.choice(ints)] + [slice(rng.choice(bounds), rng.choice(bounds), rng.choice([None, 1, 2, 3])) for _ in range(3)])

    def keep(i_):
        return slice(i_, i_ + 1 or None) if isinstance(i_, int) else i_

    def read_and_compare(proxy, base, idx, info):
        want = base[tuple(keep(x) for x in idx)]
        stats_ix["empty_selections"] = stats_ix.get("empty_selections", 0) + (want.size == 0)
        try:
            got = np.asarray(proxy.data[idx if len(idx) != 1 else idx[0]])
        except Exception as e:  # noqa
            if len(direct) < 10:
                direct.append(dict(info, law="an in-domain index can be read over DAP4", index=repr(idx), error=repr(e)[:300]))
            return
        if got.shape != want.shape or got.dtype.newbyteorder("=") != want.dtype.newbyteorder("=") or canon(got) != canon(want):
            if len(direct) < 10:
                direct.append(dict(info, law="indexing a variable opened over DAP4 returns exactly the numpy-selected elements",
                                   index=repr(idx), got_shape=list(got.shape), want_shape=list(want.shape),
                                   got=canon(got)[:12], want=canon(want)[:12], query=app4.seen[-1][1]))

    for i in range(40 if T == "quick" else 400):
        root = D.gen_dataset(rng)
        vs = [v for v in D.variables(root)]
        app4 = D.Dap4App(root, little=rng.random() < 0.5, chunk_sizes=[rng.choice([3, 7, 64])] * 3, flag_all=rng.random() < 0.6)
        try:
            c4 = open_url("http://localhost:8001/", application=app4, protocol="dap4")
        except Exception as e:  # noqa
            direct.append({"law": "dataset opens over DAP4", "dmr": D.render_dmr(root).decode(), "error": repr(e)[:300]})
            continue
        for v in vs:
            if not v.shape:
                continue
            key = v.path.lstrip("/")
            info = {"dmr": D.render_dmr(root).decode(), "variable": v.path}
            try:
                proxy = c4[key]
            except Exception as e:  # noqa
                direct.append(dict(info, law="a declared variable is a member of the opened dataset", error=repr(e)[:200]))
                continue
            if tuple(proxy.shape) != v.shape:
                direct.append(dict(info, law="the opened dataset declares the served shape", got=list(proxy.shape), want=list(v.shape)))
                continue
            for _ in range(3):
                idx = tuple(rng.choice(axis_items(n)) for n in v.shape)
                r.count(("dap4-index", i, v.path, repr(idx)))
                stats_ix["reads"] += 1
                read_and_compare(proxy, v.values, idx, info)
        # one variable opened with a hyperslab in the URL: [0:1:k] looks like 'no constraint' but bounds the axis
        ranked = [v for v in vs if v.shape]
        if ranked:
            v = rng.choice(ranked)
            pre = []
            for n in v.shape:
                if rng.random() < 0.6:
                    pre.append((0, 1, rng.randrange(n)))
                else:
                    a_ = rng.randrange(n)
                    pre.append((a_, rng.randint(1, 2), rng.randrange(a_, n)))
            slab = "".join("[%d:%d:%d]" % t for t in pre)
            base = v.values[tuple(slice(a_, b_ + 1, s_) for a_, s_, b_ in pre)]
            info = {"dmr": D.render_dmr(root).decode(), "variable": v.path, "url_constraint": slab}
            try:
                c5 = open_url("http://localhost:8001/?dap4.ce=/%s%s" % (v.path.lstrip("/"), slab), application=app4, protocol="dap4")
                proxy = c5[v.path.lstrip("/")]
                if tuple(proxy.shape) != base.shape:
                    direct.append(dict(info, law="a DAP4 dataset opened with a hyperslab declares the constrained shape",
                                       got=list(proxy.shape), want=list(base.shape)))
                else:
                    for idx in [tuple(slice(None) for _ in base.shape), tuple(slice(0, n) for n in base.shape),
                                tuple(rng.choice(axis_items(n)) for n in base.shape)]:
                        r.count(("dap4-index-pre", i, v.path, slab, repr(idx)))
                        stats_ix["reads_after_url_hyperslab"] += 1
                        stats_ix["whole_reads_after_url_hyperslab"] += all(x == slice(None) for x in idx)
                        read_and_compare(proxy, base, idx, info)
            except Exception as e:  # noqa
                direct.append(dict(info, law="dataset opens over DAP4 with a hyperslab in the URL", error=repr(e)[:300]))
    r.extra["indexing"] = stats_ix

    # large chunks: sizes beyond 2^16 (and beyond 2^17) exercise the 24-bit size field
    for little in (True, False):
        root = D.Node("big")
        big = D.Var("big", "Int32", [("anon", 300), ("anon", 150)], np.arange(45000, dtype="i4").reshape(300, 150) * 7919)
        small = D.Var("tail", "UInt16", [("anon", 3)], np.array([1, 65535, 258], "u2"))
        root.members += [big, small]
        vs = list(D.variables(root))
        ser = D.serialize([(v, v.values) for v in vs], little)
        payload = b"".join(x + c for x, c in ser)
        for sizes in ([], [70000, 66000], [65536], [131073, 1]):
            raw = D.respond(D.render_dmr(root), payload, little, sizes)
            res = decode_with_pydap(raw)
            r.count(("dap4-big", little, tuple(sizes)))
            okb = (res[0] != "raise" and res[0] == little and canon(res[1]["big"][2]) == canon(big.values)
                   and canon(res[1]["tail"][2]) == canon(small.values))
            if not okb:
                direct.append({"law": "decoded values equal the served ones (chunks larger than 2^16 bytes)", "little": little,
                               "chunk_sizes": sizes or [len(payload)], "got": str(res)[:200]})

    # regression probe of the fixed declaration-order defect
    root = D.Node("t")
    root.dims.append(("x", 2))
    a = D.Var("a", "Int16", [("named", "/x", 2)], np.array([1, 2], "i2"))
    g = D.Node("g")
    g.members.append(D.Var("b", "Int16", [("named", "/x", 2)], np.array([3, 4], "i2")))
    root.members += [a, g]
    vs = list(D.variables(root))
    ser = D.serialize([(v, v.values) for v in vs], True)
    raw = D.respond(D.render_dmr(root), b"".join(x + c for x, c in ser), True, [])
    res = decode_with_pydap(raw)
    if res[0] == "raise" or canon(res[1].get("a", (0, 0, np.array([])))[2]) != [1, 2]:
        direct.append({"law": "decoded values equal the served ones", "error": "root variable declared before a group gets the "
                       "group's values", "got": str(res)[:300]})

    groups = [("dap4", "chk_dap4", dec_cases, "list N * list var4 * option (bool * list (list value))"),
              ("spec4", "chk_spec4", spec_cases, "bool * list N * list (var4 * list value * list N) * list nat * list N")]
    mism = {}
    for name, chk, cases, ctype in groups:
        try:
            bad = coq_eval_mismatches(PID + "_" + name, IMPORTS, chk, cases, ctype, shard=60, ztype=True)
        except RuntimeError as e:
            r.violation({"kind": "correspondence-broken", "group": name, "error": str(e)[-1500:],
                         "theorem": "correspondence %s (model could not be evaluated)" % name}, found=False)
            bad = []
        mism[name] = [cases[i] for i in bad]
    r.extra["cases"] = {g[0]: len(g[2]) for g in groups}
    r.extra["mismatches"] = {k: len(v) for k, v in mism.items()}
    r.cov["rule"] = ("a case is (generated dataset, byte order, chunk partition); distinct = distinct triple; every case has >= 1 "
                     "variable and is non-trivial; datasets: all 10 atomic numeric types, rank 0-3, shared/anonymous dims, groups <= 3 deep, "
                     "root variables and groups interleaved in declaration order")
    r.sample({"dap4_case": dec_cases[0][:700]})

    if mism["spec4"]:
        r.violation({"kind": "spec-invalid", "what": "Gallina DAP4 SPEC encoder disagrees with the reference server",
                     "case": mism["spec4"][0][:2000], "theorem": "SPEC validation (response/payload)"}, found=False)
    for d in direct[:5]:
        r.violation(dict(d, kind="property-violated", how="pydap decoding of a reference-encoded response"), found=True)
    if not direct and mism["dap4"]:
        r.violation({"kind": "correspondence-broken",
                     "theorem": "correspondence of UNPACKDAP4DATA with the Gallina model unpack_dap4 (props/C10.v)",
                     "case": mism["dap4"][0][:3000], "n_mismatches": len(mism["dap4"])}, found=False)
    r.assumptions = [
        "the DMR text -> variable list (declaration order, type, element count) step is pydap's DMR parser (property C11); the model "
        "receives the declared variable list",
        "little-endian host (decode_chunktype branches on sys.byteorder)",
        "indexing over DAP4: a sample of index forms per generated variable here; the exhaustive index forms and the request text "
        "correspondence are the C02 check's",
    ]
    r.finish()


if __name__ == "__main__":
    import common
    common.run(main, PID)
