"""C02 - remote subsetting selects exactly what numpy indexing selects.
Proof: props/C02.v (index arithmetic for all sizes, composed from the C03 laws).
Correspondence of the plumbing: arrays and grids of rank 1-3 served by BaseHandler (DAP2) and by an independent reference
DAP4 server, opened with and without a hyperslab in the URL, indexed with every per-axis index form; result vs numpy on
the source; QUERY_STRING seen by the server vs the model's query text."""
import itertools
import random

import dap4ref as D
from common import Report, clist, coq_eval_mismatches, cz, proof_phase, use_repo

PID = "C02"
IMPORTS = "RemoteCases"


def c_item(it):
    if it is Ellipsis:
        return "IEllipsis"
    if isinstance(it, slice):
        def o(x):
            return "None" if x is None else "(Some %s)" % cz(x)
        return "(ISlice (mkSlice %s %s %s))" % (o(it.start), o(it.stop), o(it.step))
    return "(IInt %s)" % cz(int(it))


def keep(i):
    return slice(i, i + 1 or None) if isinstance(i, int) else i


def axis_forms(N, rng, full):
    forms = [slice(None)]
    ints = list(range(-N, N))
    bounds = [None] + list(range(-N, N + 3))
    slices = [slice(a, b, k) for a in bounds for b in bounds for k in (None, 1, 2, 3)]
    if full:
        return ints + slices
    # open-ended and overshooting forms are always there: they are where the bounds of a pre-sliced axis matter
    return (rng.sample(ints, min(len(ints), 2)) + rng.sample(slices, 4) + forms +
            [slice(1, None), slice(-min(2, N), None), slice(1, None, 2), slice(1, N + 2), slice(None, N + 3, 2)])   # bounds within [-N, N+3]


def expand(idx, rank):
    idx = list(idx)
    if Ellipsis in idx:
        p = idx.index(Ellipsis)
        idx = idx[:p] + [slice(None)] * (rank - (len(idx) - 1)) + idx[p + 1:]
    return idx + [slice(None)] * (rank - len(idx))


def main():
    r = Report(PID)
    rng = random.Random(r.seed)
    T = r.tier
    proof_phase(r, PID)
    use_repo()
    import numpy as np
    from pydap.client import open_url
    from pydap.handlers.lib import BaseHandler
    from pydap.model import BaseType, DatasetType, GridType, StructureType

    direct = []
    q_cases = []
    q4_cases = []
    stats = {"dap2_array": 0, "dap2_grid": 0, "dap4": 0, "with_url_constraint": 0}

    class Spy:
        def __init__(self, app):
            self.app, self.seen = app, []

        def __call__(self, environ, start_response):
            self.seen.append((environ.get("PATH_INFO"), environ.get("QUERY_STRING")))
            return self.app(environ, start_response)

    def check_array(tag, got, want, info):
        got = np.asarray(got)
        if got.shape != want.shape or not np.array_equal(got, want):
            if len(direct) < 12:
                direct.append(dict(info, law="remote index returns the numpy selection (integer axes kept as length-1 axes)",
                                   kind_of=tag, got=got.tolist() if got.size < 60 else str(got.shape), want=want.tolist()))
            return False
        return True

    ncfg = 10 if T == "quick" else 120
    for ci in range(ncfg):
        rank = rng.randint(1, 3)
        shape = tuple(rng.randint(1, 6) for _ in range(rank))
        src = (np.arange(int(np.prod(shape)), dtype="i4") * 3 + 1).reshape(shape)
        # the served array may be laid out in memory in any order (Fortran order, a transposed view): same shape, same values
        lay = rng.randrange(3)
        if len(shape) >= 2 and lay == 1:
            src = np.asfortranarray(src)
        elif len(shape) >= 2 and lay == 2:
            src = np.ascontiguousarray(src.swapaxes(0, 1)).swapaxes(0, 1)
        maps = [np.arange(n, dtype="f8") * 10 + k for k, n in enumerate(shape)]
        ds = DatasetType("d")
        ds["x"] = BaseType("x", src)
        g = GridType("g")
        g["a"] = BaseType("a", src, dims=tuple("m%d" % k for k in range(rank)))
        # (every other dataset declares the maps in another order than the axes of the array: a map belongs to the axis it names)
        for k in (range(rank) if ci % 2 == 0 else reversed(range(rank))):
            g["m%d" % k] = BaseType("m%d" % k, maps[k])
        ds["g"] = g
        # two structures whose members are namesakes
        for sn_, off_ in (("s1", 1000), ("s2", 2000)):
            st_ = StructureType(sn_)
            st_["t"] = BaseType("t", src + off_)
            ds[sn_] = st_
        spy = Spy(BaseHandler(ds))
        # URL pre-constraint [a:s:b] per axis (or none)
        for pre_on in (False, "whole", "prefix", "any"):
            if pre_on:
                pre = []
                mode = pre_on
                for n in shape:
                    if mode == "whole":          # keeps the whole axis: room for every later index form
                        pre.append((0, 1, n - 1))
                    elif mode == "prefix":       # [0:1:k]: looks like 'no constraint' but bounds the axis
                        pre.append((0, 1, rng.randrange(n)))
                    else:
                        a = rng.randrange(n)
                        b_ = rng.randrange(a, n)
                        pre.append((a, 1 if (a == b_ and rng.random() < 0.5) else rng.randint(1, 3), b_))
                def slab_text(t):
                    # the short forms a person writes by hand: [start:stop] when the stride is 1, [k] for one element
                    a_, s_, b_ = t
                    if a_ == b_ and s_ == 1 and rng.random() < 0.6:
                        return "[%d]" % a_
                    if s_ == 1 and rng.random() < 0.5:
                        return "[%d:%d]" % (a_, b_)
                    return "[%d:%d:%d]" % t
                # a hyperslab may name fewer axes than the variable has: the remaining axes are whole
                named = rng.randint(1, rank - 1) if rank >= 2 and rng.random() < 0.3 else rank
                pre = pre[:named] + [(0, 1, n - 1) for n in shape[named:]]
                slab = "".join(slab_text(t) for t in pre[:named])
                pre_np = tuple(slice(a, b + 1, s) for a, s, b in pre)
                stats["short_url_constraint"] = stats.get("short_url_constraint", 0) + (named < rank)
                stats["with_url_constraint"] += 1
            else:
                slab, pre_np, pre = "", tuple(slice(None) for _ in shape), None
            base = src[pre_np]
            mshape = base.shape
            # index tuples: per-axis forms (exhaustive per axis in thorough mode for rank 1, sampled products otherwise)
            per_axis = [axis_forms(n, rng, full=(T != "quick" and rank == 1) or (rank == 1 and ci < 3)) for n in mshape]
            idxs = set()
            for _ in range(40 if T == "quick" else 200):
                t = tuple(rng.choice(f) for f in per_axis)
                L = rng.randint(1, rank)
                cand = list(t[:L])
                if rng.random() < 0.3:
                    p = rng.randrange(len(cand) + 1)
                    cand = cand[:p] + [Ellipsis] + cand[p:]
                    # items after the Ellipsis address the last axes
                    tail = len(cand) - p - 1
                    for j in range(tail):
                        cand[p + 1 + j] = rng.choice(per_axis[rank - tail + j])
                    if len(cand) - 1 > rank:
                        continue
                idxs.add(tuple(cand))
            if rank == 1:
                for f in per_axis[0]:
                    idxs.add((f,))
            idxs = sorted(idxs, key=repr)
            for kind in ("array", "grid_on", "grid_off"):
                var = "x" if kind == "array" else "g"
                url = "http://localhost:8001/" + ("?%s%s" % (var, slab) if pre_on else "")
                twin = False
                if pre_on and kind == "array" and (ci in (2, 3) or rng.random() < 0.25):
                    # namesakes of two structures in one request, with the same hyperslab text: each is sliced
                    url = "http://localhost:8001/?s1.t%s,s2.t%s" % (slab, slab)
                    twin = True
                    stats["url_with_namesakes"] = stats.get("url_with_namesakes", 0) + 1
                elif pre_on and (ci < 2 or rng.random() < 0.25):
                    # the variable named once more, without a hyperslab: the hyperslab still holds
                    url += "," + var
                    stats["url_names_variable_twice"] = stats.get("url_names_variable_twice", 0) + 1
                try:
                    c = open_url(url, application=spy, output_grid=(kind == "grid_on"))
                except Exception as e:  # noqa
                    direct.append({"law": "dataset opens", "url": url, "error": repr(e)[:200]})
                    continue
                for idx in (idxs if kind == "array" or T != "quick" else idxs[:25]):
                    full = expand(idx, rank)
                    want = base[tuple(keep(i) for i in full)]
                    if want.size == 0:
                        continue            # the property speaks of non-empty selections
                    r.count((ci, pre_on, kind, repr(idx)))
                    info = {"shape": list(shape), "url_constraint": slab, "index": repr(idx), "variable": var, "output_grid": kind}
                    spy.seen = []
                    try:
                        key = idx if len(idx) != 1 or rng.random() < 0.5 else idx[0]
                        if rng.random() < 0.2:
                            # numpy integers are integers
                            key = (tuple(np.int64(i_) if type(i_) is int else i_ for i_ in key) if isinstance(key, tuple)
                                   else np.int64(key) if type(key) is int else key)
                        if kind == "array" and twin:
                            for sn_, off_ in (("s2", 2000), ("s1", 1000)):
                                check_array("namesake %s.t" % sn_, c[sn_]["t"].data[key], want + off_, dict(info, variable=sn_ + ".t", url=url))
                            stats["dap2_array"] += 1
                        elif kind == "array":
                            got = c["x"].data[key]
                            stats["dap2_array"] += 1
                            ok = check_array(kind, got, want, info)
                            # the query text that reached the server vs the model
                            qs = [q for p, q in spy.seen if p.endswith(".dods")]
                            if ok and qs and len(q_cases) < (400 if T == "quick" else 4000):
                                from urllib.parse import unquote
                                stored = ([slice(a, b + 1, s) for a, s, b in pre[:named]] + [slice(None)] * (rank - named)) if pre_on else [slice(None)] * rank
                                q_cases.append("(%s, %s, %s, %s)" % (
                                    clist(list(mshape), cz), clist(stored, c_item), clist(full, c_item),
                                    '"%s"%%string' % unquote(qs[-1])))
                        else:
                            # a map of the (pre-sliced) grid read on its own, with the index item of its axis
                            kax = rng.randrange(rank)
                            mgot = c["g"]["m%d" % kax][keep(full[kax])]
                            mwant = maps[kax][pre_np[kax]][keep(full[kax])]
                            check_array("grid map %d read directly (%s)" % (kax, kind), np.asarray(mgot.data if hasattr(mgot, "data") else mgot),
                                        mwant, info)
                            res = c["g"][key]
                            stats["dap2_grid"] += 1
                            if kind == "grid_off":
                                check_array(kind, res.data, want, info)
                                if rng.random() < 0.15:
                                    # switching the grid to output_grid afterwards gives the sliced maps, too
                                    c["g"].set_output_grid(True)
                                    res2 = c["g"][key]
                                    check_array("array after set_output_grid(True)", res2["a"].data, want, info)
                                    for k in range(rank):
                                        check_array("grid map %d after set_output_grid(True)" % k, res2["m%d" % k].data,
                                                    maps[k][pre_np[k]][keep(full[k])], info)
                                    c["g"].set_output_grid(False)
                            else:
                                check_array(kind, res["a"].data, want, info)
                                for k in range(rank):
                                    wm = maps[k][pre_np[k]][keep(full[k])]
                                    check_array("grid map %d" % k, res["m%d" % k].data, wm, info)
                                if rank >= 2 and (ci < 3 or rng.random() < 0.3):
                                    # a grid narrowed to its array and SOME of its maps (in any order), then sliced: every map
                                    # that is left is sliced along its own axis
                                    some = rng.sample(range(rank), rng.randint(1, rank))
                                    sub = c["g"][("a",) + tuple("m%d" % k for k in some)]
                                    res3 = sub[key]
                                    stats["narrowed_grid"] = stats.get("narrowed_grid", 0) + 1
                                    check_array("array of a narrowed grid", res3["a"].data, want, info)
                                    for k in some:
                                        check_array("map m%d of a grid narrowed to maps %r" % (k, some), res3["m%d" % k].data,
                                                    maps[k][pre_np[k]][keep(full[k])], info)
                    except Exception as e:  # noqa
                        if len(direct) < 12:
                            direct.append(dict(info, law="a non-empty in-domain index can be read", error=repr(e)[:300]))
        def dap4_query_case(ok, path, seen_shape, stored, full_idx):
            """the constraint the DAP4 proxy sent for /x vs the same Gallina model (fix_slice, combine_slices, hyperslab)"""
            q = app4.seen[-1][1]
            q = q.replace("dap4.ce=/", "dap4.ce=", 1)
            if ok and path == "x" and q.startswith("dap4.ce=x") and "&" not in q and len(q4_cases) < (300 if T == "quick" else 3000):
                q4_cases.append("(%s, %s, %s, %s)" % (clist(seen_shape, cz), clist(stored, c_item), clist(full_idx, c_item),
                                                      '"%s"%%string' % q[len("dap4.ce="):]))
        # ------------------------------------------------------------ DAP4 against the reference server
        root = D.Node("d4")
        v = D.Var("x", "Int32", [("anon", n) for n in shape], src)
        grp = D.Node("grp")
        w = D.Var("y", "Float64", [("anon", n) for n in shape], src.astype("f8") / 4)
        grp.members.append(w)
        root.members += [v, grp]
        app4 = D.Dap4App(root, little=rng.random() < 0.5, chunk_sizes=[rng.choice([3, 7, 64])] * 3, flag_all=rng.random() < 0.6)
        try:
            c4 = open_url("http://localhost:8001/", application=app4, protocol="dap4")
            for idx in rng.sample(idxs, min(len(idxs), 25 if T == "quick" else 120)):
                full = expand(idx, rank)
                for path, arr in (("x", src), ("grp/y", src.astype("f8") / 4)):
                    want = arr[tuple(keep(i) for i in full)]
                    if want.size == 0:
                        continue
                    r.count((ci, "dap4", path, repr(idx)))
                    stats["dap4"] += 1
                    try:
                        got = c4[path].data[idx if len(idx) != 1 else idx[0]]
                        ok4 = check_array("dap4 " + path, got, want, {"shape": list(shape), "index": repr(idx), "protocol": "dap4",
                                                                       "query": app4.seen[-1][1]})
                        dap4_query_case(ok4, path, list(shape), [slice(None)] * rank, full)
                    except Exception as e:  # noqa
                        if len(direct) < 12:
                            direct.append({"law": "a non-empty in-domain index can be read over DAP4", "index": repr(idx),
                                           "shape": list(shape), "variable": path, "error": repr(e)[:300]})
        except Exception as e:  # noqa
            direct.append({"law": "dataset opens over DAP4", "error": repr(e)[:300]})
        # DAP4 opened with a hyperslab in the URL: a history of reads on ONE proxy (the whole variable first, then parts of it)
        pre4 = []
        for n in shape:
            a_ = rng.randrange(n)
            pre4.append((a_, rng.randint(1, 2), rng.randrange(a_, n)))
        slab4 = "".join("[%d:%d:%d]" % t for t in pre4)
        pre4_np = tuple(slice(a_, b_ + 1, s_) for a_, s_, b_ in pre4)
        try:
            for path, arr in (("x", src), ("grp/y", src.astype("f8") / 4)):
                base4 = arr[pre4_np]
                c4 = open_url("http://localhost:8001/?dap4.ce=/%s%s" % (path, slab4), application=app4, protocol="dap4")
                proxy = c4[path]
                if tuple(proxy.shape) != base4.shape:
                    direct.append({"law": "a DAP4 dataset opened with a hyperslab declares the constrained shape", "url_constraint": slab4,
                                   "shape": list(shape), "got": list(proxy.shape), "want": list(base4.shape)})
                    continue
                forms = [axis_forms(n, rng, full=False) for n in base4.shape]
                hist = [tuple(slice(None) for _ in base4.shape)] if rng.random() < 0.7 else []
                for _ in range(4):
                    hist.append(tuple(rng.choice(f) for f in forms))
                for idx in hist:
                    want = base4[tuple(keep(i) for i in expand(idx, rank))]
                    if want.size == 0:
                        continue
                    stats["dap4"] += 1
                    stats["with_url_constraint"] += 1
                    r.count((ci, "dap4-pre", path, slab4, repr(idx)))
                    try:
                        got = proxy.data[idx if len(idx) != 1 else idx[0]]
                        ok4 = check_array("dap4 (URL hyperslab) " + path, got, want,
                                          {"shape": list(shape), "url_constraint": slab4, "index": repr(idx), "protocol": "dap4",
                                           "history": [repr(h) for h in hist], "query": app4.seen[-1][1]})
                        dap4_query_case(ok4, path, list(base4.shape), [slice(a_, b_ + 1, s_) for a_, s_, b_ in pre4], expand(idx, rank))
                    except Exception as e:  # noqa
                        if len(direct) < 12:
                            direct.append({"law": "a non-empty in-domain index can be read over DAP4 (URL hyperslab)", "index": repr(idx),
                                           "shape": list(shape), "url_constraint": slab4, "variable": path, "error": repr(e)[:300]})
        except Exception as e:  # noqa
            direct.append({"law": "dataset opens over DAP4 with a hyperslab in the URL", "url_constraint": slab4, "error": repr(e)[:300]})
    r.extra["reads"] = stats

    # ---- grids narrowed to some maps (any order) and sliced: which positions every listed map holds, vs the Gallina model of the
    # index branch of GridType.__getitem__ (model/GridSel.v) and vs numpy on the map of the axis that bears the name
    def cchars(t):
        b = t.encode("utf-8")
        return "[%s]" % ";".join("ascii_of_nat %d" % x for x in b) if b else "[]"
    from pydap.lib import _quote
    g_cases, g_stats = [], {"grids": 0, "narrowed": 0, "unnamed_or_repeated_dims": 0, "remote": 0}
    u_cases = []
    DIMPOOL = ["m0", "m1", "m2", "lat deg", "x[1]", "t-z", "lon"]
    for gi in range(150 if T == "quick" else 2000):
        rank = rng.randint(1, 3)
        shape = tuple(rng.randint(1, 6) for _ in range(rank))
        mode = rng.choice(["named", "named", "named", "none", "repeated"]) if gi >= 4 else "named"
        dimn = rng.sample(DIMPOOL, rank)
        if mode == "repeated" and rank >= 2:
            dimn[1] = dimn[0]
        dims = () if mode == "none" else tuple(dimn)
        g_stats["unnamed_or_repeated_dims"] += mode != "named" or len(set(dims)) != rank
        mapnames = list(dimn) if len(set(dimn)) == rank else ["k%d" % k for k in range(rank)]
        dsg = DatasetType("d")
        gg = GridType("g")
        gg["a"] = BaseType("a", np.arange(int(np.prod(shape)), dtype="i4").reshape(shape), dims=dims)
        # (with usable dimension names the maps may be DECLARED in any order: a map belongs to the axis it names)
        decl_order = list(range(rank))
        if mode == "named" and len(set(dims)) == rank and rng.random() < 0.6:
            rng.shuffle(decl_order)
        for k in decl_order:
            gg[mapnames[k]] = BaseType(mapnames[k], np.arange(shape[k], dtype="i4"))
        dsg["g"] = gg
        # (names with brackets are not used over the wire: the projection grammar reads them as hyperslabs)
        # (a Grid whose array carries no dimension names, or repeated ones, is not a DAP2 Grid: such grids stay local)
        remote = rng.random() < 0.4 and not any("[" in n_ for n_ in dimn) and mode == "named" and len(set(dims)) == rank
        if remote:
            try:
                gobj = open_url("http://localhost:8001/", application=BaseHandler(dsg), output_grid=True)["g"]
            except Exception as e:  # noqa
                direct.append({"law": "dataset opens", "error": repr(e)[:200]})
                continue
            g_stats["remote"] += 1
            # the same grid opened with a hyperslab in the URL: the hyperslab found on the proxy of every map vs the model's pairing
            pre_g = []
            for n_ in shape:
                a_ = rng.randrange(n_)
                pre_g.append((a_, rng.randint(1, 2), rng.randrange(a_, n_)))
            try:
                cg = open_url("http://localhost:8001/?g" + "".join("[%d:%d:%d]" % t_ for t_ in pre_g), application=BaseHandler(dsg),
                              output_grid=True)["g"]
                decl = list(cg.maps.keys())
                obs_u = []
                for m_ in decl:
                    sl_ = cg[m_].data.slice[0]
                    obs_u.append("(Some (ISlice (mkSlice (Some %d) (Some %d) (Some %d))))" % (sl_.start, sl_.stop, sl_.step or 1))
                    kk = [_quote(x_) for x_ in mapnames].index(m_)
                    want_u = np.arange(shape[kk])[pre_g[kk][0]:pre_g[kk][2] + 1:pre_g[kk][1]].tolist()
                    got_u = np.asarray(cg[m_].data[:]).tolist()
                    if got_u != want_u and len(direct) < 12:
                        direct.append({"law": "a grid opened with a hyperslab in the URL returns its maps sliced along the matching axes",
                                       "dims": list(dims), "maps_declared": decl, "url_hyperslab": pre_g, "map": m_, "got": got_u, "want": want_u})
                u_cases.append("(%s, %s, %s, [%s])" % (
                    clist(list(dims), cchars),
                    clist([slice(a_, b_ + 1, s_) for a_, s_, b_ in pre_g], c_item), clist(decl, cchars), "; ".join(obs_u)))
                g_stats["opened_with_url_hyperslab"] = g_stats.get("opened_with_url_hyperslab", 0) + 1
            except Exception as e:  # noqa
                direct.append({"law": "a grid can be opened with a hyperslab in the URL", "dims": list(dims), "error": repr(e)[:200]})
        else:
            gobj = gg
        listed = list(range(rank))
        if gi < 4 or rng.random() < 0.6:
            listed = rng.sample(range(rank), rng.randint(1 if gi < 4 else 0, rank))
            gobj = gobj[("a",) + tuple(mapnames[k] for k in listed)]
            g_stats["narrowed"] += 1
        per_axis = [axis_forms(n, rng, full=False) for n in shape]
        for _ in range(3):
            idx = [rng.choice(f) for f in per_axis][:rng.randint(1, rank)]
            if rng.random() < 0.25:
                pz = rng.randrange(len(idx) + 1)
                idx = idx[:pz] + [Ellipsis] + idx[pz:]
                if len(idx) - 1 > rank:
                    continue
                tail = len(idx) - pz - 1
                for j in range(tail):
                    idx[pz + 1 + j] = rng.choice(per_axis[rank - tail + j])
            g_stats["grids"] += 1
            r.count(("grid-maps", gi, repr(idx), tuple(listed), mode, remote))
            info = {"shape": list(shape), "dims": list(dims), "listed_maps": [mapnames[k] for k in listed], "index": repr(idx),
                    "remote": remote}
            try:
                resg = gobj[tuple(idx)]
                obs = [np.asarray(resg[mapnames[k]].data).reshape(-1).tolist() for k in listed]
            except Exception as e:  # noqa
                obs = None
                info["error"] = repr(e)[:200]
            # direct oracle: with usable names the map of axis k holds what numpy selects from arange(shape[k]) with item k
            full = expand(idx, rank)
            if mode == "named" and len(set(dims)) == rank or listed == sorted(listed) and listed == list(range(len(listed))):
                want_m = [np.arange(shape[k])[keep(full[k])].reshape(-1).tolist() for k in listed]
                if obs != want_m and len(direct) < 12:
                    direct.append(dict(info, law="a sliced grid returns its maps sliced along the matching axes", got=obs, want=want_m))
            g_cases.append("(%s, %s, %s, %s, %s)" % (
                clist(list(shape), cz), clist(list(dims), cchars), clist(idx, c_item),
                clist([(_quote(mapnames[k]), shape[k]) for k in listed], lambda p_: "(%s, %s)" % (cchars(p_[0]), cz(p_[1]))),
                "None" if obs is None else "(Some %s)" % clist(obs, lambda l_: clist(l_, cz))))
    r.extra["grid_maps"] = g_stats
    try:
        badg = coq_eval_mismatches(PID + "_grid", "GridSelCases", "chk_grid", g_cases,
                                   "list Z * list chars * list item * list (chars * Z) * option (list (list Z))", shard=200)
    except RuntimeError as e:
        r.violation({"kind": "correspondence-broken", "error": str(e)[-1500:], "theorem": "grid map pairing correspondence"}, found=False)
        badg = []
    try:
        badu = coq_eval_mismatches(PID + "_urlmaps", "GridSelCases", "chk_url_maps", u_cases,
                                   "list chars * list item * list chars * list (option item)", shard=200)
    except RuntimeError as e:
        r.violation({"kind": "correspondence-broken", "error": str(e)[-1500:], "theorem": "URL hyperslab / map pairing correspondence"}, found=False)
        badu = []
    if not direct and badu:
        r.violation({"kind": "correspondence-broken", "theorem": "hyperslabs add_dap2_proxies stores on the maps of a pre-constrained grid vs "
                     "the Gallina pairing (model/GridSel.v pair_maps)", "case": u_cases[badu[0]], "n_mismatches": len(badu)}, found=False)
    if not direct and badg:
        r.violation({"kind": "correspondence-broken", "theorem": "index branch of GridType.__getitem__ vs the Gallina model (model/GridSel.v, "
                     "C02_grid_maps_follow_their_axes)", "case": g_cases[badg[0]], "n_mismatches": len(badg)}, found=False)

    try:
        bad = coq_eval_mismatches(PID + "_query", IMPORTS, "chk_query", q_cases,
                                  "list Z * list item * list item * string", shard=200)
    except RuntimeError as e:
        r.violation({"kind": "correspondence-broken", "error": str(e)[-1500:], "theorem": "query text correspondence"}, found=False)
        bad = []
    try:
        bad4 = coq_eval_mismatches(PID + "_query4", IMPORTS, "chk_query", q4_cases, "list Z * list item * list item * string", shard=200)
    except RuntimeError as e:
        r.violation({"kind": "correspondence-broken", "error": str(e)[-1500:], "theorem": "DAP4 query text correspondence"}, found=False)
        bad4 = []
    r.extra["cases"] = {"query": len(q_cases), "dap4_query": len(q4_cases)}
    r.extra["mismatches"] = {"query": len(bad), "dap4_query": len(bad4), "grid_maps": len(badg)}
    r.extra["cases"]["grid_maps"] = len(g_cases)
    r.extra["cases"]["url_hyperslab_map_pairing"] = len(u_cases)
    r.extra["mismatches"]["url_hyperslab_map_pairing"] = len(badu)
    r.cov["rule"] = ("a case is (shape of rank 1-3 with extents 1-6, URL pre-constraint or none, variable kind array/grid with output_grid "
                     "on/off or DAP4 variable in root/group, index tuple built from per-axis forms incl. negatives, out-of-range bounds, "
                     "Ellipsis, short tuples) with a non-empty numpy selection; distinct = distinct tuple")
    if q_cases:
        r.sample({"query_case": q_cases[0]})
    for d in direct[:5]:
        r.violation(dict(d, kind="property-violated", how="real client vs numpy on the source array"), found=True)
    if not direct and bad4:
        r.violation({"kind": "correspondence-broken", "theorem": "constraint sent by BaseProxyDap4 vs the Gallina model (props/C02.v)",
                     "case": q4_cases[bad4[0]], "n_mismatches": len(bad4)}, found=False)
    if not direct and bad:
        r.violation({"kind": "correspondence-broken", "theorem": "query text sent by BaseProxyDap2 vs the Gallina model (props/C02.v)",
                     "case": q_cases[bad[0]], "n_mismatches": len(bad)}, found=False)
    r.assumptions = [
        "server-side slicing of the parsed hyperslab is numpy basic indexing (apply_projection / Arrayterator), exercised end to end",
        "the slice kernels are those of C03 (proved there, validated against the code by the C03 check)",
    ]
    r.finish()


if __name__ == "__main__":
    import common
    common.run(main, PID)
