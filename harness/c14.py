"""C14 - deriving or reading a remote selection never alters other client objects.
Proof: props/C14.v.  Correspondence: histories of derive/read operations {seq[cols], seq[cond], seq[a:b], seq[int], seq[name],
read, re-read, array[index], grid[index]} applied to arbitrary earlier results of one opened dataset, over a recording
transport; after every step every earlier object is re-read and must return what it returned before and what the
by-name reference gives; the request each derived sequence sends is compared with the Gallina proxy model."""
import random
import re
from urllib.parse import unquote, urlsplit

import transport as TR
from common import Report, clist, coq_eval_mismatches, cz, proof_phase, use_repo

PID = "C14"
IMPORTS = "ProxyCases"
COQOPS = {">": "RGt", ">=": "RGe", "<": "RLt", "<=": "RLe", "=": "REq", "!=": "RNe"}
HD = ["a", "b", "c"]
ROWS = [(1, 20, 300), (2, 10, 100), (3, 30, 200), (4, 10, 400), (5, 50, 100)]


def cs(s):
    return '"%s"%%string' % s


def c_slice(s):
    def o(x):
        return "None" if x is None else "(Some %s)" % cz(x)
    return "(mkSlice %s %s %s)" % (o(s.start), o(s.stop), o(s.step))


def c_pop(op):
    k = op[0]
    if k == "cols":
        return "(PCols %s)" % clist(op[1], cs)
    if k == "child":
        return "(PChild %s)" % cs(op[1])
    if k == "cond":
        _, c, o, rhs = op
        return "(PCond %s %s %s)" % (cs(c), COQOPS[o], ("(OColumn %s)" % cs(rhs)) if isinstance(rhs, str) else "(OConst %s)" % cz(rhs))
    if k == "slice":
        return "(PSlice %s)" % c_slice(op[1])
    return "(PInt %s)" % cz(op[1])


def parse_query(q):
    """QUERY_STRING of a sequence read -> (columns, range slice, clauses) in the model's vocabulary"""
    q = unquote(q)
    parts = q.split("&")
    proj, sel = parts[0], [p for p in parts[1:] if p]
    cols, rng = [], slice(None, None, None)
    for item in proj.split(","):
        m = re.match(r"^q(\[[^\]]*\])?(?:\.(\w+))?$", item)
        if not m:
            return None
        if m.group(1):
            t = [int(x) for x in m.group(1)[1:-1].split(":")]
            rng = slice(t[0], t[-1] + 1, t[1] if len(t) == 3 else 1)
        if m.group(2):
            cols.append(m.group(2))
    if not cols:
        cols = list(HD)
    clauses = []
    for c in sel:
        m = re.match(r"^q\.(\w+)(<=|>=|!=|=|<|>)(.*)$", c)
        if not m:
            return None
        rhs = m.group(3)
        clauses.append((m.group(1), m.group(2), rhs[2:] if rhs.startswith("q.") else int(rhs)))
    return cols, rng, clauses


def reference(ops):
    import operator
    PY = {">": operator.gt, ">=": operator.ge, "<": operator.lt, "<=": operator.le, "=": operator.eq, "!=": operator.ne}
    kept = []
    for row in ROWS:
        env = dict(zip(HD, row))
        if all(PY[o](env[c], env[rhs] if isinstance(rhs, str) else rhs) for k, c, o, rhs in [x for x in ops if x[0] == "cond"]):
            kept.append(env)
    cols, single = list(HD), False
    for op in ops:
        if op[0] == "cols":
            cols = list(op[1])
        elif op[0] == "child":
            cols, single = [op[1]], True
    out = [[env[c] for c in cols] for env in kept]
    for op in ops:
        if op[0] == "slice":
            out = out[op[1]]
        elif op[0] == "int":
            out = out[op[1]:op[1] + 1]
    return out


def build_app(gzip=False):
    import numpy as np
    from pydap.handlers.lib import BaseHandler
    from pydap.model import BaseType, DatasetType, GridType, SequenceType
    ds = DatasetType("d")
    sq = SequenceType("q")
    for c in HD:
        sq[c] = BaseType(c)
    # columns of different wire types (Int32, Float64, Int32): two selections of the same length then differ position by position
    sq.data = np.array(ROWS, dtype=[(c, "f8" if k == 1 else "i4") for k, c in enumerate(HD)])
    ds["q"] = sq
    ds["x"] = BaseType("x", np.arange(12, dtype="i4").reshape(3, 4))
    g = GridType("g")
    g["v"] = BaseType("v", np.arange(6, dtype="f8").reshape(2, 3), dims=("m0", "m1"))
    g["m0"] = BaseType("m0", np.array([10.0, 20.0]))
    g["m1"] = BaseType("m1", np.array([1.0, 2.0, 3.0]))
    ds["g"] = g
    return BaseHandler(ds, gzip=gzip)


def run_histories(r, rng, T, make_session, direct, req_cases, on_request=None):
    """shared by C14 and C18: returns the number of histories"""
    import numpy as np
    from pydap.client import open_url
    nh = 30 if T == "quick" else 400
    for hi in range(nh):
        # a compressed body reaches the client in blocks not aligned to records (the first four histories: both settings, whatever the seed)
        app = build_app(gzip=(hi % 2 == 0) if hi < 4 else rng.random() < 0.4)
        sess, adapter = make_session(app)
        if sess is None:          # the in-process mode: open_url(url, application=app), no session at all
            ds = open_url(TR.BASE + "/d", application=adapter, protocol="dap2", output_grid=True)
        else:
            ds = open_url(TR.BASE + "/d", session=sess, protocol="dap2", output_grid=True)
        objs = [("seq", ds["q"], [])]          # (kind, object, operation chain)
        arrays = [("arr", ds["x"], ()), ("grid", ds["g"], ())]
        first_reads = {}
        held = []
        L = rng.randint(3, 8)
        forced = []
        if hi < 4:
            # scripted opening: two reads of the SAME object that overlap in time - consumed in lock step, then one suspended after
            # its first record while another one runs to its end
            forced = [("overlap", ("same",)), ("overlap", ("suspend",))]
        elif rng.random() < 0.3:
            # scripted opening: select columns by a list, derive once more, then ask for a column the selection left out
            sub = rng.sample(HD, rng.randint(1, 2))
            forced = [("cols", ("cols", tuple(sub))), (rng.choice(["cond", "slice"]), None),
                      ("child", ("child", rng.choice([c for c in HD if c not in sub])))]
        elif rng.random() < 0.3:
            # scripted opening: one condition object kept by the caller and grown in place between two selections
            forced = [("cond", ("cond", "a", ">=", 1)), ("cond&=", ("cond", "b", rng.choice([">", "<"]), rng.choice([10, 20, 30])))]
        for step in range(L):
            kind = rng.choice(["cols", "cols", "cond", "slice", "int", "child", "read", "read", "array", "grid", "overlap"])
            op_forced = None
            if forced:
                kind, op_forced = forced.pop(0)
            if kind == "overlap":
                # reads that overlap in time: one abandoned after its first record, or two consumed in lock step
                try:
                    o1 = rng.choice(objs)
                    o2 = rng.choice(objs)
                    if op_forced:
                        o1 = o2 = objs[0]
                    if op_forced and op_forced[0] == "suspend":
                        it = iter(o1[1].iterdata())
                        first = [next(it)]
                        whole = [[int(x) for x in v] for v in o1[1].iterdata()]
                        resumed = [[int(x) for x in v] for v in first + list(it)]
                        w1 = reference(o1[2])
                        if whole != w1 or resumed != w1:
                            direct.append({"law": "a read suspended after its first record and resumed after another read of the same object "
                                                  "returns what it returns alone", "chain": repr(o1[2]), "whole": whole, "resumed": resumed,
                                           "want": w1, "history": hi})
                    elif not op_forced and rng.random() < 0.5:
                        it = iter(o1[1].iterdata())
                        next(it, None)
                        del it
                    else:
                        def rows_of(o, recs):
                            if any(x[0] == "child" for x in o[2]):
                                return [[int(np.asarray(v).item())] for v in recs]
                            return [[int(x) for x in v] for v in recs]
                        pairs = list(zip(o1[1].iterdata(), o2[1].iterdata()))
                        g1, g2 = rows_of(o1, [p[0] for p in pairs]), rows_of(o2, [p[1] for p in pairs])
                        w1, w2 = reference(o1[2]), reference(o2[2])
                        n_ = min(len(w1), len(w2))
                        if g1 != w1[:n_] or g2 != w2[:n_]:
                            direct.append({"law": "two reads consumed in lock step return what each returns alone", "chains": [repr(o1[2]), repr(o2[2])],
                                           "got": [g1, g2], "want": [w1[:n_], w2[:n_]], "history": hi})
                except Exception as e:  # noqa
                    if reference(o1[2]) and reference(o2[2]):
                        direct.append({"law": "overlapping reads", "chains": [repr(o1[2]), repr(o2[2])], "error": repr(e)[:200]})
                r.count((hi, step, "overlap"))
                kind = "read"
            if kind in ("array", "grid"):
                idx = rng.choice([(slice(None),), (slice(0, 2), slice(1, None)), (1,), (Ellipsis, slice(None, None, 2)), (0, 1)])
                try:
                    if kind == "array":
                        got = np.asarray(ds["x"].data[idx if len(idx) > 1 else idx[0]])
                        src = np.arange(12, dtype="i4").reshape(3, 4)
                    else:
                        got = np.asarray(ds["g"][idx if len(idx) > 1 else idx[0]]["v"].data)
                        src = np.arange(6, dtype="f8").reshape(2, 3)
                    want = src[tuple(slice(i, i + 1 or None) if isinstance(i, int) else i for i in idx)]
                    # a read hands out a NEW object: scribbling on it must not show up in the next read of the same region
                    first = got
                    got = first.copy()
                    if first.size and first.flags.writeable:
                        first[...] = -77
                    if kind == "array":
                        again = ds["x"].data[idx if len(idx) > 1 else idx[0]]
                    else:
                        again = ds["g"][idx if len(idx) > 1 else idx[0]]["v"].data
                    if again is first or np.shares_memory(np.asarray(again), first) or not np.array_equal(np.asarray(again), want):
                        direct.append({"law": "reading a remote variable returns a new object; earlier results and later reads do not alias",
                                       "index": repr(idx), "kind": kind, "reread": np.asarray(again).tolist(), "want": want.tolist(),
                                       "history": hi})
                    if got.shape != want.shape or not np.array_equal(got, want):
                        direct.append({"law": "array / grid read returns the numpy selection, whatever was read before",
                                       "index": repr(idx), "got": got.tolist(), "want": want.tolist(), "history": hi})
                except Exception as e:  # noqa
                    direct.append({"law": "array / grid read", "index": repr(idx), "error": repr(e)[:200]})
                r.count((hi, step, kind, repr(idx)))
                continue
            j = rng.randrange(len(objs)) if not (op_forced or forced) or step == 0 else len(objs) - 1
            okind, obj, chain = objs[j]
            single = any(o[0] == "child" for o in chain)
            cur = list(HD)
            for o in chain:
                if o[0] == "cols":
                    cur = list(o[1])
                elif o[0] == "child":
                    cur = [o[1]]
            if kind == "read":
                pass
            else:
                if kind in ("cols", "child", "cond", "cond&=") and single:
                    continue
                ops_added = None
                try:
                    if kind == "cols":
                        op = op_forced or ("cols", tuple(rng.sample(cur, rng.randint(1, len(cur)))))
                        lst = list(op[1])
                        new = obj[lst]
                        lst.reverse()          # what the caller does with its own list afterwards is the caller's business
                        lst.append("zz")
                    elif kind == "child":
                        # mostly a visible column; sometimes one an earlier column selection left out (it is still a child)
                        op = op_forced or ("child", rng.choice(cur if rng.random() < 0.7 else HD))
                        new = obj[op[1]]
                    elif kind in ("cond", "cond&="):
                        c = rng.choice(HD)
                        o = rng.choice(list(COQOPS))
                        rhs = rng.choice([rng.randint(0, 60), rng.choice(HD)])
                        op = op_forced or ("cond", c, o, rhs)
                        _, c, o, rhs = op
                        left = ds["q"][c]
                        right = ds["q"][rhs] if isinstance(rhs, str) else rhs
                        ce = {">": left > right, ">=": left >= right, "<": left < right, "<=": left <= right, "=": left == right,
                              "!=": left != right}[o]
                        if held and (kind == "cond&=" or rng.random() < 0.4):
                            # the caller keeps ONE condition and accumulates into it: f &= g; q[f]
                            f, fops = held[0]
                            f &= ce
                            new = obj[f]
                            ops_added = fops + [op]
                            held[0] = (f, ops_added)
                        else:
                            new = obj[ce]
                            held[:] = [(ce, [op])]
                    elif kind == "slice":
                        op = ("slice", slice(rng.choice([None, 0, 1, 2]), rng.choice([None, 0, 1, 3, 9]), rng.choice([None, 1, 2])))
                        new = obj[op[1]]
                    else:
                        op = ("int", rng.randint(0, 3))
                        new = obj[op[1]]
                except Exception as e:  # noqa
                    direct.append({"law": "a derivation returns a new object", "op": repr((kind,)), "chain": repr(chain), "error": repr(e)[:200]})
                    continue
                if new is obj:
                    direct.append({"law": "a derivation returns a NEW object", "chain": repr(chain), "op": repr(op)})
                objs.append(("seq", new, chain + (ops_added or [op])))
                r.count((hi, step, repr(chain + (ops_added or [op]))))
            # after every step: re-read EVERY object obtained so far
            for k, (okind2, o2, ch2) in enumerate(objs):
                sg = any(o[0] == "child" for o in ch2)
                adapter.seen.clear()
                try:
                    recs = list(o2.iterdata())
                    if sg:
                        got = [[int(np.asarray(v).item())] for v in recs]
                    else:
                        got = [[int(x) for x in v] for v in recs]
                except Exception as e:  # noqa
                    direct.append({"law": "an earlier object can still be read", "chain": repr(ch2), "after_steps": step + 1,
                                   "error": repr(e)[:200]})
                    continue
                if not sg and (hi < 2 or rng.random() < 0.3):
                    # the records taken from the proxy itself and KEPT until the pass is over: each is an object of its own
                    try:
                        kept = list(iter(o2.data))
                        got_kept = [[int(x) for x in v] for v in kept]
                        if got_kept != got:
                            direct.append({"law": "records obtained from one read are objects of their own: a later record leaves the ones "
                                                  "obtained before unchanged", "chain": repr(ch2), "kept_records": got_kept, "rows": got})
                    except Exception as e:  # noqa
                        direct.append({"law": "an earlier object can still be read (records of the proxy)", "chain": repr(ch2),
                                       "error": repr(e)[:200]})
                want = reference(ch2)
                if got != want:
                    direct.append({"law": "a derived object reads what a fresh client applying the same selection reads, and keeps doing so",
                                   "chain": repr(ch2), "after_step": step + 1, "got": got, "want": want, "history": hi})
                key = (hi, k)
                if key in first_reads and first_reads[key] != got:
                    direct.append({"law": "an earlier object keeps returning what it returned before", "chain": repr(ch2),
                                   "first": first_reads[key], "now": got, "after_step": step + 1})
                first_reads.setdefault(key, got)
                reqs = [u for m, u in adapter.seen if ".dods" in u]
                if on_request:
                    on_request(adapter, sess)
                vis_, hidden_child = list(HD), False
                for o_ in ch2:
                    if o_[0] == "cols":
                        vis_ = list(o_[1])
                    elif o_[0] == "child":
                        hidden_child = hidden_child or o_[1] not in vis_
                # (the request model is stated for selections of visible columns)
                if reqs and not hidden_child and len(req_cases) < (500 if T == "quick" else 5000):
                    pq = parse_query(urlsplit(reqs[-1]).query)
                    if pq is not None:
                        cols, rng_, cls = pq
                        obs = "(Some (%s, %s, %s))" % (clist(cols, cs), c_slice(rng_), clist(cls, lambda c: "(%s, %s, %s)" % (
                            cs(c[0]), COQOPS[c[1]], ("(OColumn %s)" % cs(c[2])) if isinstance(c[2], str) else "(OConst %s)" % cz(c[2]))))
                        req_cases.append("(%s, %s, %s)" % (clist(HD, cs), clist(ch2, c_pop), obs))
    return nh


class Recorder:
    """WSGI middleware standing where the session adapter stands: records (method, url) of every request in .seen"""

    def __init__(self, app):
        self.app, self.seen = app, []

    def __call__(self, environ, start_response):
        q = environ.get("QUERY_STRING", "")
        self.seen.append((environ.get("REQUEST_METHOD", "GET"), TR.BASE + environ.get("PATH_INFO", "") + ("?" + q if q else "")))
        return self.app(environ, start_response)


def main():
    r = Report(PID)
    rng = random.Random(r.seed)
    T = r.tier
    proof_phase(r, PID)
    use_repo()
    direct, req_cases = [], []
    calls = []

    def some_transport(app):
        # a session mounted on the application, or the application itself (webob hands the body over in the server's own blocks);
        # the first four histories: in process, in process, session, session (x gzip on / off, see run_histories)
        calls.append(1)
        if len(calls) <= 4:
            return (None, Recorder(app)) if len(calls) <= 2 else TR.plain_session(app)
        return TR.plain_session(app) if rng.random() < 0.5 else (None, Recorder(app))
    nh = run_histories(r, rng, T, some_transport, direct, req_cases)
    r.extra["histories"] = nh
    # ---- a dataset WITHOUT any sequence (arrays and a grid only): read histories on one long-lived application - every read returns
    # the numpy selection of the source, whatever was read before
    import numpy as np
    from pydap.client import open_url
    from pydap.handlers.lib import BaseHandler
    from pydap.model import BaseType, DatasetType, GridType
    src_x = np.arange(24, dtype="i4").reshape(4, 6)
    src_v = np.arange(6, dtype="f8").reshape(2, 3)
    n_arr = 0
    for ai in range(6 if T == "quick" else 60):
        ds2 = DatasetType("d2")
        ds2["x"] = BaseType("x", src_x.copy())
        g2 = GridType("g")
        g2["v"] = BaseType("v", src_v.copy(), dims=("m0", "m1"))
        g2["m0"] = BaseType("m0", np.array([10.0, 20.0]))
        g2["m1"] = BaseType("m1", np.array([1.0, 2.0, 3.0]))
        ds2["g"] = g2
        app2 = BaseHandler(ds2, gzip=ai % 2 == 1)
        c2 = open_url("http://localhost:8001/d2", application=app2, output_grid=False)
        reads = [(slice(0, 2), slice(1, 3)), (slice(None),), (1,), (Ellipsis, slice(None, None, 2)), (slice(2, None), slice(0, 1)),
                 (slice(None), slice(None))]
        if ai >= 2:
            rng.shuffle(reads)
        for k_, idx in enumerate(reads):
            n_arr += 1
            r.count(("arrays-only", ai, k_, repr(idx)))
            try:
                gx = np.asarray(c2["x"].data[idx if len(idx) > 1 else idx[0]])
                wx = src_x[tuple(slice(i_, i_ + 1) if isinstance(i_, int) else i_ for i_ in idx)]
                iv = idx if len(idx) <= 2 and all(not isinstance(i_, int) or i_ < 2 for i_ in idx) else (slice(None),)
                gv = np.asarray(c2["g"][iv if len(iv) > 1 else iv[0]].data)
                wv = src_v[tuple(slice(i_, i_ + 1) if isinstance(i_, int) else i_ for i_ in iv)]
                if gx.shape != wx.shape or not np.array_equal(gx, wx) or gv.reshape(-1).tolist() != wv.reshape(-1).tolist():
                    direct.append({"law": "a read of an array / grid of a dataset without sequences returns the numpy selection of the source, "
                                          "whatever was read before on the same application", "history": [repr(x_) for x_ in reads[:k_ + 1]],
                                   "got_x": gx.tolist(), "want_x": wx.tolist(), "got_v": gv.tolist(), "want_v": wv.tolist()})
                    break
            except Exception as e:  # noqa
                direct.append({"law": "a read of an array / grid of a dataset without sequences is answered", "index": repr(idx),
                               "history": [repr(x_) for x_ in reads[:k_ + 1]], "error": repr(e)[:200]})
                break
    r.extra["array_only_reads"] = n_arr
    try:
        bad = coq_eval_mismatches(PID + "_req", IMPORTS, "chk_request", req_cases,
                                  "list cname * list pop * option (list cname * slice * list (cname * relop * operand))", shard=200)
    except RuntimeError as e:
        r.violation({"kind": "correspondence-broken", "error": str(e)[-1500:], "theorem": "request correspondence"}, found=False)
        bad = []
    r.extra["cases"] = {"request": len(req_cases)}
    r.extra["mismatches"] = {"request": len(bad)}
    r.cov["rule"] = ("a case is (history of 3-8 derive/read operations applied to arbitrary earlier results of one opened dataset, step); "
                     "after every step every object obtained so far is re-read; distinct = distinct (history, step, chain)")
    if req_cases:
        r.sample({"request_case": req_cases[0]})
    seen = set()
    for d in direct:
        if d["law"] in seen:
            continue
        seen.add(d["law"])
        if len(seen) <= 5:
            r.violation(dict(d, kind="property-violated", how="real client objects over a recording transport"), found=True)
    if not direct and bad:
        r.violation({"kind": "correspondence-broken", "theorem": "request sent by a derived SequenceProxy vs the Gallina proxy model (props/C14.v)",
                     "case": req_cases[bad[0]], "n_mismatches": len(bad)}, found=False)
    r.assumptions = [
        "value-level proxy model: separation of objects holds by construction in the model and is what the histories test on the real objects",
        "the server side of a request is the reference filter of C04 (theorem C04) - exercised here through BaseHandler",
    ]
    r.finish()


if __name__ == "__main__":
    import common
    common.run(main, PID)
