"""C07 - dataset structure survives the DDS: print, parse, print is a fixpoint.
Proof: props/C07.v (parse . print = declared tree for every well-formed tree; print . parse . print = print; any dimension list).
Correspondence: generated dataset trees (depth <= 4, every DAP2 type, rank 0-3, named / unnamed dimensions, names that need quoting)
are built as pydap objects; dds() text vs the Gallina printer, dds_to_dataset() tree vs the Gallina parser; reference-rendered
foreign-style texts (anonymous dims, Url, mixed-case keywords, free layout) and mutated texts vs the Gallina parser.
Direct oracle: parsed tree vs the abstract spec, reprint vs text - on the implementation alone."""
import random

from common import Report, clist, coq_eval_mismatches, known_findings, proof_phase, use_repo

PID = "C07"
IMPORTS = "DDSCases"

# independent table: numpy type char -> DAP2 element type (Gallina constructor, DDS word)
TYPES = {"d": ("Float64", "Float64"), "f": ("Float32", "Float32"), "h": ("Int16", "Int16"), "H": ("UInt16", "UInt16"),
         "i": ("Int32", "Int32"), "l": ("Int32", "Int32"), "q": ("Int32", "Int32"), "I": ("UInt32", "UInt32"),
         "L": ("UInt32", "UInt32"), "Q": ("UInt32", "UInt32"), "B": ("Byte", "Byte"), "b": ("Int16", "Int16"),
         "S": ("String_", "String"), "U": ("String_", "String")}
DTYPES = ["f8", "f4", "i2", "u2", "i4", "u4", "i8", "u8", "u1", "i1", "S3", "U4"]
IDENTS = ["a", "b", "c", "lat", "lon", "time", "T_2m", "x1", "Z_9", "v", "w", "k9", "depth", "u", "n"]
QUOTED = ["a b", "v[1]", "t&u", "p.q", "x/y", "é", "100%", "q'r", 'd"q', "~w", "n-1", "a;b", "a{b", "s=t", "m,n", "} x", "[", "Grid",
          "structure", "7up", "x:y", "a*b", "(z)", "tab\there"]
DIMS = ["x", "y", "time", "lat", "/lat", "/g/lon", "d 1", "t;u", "n-1", "e.f", "a[0]", "2", "k_1"]


def ctext(s):
    """Coq string literal (newlines allowed verbatim); other control / 8-bit characters through an explicit list"""
    if all(32 <= ord(c) < 127 or c == "\n" for c in s):
        return '"%s"%%string' % s.replace('"', '""')
    return "(l2s [%s])" % ";".join("ascii_of_nat %d" % b for b in s.encode("latin-1"))


def cname(s):
    """a name as the list of its bytes (UTF-8, which is what _quote percent-encodes for a raw non-ASCII name)"""
    if all(32 <= ord(c) < 127 for c in s):
        return "(s2l %s)" % ctext(s)
    return "[%s]" % ";".join("ascii_of_nat %d" % b for b in s.encode("utf-8"))


# ---------------------------------------------------------------- abstract specs
def gen_base(rng, used, in_seq):
    name = fresh(rng, used)
    dt = rng.choice(DTYPES)
    rank = 0 if in_seq else rng.choice([0, 1, 1, 2, 3])
    shape = tuple(rng.randint(1, 4) for _ in range(rank))
    dims = None
    if rank and rng.random() < 0.55:
        dims = tuple(rng.choice(DIMS) for _ in range(rank))
        if not in_seq and rng.random() < 0.12:
            # dimension names that do not cover the shape (a foreign DDS naming only some dimensions parses to such a variable)
            dims = dims[:-1] if rank > 1 and rng.random() < 0.7 else dims + (rng.choice(DIMS),)
    return ("base", name, dt, shape, dims)


def fresh(rng, used):
    for _ in range(100):
        n = rng.choice(IDENTS) if rng.random() < 0.6 else rng.choice(QUOTED)
        if rng.random() < 0.2:
            n += str(rng.randint(0, 99))
        if n not in used:
            used.add(n)
            return n
    n = "v%d" % len(used)
    used.add(n)
    return n


def gen_node(rng, depth, used, in_seq, array_in_seq):
    k = rng.random()
    if depth <= 1 or k < 0.5:
        b = gen_base(rng, used, in_seq)
        if in_seq and array_in_seq and rng.random() < 0.5:
            b = b[:3] + (tuple(rng.randint(1, 3) for _ in range(rng.randint(1, 2))), None)
        return b
    if k < 0.68:
        u = set()
        return ("struct", fresh(rng, used), [gen_node(rng, depth - 1, u, in_seq, array_in_seq) for _ in range(rng.randint(0, 3))])
    if k < 0.84:
        u = set()
        kids = [gen_node(rng, depth - 1, u, True, array_in_seq) for _ in range(rng.randint(1, 3))]
        return ("seq", fresh(rng, used), kids)
    if in_seq:
        return gen_base(rng, used, in_seq)
    rank = rng.randint(1, 3)
    shape = tuple(rng.randint(1, 4) for _ in range(rank))
    gname = fresh(rng, used)
    u = {gname}
    dimn = []
    for _ in range(rank):
        dimn.append(fresh(rng, u))
    # the maps may be stored in another order than the dimensions of the array (perm), and the array may carry its dimension
    # names raw or quoted (rawdims)
    perm = list(range(rank))
    if rng.random() < 0.4:
        rng.shuffle(perm)
    return ("grid", gname, rng.choice(DTYPES[:10]), shape, tuple(dimn), [rng.choice(DTYPES[:10]) for _ in range(rank)],
            rng.random() < 0.7, tuple(perm), rng.random() < 0.5)


def has_array_in_seq(node, in_seq=False):
    if node[0] == "base":
        return in_seq and len(node[3]) > 0
    if node[0] == "grid":
        return False
    return any(has_array_in_seq(k, in_seq or node[0] == "seq") for k in node[2])


def build(node, nrec=()):
    import numpy as np
    from pydap.model import BaseType, GridType, SequenceType, StructureType
    kind = node[0]
    if kind == "base":
        _, name, dt, shape, dims = node
        if dims and (len(name) + len(shape)) % 2:
            # dimensions given after construction (var.dims = [...], as the netCDF handler does for coordinate variables)
            v = BaseType(name, np.zeros(nrec + shape, dtype=dt))
            v.dims = list(dims)
            return v
        return BaseType(name, np.zeros(nrec + shape, dtype=dt), dims=dims or ())
    if kind == "struct":
        st = StructureType(node[1])
        for k in node[2]:
            c = build(k, nrec)
            st[c.name] = c
        return st
    if kind == "seq":
        sq = SequenceType(node[1])
        for k in node[2]:
            c = build(k, nrec + (2,))
            sq[c.name] = c
        return sq
    _, name, dt, shape, dimn, mdt = node[:6]
    named = node[6] if len(node) > 6 else True
    g = GridType(name)
    from pydap.lib import _quote
    perm = node[7] if len(node) > 7 else tuple(range(len(shape)))
    rawdims = node[8] if len(node) > 8 else False
    g[name] = BaseType(name, np.zeros(shape, dtype=dt), dims=tuple(d if rawdims else _quote(d) for d in dimn) if named else ())
    for j in perm:
        g[dimn[j]] = BaseType(dimn[j], np.zeros(shape[j], dtype=mdt[j]))
    return g


def to_coq(var, seen_types):
    """Gallina dtree of a pydap object: private state as the printer reads it (name, dims, shape, dtype char)"""
    from pydap.model import BaseType, GridType, SequenceType
    if isinstance(var, BaseType):
        ch = var.dtype.char
        seen_types.add(ch)
        return "(TBase %s %s %s %s)" % (TYPES[ch][0], cname(var.name), clist(list(var.dims), cname),
                                         clist(list(var.shape), lambda n: "%d%%nat" % n))
    if isinstance(var, GridType):
        return "(TGrid %s %s %s)" % (cname(var.name), to_coq(var.array, seen_types),
                                      clist(list(var.maps.values()), lambda m: to_coq(m, seen_types)))
    kids = clist(list(var.children()), lambda c: to_coq(c, seen_types))
    return "(%s %s %s)" % ("TSeq" if isinstance(var, SequenceType) else "TStruct", cname(var.name), kids)


def plain(var):
    """python snapshot of a parsed tree"""
    from pydap.model import BaseType, GridType, SequenceType
    if isinstance(var, BaseType):
        return ("base", var.name, TYPES[var.dtype.char][1], tuple(var.shape), tuple(var.dims))
    if isinstance(var, GridType):
        return ("grid", var.name, plain(var.array), tuple(plain(m) for m in var.maps.values()))
    return ("seq" if isinstance(var, SequenceType) else "struct", var.name, tuple(plain(c) for c in var.children()))


def expected(node, q, in_seq=False):
    """what the property promises for the parsed tree, from the abstract spec alone (q = reference quoting)"""
    kind = node[0]
    if kind == "base":
        _, name, dt, shape, dims = node
        import numpy as np
        ty = TYPES[np.dtype(dt).char][1]
        if dims and len(dims) == len(shape):
            dn = tuple(q(d) for d in dims)
        elif len(shape) == 1:
            dn = (q(name),)
        else:
            dn = ()
        return ("base", q(name), ty, tuple(shape), dn)
    if kind in ("struct", "seq"):
        return (kind, q(node[1]), tuple(expected(k, q, in_seq or kind == "seq") for k in node[2]))
    _, name, dt, shape, dimn, mdt, named = node[:7]
    perm = node[7] if len(node) > 7 else tuple(range(len(shape)))
    import numpy as np
    adims = tuple(q(d) for d in dimn) if named else ((q(name),) if len(shape) == 1 else ())
    arr = ("base", q(name), TYPES[np.dtype(dt).char][1], tuple(shape), adims)
    maps = tuple(("base", q(dimn[j]), TYPES[np.dtype(mdt[j]).char][1], (shape[j],), (q(dimn[j]),)) for j in perm)
    return ("grid", q(name), arr, maps)


def ref_quote(name):
    """reference DAP quoting: keep letters, digits and _ ! ~ * ' - double-quote / %; escape the rest of the UTF-8 bytes"""
    keep = set(b"ABCDEFGHIJKLMNOPQRSTUVWXYZabcdefghijklmnopqrstuvwxyz0123456789_!~*'-\"/%")
    return "".join(chr(b) if b in keep else "%%%02X" % b for b in name.encode("utf-8"))


# ---------------------------------------------------------------- foreign-style texts
def rcase(rng, w):
    m = rng.randrange(4)
    if m == 0:
        return w
    if m == 1:
        return w.lower()
    if m == 2:
        return w.upper()
    return "".join(c.upper() if rng.random() < 0.5 else c.lower() for c in w)


def ws(rng, must=False):
    opts = [" ", "  ", "\n", "\t", "\r\n", "\n    ", " \n "]
    if not must:
        opts += ["", ""]
    return rng.choice(opts)


FTYPES = [("Byte", "Byte"), ("Int16", "Int16"), ("UInt16", "UInt16"), ("Int32", "Int32"), ("UInt32", "UInt32"),
          ("Float32", "Float32"), ("Float64", "Float64"), ("String", "String"), ("Url", "String")]
FNAMES = IDENTS + ["my%20var", "a-b", "x/y", "p%2Eq", "t*", "it's", "v~1", "A1", "_x"]


def gen_foreign(rng, depth, used, grid_ok=True):
    """(text, expected plain tree) of one declaration in the style of another server"""
    k = rng.random()
    name = None
    for _ in range(50):
        name = rng.choice(FNAMES)
        if name not in used:
            break
        name = name + str(rng.randint(0, 999))
        if name not in used:
            break
    used.add(name)
    if depth <= 1 or k < 0.55:
        return foreign_base(rng, name)
    if k < 0.85:
        kw = "Structure" if rng.random() < 0.5 else "Sequence"
        u = set()
        kids = [gen_foreign(rng, depth - 1, u) for _ in range(rng.randint(0, 3))]
        text = rcase(rng, kw) + ws(rng) + "{" + ws(rng) + "".join(t + ws(rng) for t, _ in kids) + "}" + ws(rng) + name + ";"
        return text, ("struct" if kw == "Structure" else "seq", name, tuple(e for _, e in kids))
    rank = rng.randint(1, 3)
    shape = [rng.randint(1, 9) for _ in range(rank)]
    u = {name}
    dn = []
    for _ in range(rank):
        d = rng.choice(IDENTS)
        while d in u:
            d += "x"
        u.add(d)
        dn.append(d)
    if rng.random() < 0.3:
        at = rcase(rng, "Float32") + " " + name + "".join("[%d]" % n for n in shape) + ";"
        ae = ("base", name, "Float32", tuple(shape), ())
    else:
        at, ae = foreign_base(rng, name, list(zip(dn, shape)))
    maps = [foreign_base(rng, d, [(d, n)]) for d, n in zip(dn, shape)]
    text = (rcase(rng, "Grid") + ws(rng) + "{" + ws(rng) + rcase(rng, "Array") + ws(rng) + ":" + ws(rng) + at + ws(rng) +
            rcase(rng, "Maps") + ws(rng) + ":" + ws(rng) + "".join(t + ws(rng) for t, _ in maps) + "}" + ws(rng) + name + ";")
    return text, ("grid", name, ae, tuple(e for _, e in maps))


def foreign_base(rng, name, named=None):
    word, ty = rng.choice(FTYPES)
    if named is None:
        rank = rng.choice([0, 0, 1, 2, 3])
        shape = [rng.randint(1, 12) for _ in range(rank)]
        if rank and rng.random() < 0.5:
            named = [(rng.choice(IDENTS), n) for n in shape]
            if rank >= 2 and rng.random() < 0.3:
                # only some of the dimensions are named (the grammar names every dimension on its own)
                keepn = rng.sample(range(rank), rng.randint(1, rank - 1))
                named = [(d if j in keepn else None, n) for j, (d, n) in enumerate(named)]
    else:
        shape = [n for _, n in named]
    dims = ""
    if named:
        for d, n in named:
            if d is None:
                dims += rng.choice(["[%d]", "[ %d ]"]) % n
                continue
            dims += rng.choice(["[%s = %d]", "[%s=%d]", "[ %s = %d ]", "[%s =%d]", "[%s= %d ] "]) % (d, n)
            dims = dims.rstrip(" ") if rng.random() < 0.5 else dims
        dn = tuple(d for d, _ in named if d is not None)
    else:
        for n in shape:
            dims += rng.choice(["[%d]", "[ %d ]", "[%d] ", "[0%d]"]) % n
        dn = ()
    dims = dims.rstrip()
    text = rcase(rng, word) + ws(rng, True) + name + dims + ";"
    return text, ("base", name, ty, tuple(shape), dn)


def coq_plain(t):
    """Gallina dtree of a python snapshot"""
    W = {"Byte": "Byte", "Int16": "Int16", "UInt16": "UInt16", "Int32": "Int32", "UInt32": "UInt32", "Float32": "Float32",
         "Float64": "Float64", "String": "String_"}
    if t[0] == "base":
        return "(TBase %s %s %s %s)" % (W[t[2]], cname(t[1]), clist(list(t[4]), cname), clist(list(t[3]), lambda n: "%d%%nat" % n))
    if t[0] == "grid":
        return "(TGrid %s %s %s)" % (cname(t[1]), coq_plain(t[2]), clist(list(t[3]), coq_plain))
    return "(%s %s %s)" % ("TSeq" if t[0] == "seq" else "TStruct", cname(t[1]), clist(list(t[2]), coq_plain))


def sibling_dups(t):
    if t[0] == "base":
        return False
    kids = (t[2],) + tuple(t[3]) if t[0] == "grid" else t[2]
    names = [k[1] for k in kids]
    return len(set(names)) != len(names) or any(sibling_dups(k) for k in kids)


def main():
    r = Report(PID)
    rng = random.Random(r.seed)
    T = r.tier
    proof_phase(r, PID)
    use_repo()
    from pydap.model import DatasetType
    from pydap.parsers.dds import dds_to_dataset
    from pydap.responses.dds import dds

    kf = {e["id"]: e for e in known_findings(PID) if e.get("status") == "known"}
    direct, print_cases, parse_cases, ok_cases, seen_types = [], [], [], [], set()
    stats = {"trees": 0, "with_array_in_sequence": 0, "foreign": 0, "mutated": 0, "mutated_parse_ok": 0, "nodes": 0}
    known_hit = None

    def parse(text):
        try:
            return dds_to_dataset(text), None
        except Exception as e:  # noqa
            return None, e

    # ---- (1) pydap's own DDS of generated trees
    n_trees = 150 if T == "quick" else 2500
    for i in range(n_trees):
        arr_in_seq = rng.random() < 0.12
        used = set()
        kids = [gen_node(rng, rng.randint(1, 4), used, False, arr_in_seq) for _ in range(rng.randint(0, 4))]
        dsname = rng.choice(IDENTS + QUOTED)
        ds = DatasetType(dsname)
        for ki, k in enumerate(kids):
            c = build(k)
            bases = [j for j, m in enumerate(k[2]) if m[0] == "base"] if k[0] == "struct" else []
            if bases and (i < 8 or rng.random() < 0.25):
                # a member assigned once more under its name (another element type): the container holds ONE such member, the new
                # one, in last position
                j = rng.choice(bases)
                old_m = k[2][j]
                new_m = ("base", old_m[1], "f8" if old_m[2] != "f8" else "i4", (), None)
                c[new_m[1]] = build(new_m)
                kids[ki] = k = ("struct", k[1], k[2][:j] + k[2][j + 1:] + [new_m])
                stats["replaced_member"] = stats.get("replaced_member", 0) + 1
            if k[0] == "struct" and len(k[2]) >= 2 and rng.random() < 0.4:
                # the members of a Structure in the order of a selection (a sub-selection that re-orders and may leave members out)
                sel = rng.sample(k[2], rng.randint(1, len(k[2])))
                c = c[tuple(m[1] for m in sel)]
                kids[ki] = k = ("struct", k[1], sel)
                stats["reordered"] = stats.get("reordered", 0) + 1
            ds[c.name] = c
        if len(kids) >= 2 and rng.random() < 0.3:
            sel = rng.sample(kids, rng.randint(1, len(kids)))
            ds = ds[tuple(k[1] for k in sel)]
            kids = sel
            stats["reordered"] = stats.get("reordered", 0) + 1
        stats["trees"] += 1
        r.count(("tree", repr(kids), dsname))
        text = "".join(dds(ds))
        live = clist(list(ds.children()), lambda c: to_coq(c, seen_types))
        print_cases.append("(%s, %s, %s)" % (ctext(ds.name), live, ctext(text)))
        flawed = any(has_array_in_seq(k) for k in kids)
        stats["with_array_in_sequence"] += flawed
        p, err = parse(text)
        if err is not None:
            direct.append({"law": "the DDS pydap prints for a dataset can be parsed back", "dataset": repr((dsname, kids)), "dds": text,
                           "error": repr(err)[:200]})
            parse_cases.append("(%s, None)" % ctext(text))
            continue
        got = tuple(plain(c) for c in p.children())
        parse_cases.append("(%s, Some (%s, %s))" % (ctext(text), ctext(p.name), clist(list(got), coq_plain)))
        want = tuple(expected(k, ref_quote) for k in kids)
        if got != want or p.name != ref_quote(dsname):
            direct.append({"law": "parsing the printed DDS yields the same kinds, names, order, element types, shapes and dimension names",
                           "dataset": repr((dsname, kids)), "dds": text, "parsed": repr(got)[:1500], "expected": repr(want)[:1500]})
        # the dataset has been printed: now the dimension names of one of its variables are assigned anew and it is printed again - the
        # text declares the names the variable carries NOW
        cand = [k for k in kids if k[0] == "base" and k[4] and len(k[4]) == len(k[3])]
        if cand and (i < 10 or rng.random() < 0.3):
            k0 = cand[0]
            newd = tuple(reversed(k0[4])) if tuple(reversed(k0[4])) != tuple(k0[4]) else tuple(d_ for d_ in DIMS if d_ != k0[4][0])[:1] + tuple(k0[4][1:])
            try:
                ds[k0[1]].dims = list(newd)
                text2 = "".join(dds(ds))
                stats["dims_reassigned_after_print"] = stats.get("dims_reassigned_after_print", 0) + 1
                print_cases.append("(%s, %s, %s)" % (ctext(ds.name), clist(list(ds.children()), lambda c: to_coq(c, seen_types)), ctext(text2)))
                p3, err3 = parse(text2)
                want3 = expected(("base", k0[1], k0[2], k0[3], newd), ref_quote)
                got3 = None if err3 is not None else [plain(c) for c in p3.children() if c.name == want3[1]]
                if got3 != [want3]:
                    direct.append({"law": "the DDS declares the dimension names a variable carries when it is printed (assigned after an earlier print)",
                                   "variable": k0[1], "dims_now": list(newd), "dds": text2[:1200], "parsed": repr(got3)[:600]})
            except Exception as e:  # noqa
                direct.append({"law": "a dataset whose dimension names were assigned anew can be printed and parsed", "error": repr(e)[:200]})
        again = "".join(dds(p))
        # parsing is a function of the text: edit the first result in place, parse the same text again
        try:
            if len(list(p.keys())):
                del p[list(p.keys())[0]]
            p["zz_added"] = build(("base", "zz_added", "i4", (2,), None))
            p2, err2 = parse(text)
            got2 = None if err2 is not None else tuple(plain(c) for c in p2.children())
            if p2 is p or got2 != want:
                direct.append({"law": "parsing the printed DDS yields the declared tree - whatever was parsed (and edited) before",
                               "dds": text, "second_parse": repr(got2)[:1200], "expected": repr(want)[:1200], "same_object": p2 is p})
        except Exception as e:  # noqa
            direct.append({"law": "parsing the printed DDS yields the declared tree - whatever was parsed (and edited) before",
                           "dds": text, "error": repr(e)[:200]})
        if again != text:
            if flawed and "C07-array-in-sequence" in kf:
                known_hit = known_hit or text
            else:
                direct.append({"law": "printing the parsed dataset reproduces the DDS text exactly", "dds": text, "reprinted": again})

    # ---- (2) foreign-style texts
    n_foreign = 150 if T == "quick" else 2500
    foreign_texts = []
    for i in range(n_foreign):
        used = set()
        decls = [gen_foreign(rng, rng.randint(1, 4), used) for _ in range(rng.randint(0, 4))]
        dsname = rng.choice(FNAMES + ["sst.mnmean.nc", "my data"])
        text = (rcase(rng, "Dataset") + ws(rng) + "{" + ws(rng) + "".join(t + ws(rng) for t, _ in decls) + "}" + ws(rng) + dsname + ";" +
                rng.choice(["", "\n", " \n"]))
        want = tuple(e for _, e in decls)
        stats["foreign"] += 1
        r.count(("foreign", text))
        foreign_texts.append(text)
        p, err = parse(text)
        if err is not None:
            direct.append({"law": "a DDS in the style of other servers parses to the structure it declares", "dds": text, "error": repr(err)[:200]})
            parse_cases.append("(%s, None)" % ctext(text))
            continue
        got = tuple(plain(c) for c in p.children())
        parse_cases.append("(%s, Some (%s, %s))" % (ctext(text), ctext(p.name), clist(list(got), coq_plain)))
        if got != want or p.name != ref_quote(dsname).replace(".", "%2E"):
            direct.append({"law": "a DDS in the style of other servers parses to the structure it declares", "dds": text,
                           "parsed": repr(got)[:1500], "declared": repr(want)[:1500]})
        else:
            # what was parsed is printed, and the print declares every variable with its whole shape again
            p2, err2 = parse("".join(dds(p)))
            shp = lambda t: (t[1], t[3]) if t[0] == "base" else (t[1], shp(t[2]), tuple(shp(m) for m in t[3])) if t[0] == "grid" else (t[1], tuple(shp(k) for k in t[2]))  # noqa
            flawed_f = "Sequence" in "".join(dds(p))
            if not flawed_f and (err2 is not None or tuple(shp(plain(c)) for c in p2.children()) != tuple(shp(t) for t in got)):
                direct.append({"law": "the DDS printed for a parsed foreign DDS declares every variable with its whole shape", "dds": text,
                               "printed": "".join(dds(p))[:1200], "error": repr(err2)[:200] if err2 else None})

    # ---- (3) mutated texts: the parser model and the implementation accept / reject alike and build the same tree
    alphabet = "{};[]=: \nAx0"
    pool = foreign_texts
    n_mut = 200 if T == "quick" else 3000
    for i in range(n_mut):
        base_text = rng.choice(pool)
        s = list(base_text)
        for _ in range(rng.randint(1, 2)):
            if not s:
                break
            pos = rng.randrange(len(s))
            m = rng.randrange(3)
            if m == 0:
                del s[pos]
            elif m == 1:
                s.insert(pos, rng.choice(alphabet))
            else:
                s[pos] = rng.choice(alphabet)
        text = "".join(s)
        stats["mutated"] += 1
        r.count(("mutated", text))
        p, err = parse(text)
        if err is not None:
            parse_cases.append("(%s, None)" % ctext(text))
            continue
        stats["mutated_parse_ok"] += 1
        # duplicate sibling names overwrite each other in pydap's containers: compare acceptance only
        got = tuple(plain(c) for c in p.children())
        def count(t):
            if t[0] == "base":
                return 1
            if t[0] == "grid":
                return 2 + len(t[3])
            return 1 + sum(count(k) for k in t[2])
        if sum(count(t) for t in got) + 1 != text.count(";"):
            ok_cases.append("(%s, true)" % ctext(text))
        else:
            parse_cases.append("(%s, Some (%s, %s))" % (ctext(text), ctext(p.name), clist(list(got), coq_plain)))

    bad = {}
    for label, checker, cases, ctype in (("printer", "chk_print", print_cases, "string * list dtree * string"),
                                         ("parser", "chk_parse", parse_cases, "string * option (string * list dtree)"),
                                         ("parser_accepts", "chk_parse_ok", ok_cases, "string * bool")):
        try:
            bad[label] = coq_eval_mismatches(PID + "_" + label, IMPORTS, checker, cases, ctype, shard=120, ztype=False)
        except RuntimeError as e:
            r.violation({"kind": "correspondence-broken", "error": str(e)[-1500:], "theorem": "C07 correspondence (%s)" % label}, found=False)
            bad[label] = []
    r.extra["cases"] = {"printer": len(print_cases), "parser": len(parse_cases), "parser_accepts_only": len(ok_cases)}
    r.extra["mismatches"] = {k: len(v) for k, v in bad.items()}
    r.extra["distribution"] = dict(stats, numpy_type_chars=sorted(seen_types))
    r.cov["rule"] = ("(a) dataset trees: depth <= 4, 0-4 members per container, 12 numpy dtypes (every DAP2 type), rank 0-3, named / unnamed "
                     "dimensions (incl. /fqn, blanks, ';'), names from identifiers and 24 strings that need quoting, Sequences with scalar "
                     "members (and, for the known finding, array members); (b) reference-rendered foreign DDS: random keyword case, Url, "
                     "anonymous / named dimensions in 5 spacings, free white space; (c) 1-2 character mutations of (b); distinct = distinct text/tree")
    if print_cases:
        r.sample({"printer_case": print_cases[0][:600]})
    if foreign_texts:
        r.sample({"foreign_dds": foreign_texts[0]})
    if known_hit is not None:
        r.known_finding("an array-valued member of a Sequence loses its dimensions when the parsed DDS is printed again "
                        "(e.g. Sequence { Float64 v[v = 3]; } s;  reprints as  Float64 v;)")
    seen = set()
    for d in direct:
        if d["law"] in seen:
            continue
        seen.add(d["law"])
        r.violation(dict(d, kind="property-violated", how="pydap printer/parser against the abstract spec"), found=True)
    if not direct:
        for label, cases in (("printer", print_cases), ("parser", parse_cases), ("parser_accepts", ok_cases)):
            if bad.get(label):
                r.violation({"kind": "correspondence-broken", "theorem": "pydap DDS %s vs the Gallina model (props/C07.v)" % label,
                             "case": cases[bad[label][0]][:3000], "n_mismatches": len(bad[label])}, found=False)
    r.assumptions = [
        "ASCII texts only: Python's \\w, \\d and str.lstrip are Unicode-aware, the model's classes are their ASCII restrictions",
        "numpy dtype char -> DAP2 type through an independent table in the harness; DummyData shapes read from the parsed objects",
        "names starting with the literal 'dap4' (8 raw characters kept by _quote) are not generated",
        "the fuel of the model parser (text length + 1) bounds nesting/width/rank; C07_parse_print shows it is never exhausted on printed text",
    ]
    r.finish()


if __name__ == "__main__":
    import common
    common.run(main, PID)
