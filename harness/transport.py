"""Transports for the client-side checks: a requests adapter that routes a session to a WSGI application
(and records every request it sees), plus helpers to build plain / cached sessions mounted on it."""
import io
from urllib.parse import urlsplit

import requests
from requests.adapters import BaseAdapter


class WSGIAdapter(BaseAdapter):
    """Serve every request of the session from a WSGI app.  Records (method, url) in .seen."""

    def __init__(self, app, chunk=None):
        super().__init__()
        self.app = app
        self.seen = []
        self.chunk = chunk
        self.expect = None        # (header name, value) every request of the owning session must carry
        self.anonymous = []       # urls of requests that arrived without it

    def send(self, request, stream=False, timeout=None, verify=True, cert=None, proxies=None):
        from urllib3.response import HTTPResponse
        u = urlsplit(request.url)
        self.seen.append((request.method, request.url))
        if self.expect is not None and request.headers.get(self.expect[0]) != self.expect[1]:
            self.anonymous.append(request.url)
        environ = {
            "REQUEST_METHOD": request.method, "SCRIPT_NAME": "", "PATH_INFO": requests.utils.unquote(u.path),
            "QUERY_STRING": u.query or "", "SERVER_NAME": u.hostname or "localhost", "SERVER_PORT": str(u.port or 80),
            "SERVER_PROTOCOL": "HTTP/1.1", "wsgi.version": (1, 0), "wsgi.url_scheme": u.scheme or "http",
            "wsgi.input": io.BytesIO(b""), "wsgi.errors": io.StringIO(), "wsgi.multithread": False,
            "wsgi.multiprocess": False, "wsgi.run_once": False, "HTTP_HOST": u.netloc,
        }
        for k, v in request.headers.items():
            environ["HTTP_" + k.upper().replace("-", "_")] = v
        state = {}

        def start_response(status, headers, exc_info=None):
            state["status"] = status
            state["headers"] = headers

        body = b"".join(self.app(environ, start_response))
        raw = HTTPResponse(body=io.BytesIO(body), headers=state["headers"], status=int(state["status"].split()[0]),
                           preload_content=False, decode_content=False)
        resp = requests.Response()
        resp.status_code = raw.status
        resp.headers = requests.structures.CaseInsensitiveDict(dict(state["headers"]))
        resp.raw = raw
        resp.url = request.url
        resp.request = request
        resp.reason = state["status"].split(" ", 1)[-1]
        resp.encoding = requests.utils.get_encoding_from_headers(resp.headers)
        return resp

    def close(self):
        pass


BASE = "http://verif.local"
TOKEN = ("X-Verif-Token", "s3ss10n")


def plain_session(app):
    s = requests.Session()
    s.headers[TOKEN[0]] = TOKEN[1]      # what makes the session THIS session on the wire
    a = WSGIAdapter(app)
    a.expect = TOKEN
    s.mount("http://", a)
    s.mount("https://", a)
    return s, a


def cached_session(app):
    import requests_cache
    s = requests_cache.CachedSession(backend="memory", expire_after=3600)
    s.headers[TOKEN[0]] = TOKEN[1]
    a = WSGIAdapter(app)
    a.expect = TOKEN
    s.mount("http://", a)
    s.mount("https://", a)
    return s, a
