"""C17 - lazy row streams obey the constraint normal form and are never consumed.
Proof: props/C17.v.  Correspondence: IterData on flat integer tables vs the Gallina model for operation chains (all chains up
to a length, seeded longer ones); direct oracle: a by-name reference of the normal form (also for one nested level), every
intermediate stream iterated before and after later steps, twice."""
import itertools
import copy
import os
import random
import shutil
import tempfile

from common import Report, clist, coq_eval_mismatches, cz, proof_phase, use_repo

PID = "C17"
IMPORTS = "IterDataCases"
OPS = {">": "RGt", ">=": "RGe", "<": "RLt", "<=": "RLe", "=": "REq", "!=": "RNe"}


def cs(s):
    return '"%s"%%string' % s


def c_slice(s):
    def o(x):
        return "None" if x is None else "(Some %s)" % cz(x)
    return "(mkSlice %s %s %s)" % (o(s.start), o(s.stop), o(s.step))


def c_op(op):
    k = op[0]
    if k == "cols":
        return "(OCols %s)" % clist(op[1], cs)
    if k == "col":
        return "(OCol %s)" % cs(op[1])
    if k == "filter":
        _, c, o, rhs = op
        r = "(OConst %s)" % cz(rhs) if isinstance(rhs, int) else "(OColumn %s)" % cs(rhs)
        return "(OFilter %s %s %s)" % (cs(c), OPS[o], r)
    if k == "slice":
        return "(OSlice %s)" % c_slice(op[1])
    return "(OInt %s)" % cz(op[1])


def c_rows(rows):
    return clist(rows, lambda r: clist(r, cz))


def main():
    r = Report(PID)
    rng = random.Random(r.seed)
    T = r.tier
    proof_phase(r, PID)
    use_repo()
    import operator
    import numpy as np
    from pydap.handlers.lib import IterData
    from pydap.model import BaseType, SequenceType

    PYOP = {">": operator.gt, ">=": operator.ge, "<": operator.lt, "<=": operator.le, "=": operator.eq, "!=": operator.ne}
    direct = []

    csv_dir = tempfile.mkdtemp(prefix="verif_c17_")
    csv_n = [0]

    def make(hd, rows, csv_backed=False):
        if csv_backed and rows:
            # the same table as a file: the stream is the CSV handler's CSVData (a subclass with its own copy method)
            from pydap.handlers.csv import CSVHandler
            csv_n[0] += 1
            path = os.path.join(csv_dir, "t%d.csv" % csv_n[0])
            with open(path, "w") as f:
                f.write(",".join('"%s"' % c for c in hd) + "\n")
                for row in rows:
                    f.write(",".join(str(int(x)) for x in row) + "\n")
            seq = CSVHandler(path).dataset["sequence"]
            return seq, seq.data
        seq = SequenceType("q")
        for c in hd:
            seq[c] = BaseType(c)
        data = IterData([tuple(np.int32(x) for x in row) for row in rows], seq)
        seq.data = data
        return seq, data

    def apply(d0, d, op):
        k = op[0]
        if k == "cols":
            lst = list(op[1])
            out_ = d[lst]
            lst.reverse()              # what the caller does with its own list afterwards is the caller's business
            lst.append("zz")
            return out_
        if k == "col":
            return d[op[1]]
        if k == "filter":
            _, c, o, rhs = op
            left = d0[c]
            right = d0[rhs] if isinstance(rhs, str) else rhs
            ce = {">": left > right, ">=": left >= right, "<": left < right, "<=": left <= right, "=": left == right,
                  "!=": left != right}[o]
            return d[ce]
        if k == "slice":
            return d[op[1]]
        return d[op[1]]

    def rows_of(d, single):
        out = []
        for rec in d:
            if single:
                out.append([int(rec)])
            else:
                out.append([int(x) for x in rec])
        return out

    def reference(hd, rows, ops):
        """the normal form by NAME (independent of the model)"""
        kept = []
        for row in rows:
            env = dict(zip(hd, row))
            if all(PYOP[o](env[c], env[rhs] if isinstance(rhs, str) else rhs) for (k, c, o, rhs) in
                   [op for op in ops if op[0] == "filter"]):
                kept.append(env)
        cols = list(hd)
        for op in ops:
            if op[0] == "cols":
                cols = list(op[1])
            elif op[0] == "col":
                cols = [op[1]]
        out = [[env[c] for c in cols] for env in kept]
        for op in ops:
            if op[0] == "slice":
                out = out[op[1]]
            elif op[0] == "int":
                out = out[op[1]:op[1] + 1]
        return out

    hd = ["a", "b", "c"]
    tables = [[(1, 20, 300), (2, 10, 100), (3, 30, 200), (4, 10, 400)], [], [(5, 5, 5)],
              [(rng.randint(0, 4), rng.randint(0, 4), rng.randint(0, 4)) for _ in range(6)]]

    def gen_op(cur, single):
        choices = ["slice", "int", "filter", "filter"]      # a clause can be added to a column stream, too
        if not single:
            choices += ["cols", "cols", "col"]
        k = rng.choice(choices)
        if k == "cols":
            return ("cols", tuple(rng.sample(cur, rng.randint(1, len(cur)))))
        if k == "col":
            return ("col", rng.choice(cur if rng.random() < 0.9 else hd))
        if k == "filter":
            return ("filter", rng.choice(hd), rng.choice(list(OPS)), rng.choice([rng.randint(0, 30), rng.choice(hd)]))
        if k == "slice":
            return ("slice", slice(rng.choice([None, 0, 1, 2]), rng.choice([None, 0, 1, 2, 3, 9]), rng.choice([None, 1, 2])))
        return ("int", rng.randint(0, 3))

    alphabet = [("cols", ("c", "a")), ("cols", ("b",)), ("col", "a"), ("col", "c"), ("filter", "b", ">", 15),
                ("filter", "a", "<=", "b"), ("slice", slice(1, None, None)), ("slice", slice(None, 3, 2)), ("int", 1)]
    chains = []
    maxlen = 3 if T == "quick" else 4
    for L in range(0, maxlen + 1):
        chains += [list(t) for t in itertools.product(alphabet, repeat=L)]
    if T == "quick":
        chains = chains[:1 + 9 + 81] + rng.sample(chains[91:], 250)
    for _ in range(300 if T == "quick" else 4000):
        cur, single, ch = list(hd), False, []
        for _ in range(rng.randint(3, 6)):
            op = gen_op(cur, single)
            ch.append(op)
            if op[0] == "cols":
                cur = list(op[1])
            elif op[0] == "col":
                cur, single = [op[1]], True
        chains.append(ch)

    iter_cases, spec_cases = [], []
    kinds = {}
    for ch in chains:
        rows = tables[rng.randrange(len(tables))] if len(ch) > 2 else tables[0]
        seq, d0 = make(hd, rows, csv_backed=(len(ch) > 2 and rng.random() < 0.3))
        streams = [(d0, False)]
        d, single, ok, cur = d0, False, True, list(hd)
        visible_ok = True
        for op in ch:
            try:
                if op[0] in ("cols", "col") and single:
                    raise KeyError("not a sequence any more")
                if op[0] == "col" and op[1] not in cur:
                    visible_ok = False
                if op[0] == "cols" and any(c not in cur for c in op[1]):
                    raise KeyError("hidden column")
            except KeyError:
                ok = False
                break
            try:
                d = apply(d0, d, op)
            except Exception as e:  # noqa
                ok = False
                if visible_ok:
                    direct.append({"law": "a step of a valid chain returns a new stream", "header": hd, "rows": rows, "chain": repr(ch),
                                   "failing_step": repr(op), "csv_backed": type(d0).__name__, "error": repr(e)[:200]})
                break
            if op[0] == "col":
                single, cur = True, [op[1]]
            elif op[0] == "cols":
                cur = list(op[1])
            streams.append((d, single))
        for op in ch:
            kinds[op[0]] = kinds.get(op[0], 0) + 1
        r.count(("chain", repr(ch), len(rows)))
        if ok and visible_ok:
            # interleaved iteration, BEFORE any stream of this chain has been read: two iterations of the same stream overlap in
            # time (one is started, another runs to its
            # end, the first is resumed); each yields the stream's rows, and so does every later iteration
            j = rng.randrange(len(streams))
            s, sg = streams[j]
            try:
                w = reference(hd, rows, ch[:j])
                it1 = iter(s)
                head = [next(it1)] if w else []
                mid = rows_of(s, sg)
                it2 = iter(s)
                both = list(zip(it1, it2)) if rng.random() < 0.5 else None
                rest1 = list(it1)
                norm = (lambda recs: [[int(v)] for v in recs]) if sg else (lambda recs: [[int(x) for x in v] for v in recs])
                first = norm(head + ([p[0] for p in both] if both is not None else []) + rest1)
                after = rows_of(s, sg)
                if mid != w or after != w or first != w:
                    direct.append({"law": "iterations of one stream that overlap in time each yield its rows, and so does every later one",
                                   "chain": repr(ch), "stream_after_steps": j, "resumed": first, "between": mid, "afterwards": after,
                                   "expected": w})
            except Exception as e:  # noqa
                direct.append({"law": "interleaved iteration of a stream", "chain": repr(ch), "step": j, "error": repr(e)})
        if ok:
            try:
                got = rows_of(d, single)
                obs = "(Some %s)" % c_rows(got)
            except Exception:
                got, obs = None, "None"
        else:
            got, obs = None, "None"
        if visible_ok:       # selecting a child hidden by an earlier column selection is outside the model (and the property)
            iter_cases.append("(%s, %s, %s, %s)" % (clist(hd, cs), c_rows(rows), clist(ch, c_op), obs))
        if ok and visible_ok and got is not None:
            want = reference(hd, rows, ch)
            spec_cases.append("(%s, %s, %s, %s)" % (clist(hd, cs), c_rows(rows), clist(ch, c_op), c_rows(want)))
            if got != want:
                direct.append({"law": "iteration yields the constraint normal form (by column name)", "header": hd, "rows": rows,
                               "chain": repr(ch), "got": got, "want": want})
            # every intermediate stream: unchanged by later steps, and iterable twice
            for j, (s, sg) in enumerate(streams):
                try:
                    a1, a2 = rows_of(s, sg), rows_of(s, sg)
                    w = reference(hd, rows, ch[:j])
                    if a1 != a2 or a1 != w:
                        direct.append({"law": "a step leaves its source stream unchanged / iterating twice gives the same rows",
                                       "chain": repr(ch), "stream_after_steps": j, "first": a1, "second": a2, "expected": w})
                        break
                except Exception as e:  # noqa
                    direct.append({"law": "intermediate stream iterable", "chain": repr(ch), "step": j, "error": repr(e)})
                    break
    # ---- one nested sequence level: reference by name, direct oracle only
    outer = SequenceType("o")
    outer["id"] = BaseType("id")
    inner = SequenceType("in")
    inner["x"] = BaseType("x")
    inner["y"] = BaseType("y")
    outer["in"] = inner
    outer["z"] = BaseType("z")
    nrows = [(1, [(10, 11), (20, 21)], 7), (2, [], 8), (3, [(30, 31)], 9)]
    # the records of the stream are tuples or lists (a source may hand out either): a derived stream never writes into them
    def make_nested(mk):
        o_ = copy.copy(outer)
        d_ = IterData([mk([np.int32(a), [mk([np.int32(x), np.int32(y)]) for x, y in b], np.int32(c)]) for a, b, c in nrows], o_)
        o_.data = d_
        return d_
    nd = make_nested(tuple)
    nd_list = make_nested(list)
    outer.data = nd

    def plain(v):
        if hasattr(v, "__iter__") and not isinstance(v, (str, bytes)):
            return [plain(x) for x in v]
        return int(v)
    nested_checks = [
        (lambda d: d, [[a, [list(t) for t in b], c] for a, b, c in nrows]),
        (lambda d: d["in"], [[list(t) for t in b] for a, b, c in nrows]),
        (lambda d: d["in"]["y"], [[t[1] for t in b] for a, b, c in nrows]),
        (lambda d: d[["z", "in"]], [[c, [list(t) for t in b]] for a, b, c in nrows]),
        (lambda d: d[["z", "in"]]["in"]["x"], [[t[0] for t in b] for a, b, c in nrows]),
        (lambda d: d[nd["id"] > 1], [[a, [list(t) for t in b], c] for a, b, c in nrows if a > 1]),
        (lambda d: d[nd["id"] > 1]["z"], [c for a, b, c in nrows if a > 1]),
        (lambda d: d[1:], [[a, [list(t) for t in b], c] for a, b, c in nrows][1:]),
        (lambda d: d["z"][::2], [c for a, b, c in nrows][::2]),
        (lambda d: d[nd["in"]["x"] > 15], [[a, [list(t) for t in b if t[0] > 15], c] for a, b, c in nrows]),
    ]
    for j, (f, want) in enumerate(nested_checks):
        r.count(("nested", j))
        try:
            s = f(nd)
            got, again = plain(list(s)), plain(list(s))
            if got != want or again != want:
                direct.append({"law": "normal form on a table with a nested sequence", "scenario": j, "got": got, "want": want})
        except Exception as e:  # noqa
            direct.append({"law": "normal form on a table with a nested sequence", "scenario": j, "error": repr(e)})
    # generated chains on the nested table: filters on outer and on inner columns, column selections, child selections (the inner
    # sequence, then its own columns / children), record indices and slices, in any order; reference by NAME: all filters first
    # (an inner-column filter filters the inner rows of every record), then the selections in order, then the slices in order
    import operator as _op
    PY = {">": _op.gt, ">=": _op.ge, "<": _op.lt, "<=": _op.le, "=": _op.eq, "!=": _op.ne}

    def gen_nested_chain():
        ch, level, vis, ivis = [], 0, ["id", "in", "z"], ["x", "y"]
        for _ in range(rng.randint(1, 6)):
            kinds_ = ["slice", "int"]
            if level == 0:
                kinds_ += ["ofilt", "ifilt", "cols", "child", "ofilt", "ifilt"]
            elif level == 1:
                kinds_ += ["ifilt", "icols", "ichild", "ofilt"]
            k = rng.choice(kinds_)
            if k == "ofilt":
                # against a constant or against the other outer column
                ch.append(("ofilt", rng.choice(["id", "z"]), rng.choice(list(PY)),
                           rng.choice([0, 1, 2, 3, 7, 8, 9]) if rng.random() < 0.75 else rng.choice(["id", "z"])))
            elif k == "ifilt":
                # against a constant or against the other column of the inner sequence
                ch.append(("ifilt", rng.choice(["x", "y"]), rng.choice(list(PY)),
                           rng.choice([10, 11, 15, 20, 21, 30, 31]) if rng.random() < 0.75 else rng.choice(["x", "y"])))
            elif k == "cols":
                vis = rng.sample(vis, rng.randint(1, len(vis)))
                ch.append(("cols", tuple(vis)))
            elif k == "child":
                c = rng.choice(vis)
                ch.append(("child", c))
                level = 1 if c == "in" else 3
            elif k == "icols":
                ivis = rng.sample(ivis, rng.randint(1, len(ivis)))
                ch.append(("icols", tuple(ivis)))
            elif k == "ichild":
                ch.append(("ichild", rng.choice(ivis)))
                level = 2
            elif k == "slice":
                ch.append(("slice", slice(rng.choice([None, 0, 1]), rng.choice([None, 1, 2, 5]), rng.choice([None, 1, 2]))))
            else:
                ch.append(("int", rng.randint(0, 3)))
        return ch

    def nested_reference(ch):
        recs = [{"id": a, "in": [{"x": x, "y": y} for x, y in b], "z": c} for a, b, c in nrows]
        for o in ch:
            if o[0] == "ofilt":
                recs = [rc for rc in recs if PY[o[2]](rc[o[1]], rc[o[3]] if isinstance(o[3], str) else o[3])]
            elif o[0] == "ifilt":
                recs = [dict(rc, **{"in": [ir for ir in rc["in"] if PY[o[2]](ir[o[1]], ir[o[3]] if isinstance(o[3], str) else o[3])]})
                        for rc in recs]
        vis, ivis, level, child, ichild = ["id", "in", "z"], ["x", "y"], 0, None, None
        for o in ch:
            if o[0] == "cols":
                vis = list(o[1])
            elif o[0] == "child":
                child = o[1]
            elif o[0] == "icols":
                ivis = list(o[1])
            elif o[0] == "ichild":
                ichild = o[1]

        def inner(rows_):
            if ichild is not None:
                return [ir[ichild] for ir in rows_]
            return [[ir[c] for c in ivis] for ir in rows_]
        if child is None:
            out = [[inner(rc[c]) if c == "in" else rc[c] for c in vis] for rc in recs]
        elif child == "in":
            out = [inner(rc["in"]) for rc in recs]
        else:
            out = [rc[child] for rc in recs]
        for o in ch:
            if o[0] == "slice":
                out = out[o[1]]
            elif o[0] == "int":
                out = out[o[1]:o[1] + 1]
        return out

    def nested_apply(d, o, nd=None):
        nd = nd if nd is not None else globals().get("_unused")
        if o[0] == "ofilt":
            left = nd[o[1]]
            rt = nd[o[3]] if isinstance(o[3], str) else o[3]
            return d[{">": left > rt, ">=": left >= rt, "<": left < rt, "<=": left <= rt, "=": left == rt, "!=": left != rt}[o[2]]]
        if o[0] == "ifilt":
            left = nd["in"][o[1]]
            rt = nd["in"][o[3]] if isinstance(o[3], str) else o[3]
            return d[{">": left > rt, ">=": left >= rt, "<": left < rt, "<=": left <= rt, "=": left == rt, "!=": left != rt}[o[2]]]
        if o[0] in ("cols", "icols"):
            return d[list(o[1])]
        if o[0] in ("child", "ichild"):
            return d[o[1]]
        return d[o[1]]
    def c_tree(v):
        if isinstance(v, (list, tuple)):
            return "(TN [%s])" % "; ".join(c_tree(x) for x in v)
        return "(TL (%d))" % int(v)

    def c_nop(o):
        REL = {">": "RGt", ">=": "RGe", "<": "RLt", "<=": "RLe", "=": "REq", "!=": "RNe"}
        if o[0] in ("cols", "icols"):
            return "(NCols %s)" % clist(list(o[1]), cs)
        if o[0] in ("child", "ichild"):
            return "(NChild %s)" % cs(o[1])
        if o[0] in ("ofilt", "ifilt"):
            rhs = "(OColumn %s)" % cs(o[3]) if isinstance(o[3], str) else "(OConst (%d))" % o[3]
            return "(%s %s %s %s)" % ("NOFilt" if o[0] == "ofilt" else "NIFilt", cs(o[1]), REL[o[2]], rhs)
        if o[0] == "slice":
            sl = o[1]
            f = lambda x: "None" if x is None else "(Some (%d))" % x  # noqa
            return "(NSlice (mkSlice %s %s %s))" % (f(sl.start), f(sl.stop), f(sl.step))
        return "(NInt (%d))" % o[1]
    NTABLE = "(mkTable %s %s %s)" % (clist(["id", "in", "z"], cs), cs("in"), clist(["x", "y"], cs))
    NROWS = clist([[a, [list(t) for t in b], c] for a, b, c in nrows], c_tree)
    niter_cases, nspec_cases = [], []
    nested_stats = {"chains": 0, "after_child_filter": 0}
    # scripted chains run first: several outer filters, then a selection, then a filter on the inner sequence (and variations)
    scripted_chains = [
        [("ofilt", "id", ">", 0), ("ofilt", "z", "<", 100), ("cols", ("z", "in")), ("ifilt", "x", ">", 15)],
        [("ofilt", "id", ">", 0), ("ofilt", "z", "!=", 8), ("ofilt", "id", "<", 9), ("child", "in"), ("ifilt", "y", "<", 31)],
        [("ofilt", "id", ">=", 1), ("ofilt", "z", ">", 0), ("cols", ("in", "id")), ("ifilt", "x", ">", 15), ("ifilt", "y", ">", 11),
         ("slice", slice(0, 2, None))],
        [("ifilt", "x", ">", 10), ("ofilt", "id", ">", 0), ("ofilt", "z", "<", 9), ("cols", ("z", "in")), ("ifilt", "y", "<", 31),
         ("child", "in"), ("icols", ("y",))],
        [("ofilt", "id", "<", "z"), ("ofilt", "z", ">", 7), ("child", "in"), ("ifilt", "x", "<", "y"), ("ichild", "x")],
        # the very same inner clause before and after a column selection that moves the nested column
        [("ifilt", "x", ">", 15), ("cols", ("in", "id")), ("ifilt", "x", ">", 15)],
        [("ifilt", "y", "<", 31), ("cols", ("z", "in")), ("ifilt", "y", "<", 31), ("child", "in")],
        [("cols", ("in", "z")), ("ifilt", "x", ">", 15)],
    ]
    for _ in range(150 if T == "quick" else 3000):
        ch = scripted_chains.pop(0) if scripted_chains else gen_nested_chain()
        nested_stats["chains"] += 1
        r.count(("nested-chain", repr(ch)))
        try:
            base_nd = nd_list if nested_stats["chains"] % 2 else nd
            d = base_nd
            for o in ch:
                d = nested_apply(d, o, base_nd)
            got, again = plain(list(d)), plain(list(d))
            want = nested_reference(ch)
            # the rows of ONE pass kept, and their inner streams read twice: a stream inside a row is a stream, too
            rows_kept = list(d)
            kept1, kept2 = plain(rows_kept), plain(rows_kept)
            if (kept1 != want or kept2 != want) and len(direct) < 20:
                direct.append({"law": "the inner stream of a row obtained from a stream can be iterated twice and gives the same rows",
                               "chain": repr(ch), "first_reading": kept1, "second_reading": kept2, "want": want})
            niter_cases.append("(%s, %s, %s, (Some %s))" % (NTABLE, NROWS, clist(ch, c_nop), clist(got, c_tree)))
            nspec_cases.append("(%s, %s, %s, %s)" % (NTABLE, NROWS, clist(ch, c_nop), clist(want, c_tree)))
            if got != want or again != want:
                direct.append({"law": "normal form on a table with a nested sequence (generated chain)", "chain": repr(ch), "got": got,
                               "again": again, "want": want})
        except Exception as e:  # noqa
            direct.append({"law": "normal form on a table with a nested sequence (generated chain)", "chain": repr(ch), "error": repr(e)[:300]})
    r.extra["nested"] = nested_stats
    try:
        final = plain(list(nd))
        final_l = plain(list(nd_list))
        if final_l != final:
            final = final_l
    except Exception as e:  # noqa
        final = repr(e)
    if final != [[a, [list(t) for t in b], c] for a, b, c in nrows]:
        direct.append({"law": "deriving streams leaves the source stream unchanged", "source_after_all_derivations": final})
    r.extra["op_distribution"] = kinds

    groups = [("iter", "chk_iter", iter_cases, "list cname * list row * list op * option (list row)"),
              ("spec", "chk_spec", spec_cases, "list cname * list row * list op * list row"),
              ("nested_iter", "chk_niter", niter_cases, "ntable * list tree * list nop * option (list tree)"),
              ("nested_spec", "chk_nspec", nspec_cases, "ntable * list tree * list nop * list tree")]
    mism = {}
    for name, chk, cases, ctype in groups:
        try:
            bad = coq_eval_mismatches(PID + "_" + name, "NestedCases" if name.startswith("nested") else IMPORTS, chk, cases, ctype,
                                      shard=300)
        except RuntimeError as e:
            r.violation({"kind": "correspondence-broken", "group": name, "error": str(e)[-1500:],
                         "theorem": "correspondence %s (model could not be evaluated)" % name}, found=False)
            bad = []
        mism[name] = [cases[i] for i in bad]
    r.extra["cases"] = {g[0]: len(g[2]) for g in groups}
    r.extra["mismatches"] = {k: len(v) for k, v in mism.items()}
    r.extra["exhaustive"] = True
    r.extra["exhaustive_scope"] = "all chains of length <= %d over a 9-operation alphabet on a 3-column / 4-row table (quick: all of length <= 2 + a sample of length 3); seeded chains of length 3-6" % maxlen
    r.cov["rule"] = ("a case is (table, operation chain over {[cond], [list of columns], [column], [int], [slice]}); distinct = distinct "
                     "(chain, table size); chains of length >= 1 are non-trivial")
    r.sample({"chain_case": iter_cases[200]})
    if mism["nested_spec"]:
        r.violation({"kind": "spec-invalid", "what": "Gallina nspec disagrees with the by-name reference (nested table)",
                     "case": mism["nested_spec"][0], "theorem": "SPEC validation nspec"}, found=False)
    if not direct and mism["nested_iter"]:
        r.violation({"kind": "correspondence-broken", "theorem": "correspondence of IterData on a nested table with the Gallina model "
                                                                 "Nested.niter (props/C17.v)",
                     "case": mism["nested_iter"][0], "n_mismatches": len(mism["nested_iter"])}, found=False)
    if mism["spec"]:
        r.violation({"kind": "spec-invalid", "what": "Gallina spec_nf disagrees with the by-name reference", "case": mism["spec"][0],
                     "theorem": "SPEC validation spec_nf"}, found=False)
    for d in direct[:5]:
        r.violation(dict(d, kind="property-violated", how="IterData vs the by-name normal form"), found=True)
    if not direct and mism["iter"]:
        r.violation({"kind": "correspondence-broken", "theorem": "correspondence of IterData with the Gallina model (props/C17.v)",
                     "case": mism["iter"][0], "n_mismatches": len(mism["iter"])}, found=False)
    r.assumptions = [
        "cells are integers in the Gallina model (comparison operators on Z); nested sequences are checked against a by-name "
        "reference written in the harness, not modelled in Gallina",
        "itertools.islice on non-negative bounds coincides with list slicing (np_indices)",
    ]
    shutil.rmtree(csv_dir, ignore_errors=True)
    r.finish()


if __name__ == "__main__":
    import common
    common.run(main, PID)
