"""C12 - tree consistency under edit/copy histories; quoting laws.
Proof: props/C12.v.  Correspondence: random operation histories on real pydap objects vs the Gallina
tree model (every intermediate state of every handle compared), quoting functions on all short strings.
Direct oracle (failing-input search): the invariants and quoting laws evaluated on the implementation."""
import copy
import itertools
import random

from common import (Report, clist, coq_eval_mismatches, coq_show, known_findings, proof_phase, use_repo)

PID = "C12"
IMPORTS = "TreeCases"


def cchars(b):
    """Coq `chars` literal from bytes / latin-1 str"""
    if isinstance(b, str):
        b = b.encode("utf-8")
    if not b:
        return "[]"
    return "[%s]" % ";".join("ascii_of_nat %d" % x for x in b)


KINDS = {"StructureType": "KStructure", "SequenceType": "KSequence", "GridType": "KGrid", "DatasetType": "KDataset"}
NAMES = ["a", "b", "c", "x y", "v[1]", "t&u", "é", "n-1", "a b", "Z_9", "100%", "q'r", "~w"]
DS_NAMES = NAMES


class Tokens:
    def __init__(self):
        self.m = {}

    def of(self, obj):
        k = id(obj)
        if k not in self.m:
            self.m[k] = (len(self.m) + 1, obj)   # keep obj alive so ids are not reused
        return self.m[k][0]


def snapshot(obj, tok):
    """Coq node term for a pydap object (private state, exact)"""
    from pydap.model import BaseType, StructureType
    name = cchars(obj.name)
    ident = clist(obj.id.split("."), cchars)
    attrs = clist(list(obj.attributes.items()), lambda kv: "(%s, %d%%N)" % (cchars(kv[0]), kv[1]))
    if isinstance(obj, BaseType):
        return "(NBase %s %s %s %d%%N)" % (name, ident, attrs, tok.of(obj._data))
    kids = clist(list(obj._dict.values()), lambda c: snapshot(c, tok))
    vis = clist(list(obj._visible_keys), cchars)
    return "(NStruct %s %s %s %s %s %s)" % (KINDS[type(obj).__name__], name, ident, attrs, kids, vis)


def plain(obj):
    """python-side structural snapshot used by the direct oracle"""
    from pydap.model import BaseType
    if isinstance(obj, BaseType):
        return ("B", obj.name, obj.id, tuple(sorted(obj.attributes.items())), id(obj._data))
    return (type(obj).__name__, obj.name, obj.id, tuple(sorted(obj.attributes.items())),
            tuple(plain(c) for c in obj._dict.values()), tuple(obj._visible_keys))


def invariant_errors(root):
    """the property's invariants on one handle, through the public API"""
    from pydap.model import DatasetType, StructureType
    errs = []

    def rec(n):
        if not isinstance(n, StructureType):
            return
        try:
            ks = list(n._visible_keys) if type(n).__name__ == "SequenceType" else list(n.keys())
            ch = list(n.children())
        except Exception as e:  # noqa
            errs.append("children()/keys() raised %r at %s" % (e, n.id))
            return
        names = [c.name for c in ch]
        if len(set(names)) != len(names):
            errs.append("child listed twice in %s: %s" % (n.id, names))
        if sorted(ks) != sorted(names):
            errs.append("keys() %s and children() %s differ in %s" % (ks, names, n.id))
        for c in ch:
            want = c.name if isinstance(n, DatasetType) else n.id + "." + c.name
            if c.id != want:
                errs.append("id %r should be %r" % (c.id, want))
            elif isinstance(root, DatasetType):
                try:
                    if root[c.id] is not c and not shadowed(root, c):
                        errs.append("dataset[%r] is not the variable with that id" % c.id)
                except Exception as e:  # noqa
                    errs.append("dataset[%r] raised %r" % (c.id, e))
            rec(c)

    def shadowed(r, c):
        # a nested dataset-kind node restarts the id chain; its members' ids are then not paths from the root
        o = r
        try:
            for part in c.id.split("."):
                o = o._dict[part]
        except Exception:
            return True
        return o is not c

    rec(root)
    return errs


def main():
    r = Report(PID)
    rng = random.Random(r.seed)
    T = r.tier
    proof_phase(r, PID)
    use_repo()
    import numpy as np
    from pydap.lib import _quote, unquote
    from pydap.model import BaseType, DatasetType, GridType, SequenceType, StructureType

    direct = []

    # ------------------------------------------------------------------ quoting
    alphabet = ["a", "Z", "0", "4", "d", "p", " ", "[", "]", "&", ".", "%", "2", "E", "e", "5", "B", "D", "_", "-", "~", "/",
                "!", "*", "'", "\"", "é", "ß", "日", ":", ";", "=", "?", "#", "+", ",", "<", "\\", "{", "\x7f"]
    strings = [""]
    for L in (1, 2):
        strings += ["".join(t) for t in itertools.product(alphabet, repeat=L)]
    n3 = 4000 if T == "quick" else 40000
    strings += ["".join(rng.choice(alphabet) for _ in range(3)) for _ in range(n3)]
    # names that are not in Unicode normalisation form C (a base letter + combining mark, singleton code points, Hangul jamo)
    strings += ["e\u0301", "a\u030a b", "\u212b", "\u2126x", "\u1100\u1161", "n\u0303.o", "\uf900"]
    strings += ["dap4.ce=/x y", "dap4", "dap4.ce=", "dap4 b c.d", "dap4.ce=a.b[0:1:2]", "dap", "dap4%2Ex", "xdap4.ce=",
                "a%41", "%", "%%", "%4", "%zz", "100%", "a%2Eb", "a%2eb", "%5B%5D", "White space", "Period."]
    for _ in range(600 if T == "quick" else 6000):
        strings.append("".join(rng.choice(alphabet) for _ in range(rng.randint(4, 12))))
    strings = list(dict.fromkeys(strings))
    qcases, ucases = [], []
    hexd = set("0123456789abcdefABCDEF")

    def has_literal_escape(s):
        return any(s[i] == "%" and i + 2 < len(s) + 0 and len(s) >= i + 3 and s[i + 1] in hexd and s[i + 2] in hexd
                   for i in range(len(s)))

    legal = set("ABCDEFGHIJKLMNOPQRSTUVWXYZabcdefghijklmnopqrstuvwxyz0123456789_-~%!*'\"/")
    for s in strings:
        prefix_ascii = not (s[:4] == "dap4" and any(ord(c) > 127 for c in s[:8]))
        q = _quote(s)
        r.count(("quote", s))
        if prefix_ascii:
            qcases.append("(%s, %s)" % (cchars(s), cchars(q)))
        # direct laws on the implementation
        if _quote(q) != q:
            direct.append({"law": "quote idempotent", "name": s, "quote": q, "quote_quote": _quote(q)})
        if not has_literal_escape(s) and unquote(q) != s:
            direct.append({"law": "unquote(quote(name)) == name", "name": s, "quote": q, "unquote": unquote(q)})
        if s[:4] != "dap4" and not set(q) <= legal:
            direct.append({"law": "quoted name uses only legal characters", "name": s, "quote": q})
        u = unquote(s)
        if "�" not in u:
            ucases.append("(%s, %s)" % (cchars(s), cchars(u)))
            r.count(("unquote", s))

    # ------------------------------------------------------------------ tree histories
    def fresh_obj(spec, tok):
        kind, name, token = spec
        if kind == "B":
            return BaseType(name, np.array(token))
        return {"KStructure": StructureType, "KSequence": SequenceType, "KGrid": GridType}[kind](name)

    def node_at(root, path):
        o = root
        for k in path:
            o = o[k]
        return o

    def all_paths(root, pref=()):
        from pydap.model import StructureType as ST
        out = [pref]
        if isinstance(root, ST):
            for k, c in root._dict.items():
                out += all_paths(c, pref + (unq(k),))
        return out

    def unq(k):
        return unquote(k)

    tcases = []
    nhist = 250 if T == "quick" else 3000
    maxlen = 25 if T == "quick" else 60
    opcount = {}
    for hidx in range(nhist):
        tok = Tokens()
        roots = [DatasetType("ds"), StructureType("top")]
        if rng.random() < 0.5:
            roots.append(SequenceType("sq"))
        init = clist(roots, lambda o: snapshot(o, tok))
        hist = []
        nops = rng.randint(3, maxlen)
        force = None
        for _ in range(nops):
            h = rng.randrange(len(roots))
            paths = all_paths(roots[h])
            path = list(rng.choice(paths))
            if force is not None:
                # scripted continuation: after moving an object (possibly with hidden children), copy the receiving tree
                h, path = force, []
                paths = all_paths(roots[h])
            try:
                target = node_at(roots[h], path)
            except Exception:
                continue
            is_struct = isinstance(target, StructureType)
            kind = rng.choice(["set", "set", "set", "insertcopy", "del", "copy", "select", "select", "attr", "data", "replace",
                               "move", "move", "badset"])
            if force is not None:
                kind, force = "copy", None
            before = [plain(x) for x in roots]
            try:
                if kind in ("set", "replace"):
                    if not is_struct:
                        path = path[:-1]
                        target = node_at(roots[h], path)
                        if not isinstance(target, StructureType):
                            continue
                    names = DS_NAMES if isinstance(target, DatasetType) else NAMES
                    if kind == "replace" and target._dict:
                        name = unq(rng.choice(list(target._dict)))
                    else:
                        name = rng.choice(names)
                    token = rng.randint(100, 999)
                    fk = rng.choice(["B", "B", "KStructure", "KSequence", "KGrid"])
                    opc = "(OSet %d %s %s)" % (h, clist(path, cchars),
                                                "(FBase %s %d%%N)" % (cchars(name), 0) if fk == "B"
                                                else "(FStruct %s %s)" % (fk, cchars(name)))
                    obj = fresh_obj((fk, name, token), tok)
                    if fk == "B":
                        # the model's fresh data token is fixed up below through snapshot tokens
                        opc = "(OSet %d %s (FBase %s %d%%N))" % (h, clist(path, cchars), cchars(name), tok.of(obj._data))
                    try:
                        target[name] = obj
                    except Exception:
                        pass
                elif kind == "badset":
                    # a set under a key that is not the item's name is refused, and a refused operation changes nothing
                    if not is_struct:
                        continue
                    key = unq(rng.choice(list(target._dict))) if target._dict and rng.random() < 0.8 else rng.choice(NAMES)
                    other = BaseType("other") if rng.random() < 0.5 else StructureType("other")
                    try:
                        target[key] = other
                        direct.append({"law": "a set under a key that differs from the item's name is refused", "key": key})
                    except KeyError:
                        pass
                    after = [plain(x) for x in roots]
                    if after != before and len(direct) < 20:
                        direct.append({"law": "a refused set leaves every tree as it was", "handle": h, "path": path, "key": key,
                                       "before": repr(before[h])[:400], "after": repr(after[h])[:400],
                                       "history_so_far": [hh.split(", [")[0] for hh in hist]})
                    opcount[kind] = opcount.get(kind, 0) + 1
                    continue
                elif kind == "insertcopy":
                    if not is_struct:
                        continue
                    h2 = rng.randrange(len(roots))
                    p2 = list(rng.choice(all_paths(roots[h2])))
                    src = node_at(roots[h2], p2)
                    if isinstance(src, DatasetType):
                        continue   # datasets are roots only (nested datasets are outside the property's trees)
                    opc = "(OInsertCopy %d %s %d %s)" % (h, clist(path, cchars), h2, clist(p2, cchars))
                    try:
                        target[src.name] = copy.copy(src)
                    except Exception:
                        pass
                elif kind == "move":
                    # insert a whole existing object (e.g. a sub-selection with hidden children) into another tree
                    if not is_struct or len(roots) < 3:
                        continue
                    cands = [j for j in range(len(roots)) if j != h and not isinstance(roots[j], DatasetType)
                             and roots[j].name != "moved"]
                    if not cands:
                        continue
                    hidden = [j for j in cands if hasattr(roots[j], "_dict") and len(roots[j]._visible_keys) < len(roots[j]._dict)]
                    h2 = rng.choice(hidden if hidden and rng.random() < 0.8 else cands)
                    src = roots[h2]
                    force = h
                    opc = "(OMove %d %s %d)" % (h, clist(path, cchars), h2)
                    try:
                        target[src.name] = src
                        roots[h2] = StructureType("moved")
                    except Exception:
                        pass
                elif kind == "del":
                    if not is_struct:
                        continue
                    # by the stored (quoted) key, by the raw spelling of a name that needs quoting (refused: KeyError, nothing changes),
                    # or by a name that is not there
                    key = rng.choice(list(target._dict) + [unq(k_) for k_ in target._dict] + ["nope"]) if target._dict else "nope"
                    opc = "(ODel %d %s %s)" % (h, clist(path, cchars), cchars(key))
                    try:
                        del target[key]
                    except Exception:
                        pass
                elif kind == "copy":
                    opc = "(OCopy %d %s)" % (h, clist(path, cchars))
                    roots.append(copy.copy(target))
                elif kind == "select" and type(target).__name__ == "GridType" and target._dict and not all(
                        type(c_).__name__ == "BaseType" for c_ in target._dict.values()):
                    # (a Grid holds arrays: one that a history has given a Structure or Sequence member is not sub-selected - the
                    # selection of a Grid hands the members' data over, and a Sequence without data has none to hand over)
                    continue
                elif kind == "select" and type(target).__name__ == "GridType" and target._dict:
                    # a sub-selection of a Grid is a new Grid with the chosen members: same id chain, same attributes, nothing
                    # changes in the tree it was taken from (not an operation of the model: compared with the direct oracle only)
                    ks = [unq(k) for k in target._visible_keys]
                    sel = rng.sample(ks, rng.randint(1, len(ks))) if ks else []
                    if not sel:
                        continue
                    try:
                        got = target[tuple(sel)]
                        bad = None
                        if type(got) is not type(target) or got.id != target.id or got.name != target.name:
                            bad = "id/name/type of the selection: %r %r" % (got.id, target.id)
                        elif [c.id for c in got.children()] != [target[k].id for k in sel]:
                            bad = "ids of the members: %r" % [c.id for c in got.children()]
                        elif dict(got.attributes) != dict(target.attributes):
                            bad = "attributes: %r vs %r" % (sorted(got.attributes), sorted(target.attributes))
                        elif [plain(x) for x in roots] != before:
                            bad = "the tree it was taken from changed"
                        if bad and len(direct) < 20:
                            direct.append({"law": "a sub-selection of a Grid keeps ids and attributes and leaves its source alone",
                                           "handle": h, "path": path, "selection": sel, "difference": bad})
                    except Exception as e:  # noqa
                        direct.append({"law": "a sub-selection of a Grid by member names is answered", "selection": sel, "error": repr(e)[:200]})
                    opcount["select_grid"] = opcount.get("select_grid", 0) + 1
                    continue
                elif kind == "select":
                    if type(target).__name__ not in ("StructureType", "DatasetType") or not target._dict:
                        continue
                    ks = list(target._dict)
                    sel = [unq(k) for k in rng.sample(ks, rng.randint(1, len(ks)))]
                    if rng.random() < 0.15:
                        # a selection that names a child twice, or a child that is not there, is refused (KeyError): a container
                        # lists its children once
                        sel.insert(rng.randint(0, len(sel)), rng.choice([sel[0], "nope"]))
                    opc = "(OSelect %d %s %s)" % (h, clist(path, cchars), clist(sel, cchars))
                    try:
                        roots.append(target[tuple(sel)])
                    except KeyError:
                        pass
                elif kind == "attr":
                    k = rng.choice(["units", "long name", "x"])
                    v = rng.randint(1, 50)
                    opc = "(OAttr %d %s %s %d%%N)" % (h, clist(path, cchars), cchars(k), v)
                    target.attributes[k] = v
                elif kind == "data":
                    if is_struct:
                        continue
                    arr = np.array(rng.randint(1000, 9999))
                    target.data = arr
                    opc = "(OData %d %s %d%%N)" % (h, clist(path, cchars), tok.of(target._data))
            except Exception as e:  # noqa
                direct.append({"law": "operation raised unexpectedly", "op": kind, "error": repr(e)})
                continue
            opcount[kind] = opcount.get(kind, 0) + 1
            hist.append("(%s, %s)" % (opc, clist(roots, lambda o: snapshot(o, tok))))
            # direct oracle: separation (only the edited handle may change) and the invariants
            after = [plain(x) for x in roots]
            for i, (b, a) in enumerate(zip(before, after)):
                if i != h and not (kind == "move" and opc.endswith(" %d)" % i)) and b != a and len(direct) < 20:
                    direct.append({"law": "editing one object changed another", "edited_handle": h, "changed_handle": i,
                                   "op": opc})
            for i, x in enumerate(roots):
                for e in invariant_errors(x)[:2]:
                    if len(direct) < 20:
                        direct.append({"law": "tree invariant", "handle": i, "error": e, "after_op": opc,
                                       "history_so_far": [hh.split(", [")[0] for hh in hist]})
        tcases.append("(%s, %s)" % (init, "[" + "; ".join(hist) + "]"))
        r.count(("hist", tuple(hh.split(", [")[0] for hh in hist)))
    # ---- sub-selections of a Sequence and of a Grid below a Structure (with data): ids, attributes, order, source untouched
    for nm in NAMES[:6]:
        dsx = DatasetType("ds")
        sx = StructureType(nm)
        dsx[nm] = sx
        qx = SequenceType("q", attributes={"u": 2})
        sx["q"] = qx
        qx["x"] = BaseType("x")
        qx["z"] = BaseType("z")
        qx.data = np.array([(1, 2), (3, 4)], dtype=[("x", "i4"), ("z", "i4")])
        gx = GridType("g", attributes={"u": 1})
        sx["g"] = gx
        gx["a"] = BaseType("a", np.arange(6).reshape(2, 3), dims=("m", "n"))
        gx["m"] = BaseType("m", np.arange(2))
        gx["n"] = BaseType("n", np.arange(3))
        before = plain(dsx)
        for cont, sel in ((qx, ("z", "x")), (qx, ("z",)), (gx, ("a", "n")), (gx, ("m",))):
            r.count(("subselection", nm, cont.name, sel))
            try:
                got = cont[sel]
                want_ids = [cont[k].id for k in sel]
                if (got.id != cont.id or [c.id for c in got.children()] != want_ids or dict(got.attributes) != dict(cont.attributes)
                        or type(got) is not type(cont) or plain(dsx) != before):
                    direct.append({"law": "a sub-selection of a Sequence or Grid keeps the id chain below the dataset, the attributes and "
                                          "the order asked for, and leaves its source alone", "container": cont.id, "selection": list(sel),
                                   "got_id": got.id, "member_ids": [c.id for c in got.children()], "want_member_ids": want_ids,
                                   "attributes": sorted(got.attributes)})
            except Exception as e:  # noqa
                direct.append({"law": "a sub-selection by member names is answered", "container": cont.id, "selection": list(sel),
                               "error": repr(e)[:200]})

    # ---- corpus: scripted histories (minimised from seeded changes), run with the same comparison
    def scripted(script):
        tok = Tokens()
        roots = [DatasetType("ds"), StructureType("top")]
        init = clist(roots, lambda o: snapshot(o, tok))
        hist = []
        for op in script:
            k = op[0]
            before = [plain(x) for x in roots]
            if k == "set":
                _, h, path, fk, name = op
                obj = BaseType(name, np.array(1)) if fk == "B" else StructureType(name)
                node_at(roots[h], path)[name] = obj
                opc = "(OSet %d %s %s)" % (h, clist(path, cchars), "(FBase %s %d%%N)" % (cchars(name), tok.of(obj._data))
                                           if fk == "B" else "(FStruct KStructure %s)" % cchars(name))
            elif k == "select":
                _, h, path, keys = op
                roots.append(node_at(roots[h], path)[tuple(keys)])
                opc = "(OSelect %d %s %s)" % (h, clist(path, cchars), clist(keys, cchars))
            elif k == "move":
                _, h, path, h2 = op
                node_at(roots[h], path)[roots[h2].name] = roots[h2]
                roots[h2] = StructureType("moved")
                opc = "(OMove %d %s %d)" % (h, clist(path, cchars), h2)
            elif k == "copy":
                _, h, path = op
                roots.append(copy.copy(node_at(roots[h], path)))
                opc = "(OCopy %d %s)" % (h, clist(path, cchars))
            elif k == "del":
                _, h, path, key = op
                try:
                    del node_at(roots[h], path)[key]
                except KeyError:
                    pass
                opc = "(ODel %d %s %s)" % (h, clist(path, cchars), cchars(key))
            elif k == "attr":
                _, h, path, key, v = op
                node_at(roots[h], path).attributes[key] = v
                opc = "(OAttr %d %s %s %d%%N)" % (h, clist(path, cchars), cchars(key), v)
            hist.append("(%s, %s)" % (opc, clist(roots, lambda o: snapshot(o, tok))))
            if k in ("attr", "set", "del"):
                for i, (b, a) in enumerate(zip(before, [plain(x) for x in roots])):
                    if i != op[1] and b != a and len(direct) < 20:
                        direct.append({"law": "editing one object changed another", "edited_handle": op[1], "changed_handle": i,
                                       "op": opc, "corpus": repr(script)[:400]})
            for i, x in enumerate(roots):
                for e in invariant_errors(x)[:2]:
                    if len(direct) < 20:
                        direct.append({"law": "tree invariant", "handle": i, "error": e, "after_op": opc, "corpus": True})
        return "(%s, %s)" % (init, "[" + "; ".join(hist) + "]")

    corpus = [
        # a sub-selection (hidden child) moved to another place, then the receiving tree copied / selected again
        [("set", 0, [], "S", "s"), ("set", 0, ["s"], "B", "a"), ("set", 0, ["s"], "B", "b c"), ("set", 0, [], "S", "t"),
         ("select", 0, ["s"], ["a"]), ("move", 0, ["t"], 2), ("copy", 0, []), ("select", 0, ["t"], ["s"]), ("copy", 0, ["t", "s"]),
         ("select", 3, ["t", "s"], ["b c", "a"]), ("select", 0, ["t", "s"], ["b c"])],
        [("set", 1, [], "S", "x y"), ("set", 1, ["x y"], "B", "v[1]"), ("set", 1, ["x y"], "B", "w"), ("select", 1, ["x y"], ["w"]),
         ("set", 0, [], "S", "deep"), ("set", 0, ["deep"], "S", "er"), ("move", 0, ["deep", "er"], 2), ("copy", 0, ["deep"]),
         ("copy", 3, [])],
        # a selection naming ALL the children in another order, then copies of it (direct, and of a tree it was moved into)
        [("set", 0, [], "S", "s"), ("set", 0, ["s"], "B", "a"), ("set", 0, ["s"], "B", "b"), ("set", 0, ["s"], "B", "c"),
         ("select", 0, ["s"], ["c", "a", "b"]), ("copy", 2, []), ("set", 0, [], "S", "t"), ("move", 0, ["t"], 2), ("copy", 0, []),
         ("copy", 0, ["t", "s"]), ("select", 1, [], [])],
        # attributes on the ROOT of a dataset before it is copied / tuple-selected, then attribute edits on either side
        [("set", 0, [], "B", "x"), ("set", 0, [], "S", "s"), ("set", 0, ["s"], "B", "a"), ("attr", 0, [], "units", 7), ("copy", 0, []),
         ("attr", 2, [], "long name", 3), ("attr", 0, [], "x", 9), ("select", 0, [], ["s"]), ("attr", 3, [], "units", 11),
         ("attr", 0, [], "units", 12), ("attr", 1, [], "units", 5), ("copy", 1, []), ("attr", 4, [], "x", 6), ("attr", 1, [], "units", 8)],
        # deleting by the raw spelling of a name that needs quoting is refused and changes nothing; by the stored key it deletes
        [("set", 0, [], "S", "s"), ("set", 0, ["s"], "B", "a b"), ("set", 0, ["s"], "B", "c"), ("del", 0, ["s"], "a b"),
         ("copy", 0, []), ("del", 0, ["s"], "a%20b"), ("set", 0, ["s"], "B", "a b"), ("del", 0, ["s"], "nope"), ("copy", 0, ["s"])],
        # two selections taken from one narrowed selection re-expose its hidden children: they share no structure
        [("set", 0, [], "S", "s"), ("set", 0, ["s"], "B", "a"), ("set", 0, ["s"], "S", "h"), ("set", 0, ["s", "h"], "B", "p"),
         ("set", 0, ["s"], "B", "c"), ("select", 0, ["s"], ["c"]), ("select", 2, [], ["a", "h", "c"]), ("select", 2, [], ["a", "h"]),
         ("attr", 3, ["h"], "units", 4), ("set", 3, ["h"], "B", "q"), ("attr", 4, ["a"], "x", 2), ("del", 4, ["h"], "p"),
         ("copy", 2, []), ("select", 5, [], ["h"]), ("attr", 6, ["h"], "units", 9), ("attr", 2, ["c"], "units", 1)],
    ]
    for sc in corpus:
        try:
            tcases.insert(0, scripted(sc))
        except Exception as e:  # noqa
            direct.append({"law": "operation raised unexpectedly", "corpus": repr(sc)[:300], "error": repr(e)})
    r.extra["op_distribution"] = opcount
    r.extra["histories"] = nhist

    # ------------------------------------------------------------------ run the model
    groups = [("quote", "chk_quote", qcases, "chars * chars"), ("unquote", "chk_unquote", ucases, "chars * chars"),
              ("tree", "chk_tree", tcases, "list node * list (op * list node)")]
    mism = {}
    for name, chk, cases, ctype in groups:
        try:
            bad = coq_eval_mismatches(PID + "_" + name, IMPORTS, chk, cases, ctype, shard=40 if name == "tree" else 400,
                                      ztype=False)
        except RuntimeError as e:
            r.violation({"kind": "correspondence-broken", "group": name, "error": str(e)[-1500:],
                         "theorem": "correspondence %s (model could not be evaluated)" % name}, found=False)
            bad = []
        mism[name] = [cases[i] for i in bad]
    r.extra["cases"] = {g[0]: len(g[2]) for g in groups}
    r.extra["mismatches"] = {k: len(v) for k, v in mism.items()}
    r.cov["rule"] = ("quoting: distinct input strings (all strings of length <= 2 over a 40-symbol alphabet incl. non-ASCII, "
                     "seeded longer ones); tree: distinct operation histories (length 3..%d) over {set, replace, insert-copy, "
                     "delete, copy, select-by-tuple, set attribute, assign data}; every history is non-trivial (>= 3 ops)" % maxlen)
    r.sample({"quote": qcases[77]})
    r.sample({"history": tcases[0][:600]})

    # ------------------------------------------------------------------ regression probes of fixed defects
    ds = DatasetType("d")
    try:
        ds["a b"] = BaseType("a b")
        space_ok = list(ds.keys()) == ["a%20b"]
    except Exception:
        space_ok = False
    if not space_ok:
        direct.append({"law": "insert a variable whose name contains a space into a dataset",
                       "error": "dataset['a b'] = BaseType('a b') fails / leaves a spurious child", "keys": list(ds.keys())})
    st = StructureType("s")
    st["a b"] = BaseType("a b")
    st["c"] = BaseType("c")
    sel = st["a b", "c"]
    if list(sel.keys()) != [c.name for c in sel.children()]:
        direct.append({"law": "a container lists its children once (keys() == children())", "error":
                       "tuple selection with a name needing quoting", "keys": list(sel.keys()),
                       "children": [c.name for c in sel.children()]})

    for d in direct[:6]:
        r.violation(dict(d, kind="property-violated", how="invariant / law evaluated on the implementation"), found=True)
    if not direct:
        for name in ("quote", "unquote", "tree"):
            if mism[name]:
                r.violation({"kind": "correspondence-broken", "function": name,
                             "theorem": "correspondence of pydap with the Gallina model underlying props/C12.v (%s)" % name,
                             "case": mism[name][0][:3000], "n_mismatches": len(mism[name]),
                             "all_cases": [c[:60000] for c in mism[name][:6]]}, found=False)
    r.assumptions = [
        "names are modelled as UTF-8 byte strings; for names starting with 'dap4' the first 8 characters are ASCII in the correspondence",
        "tree model is value-level: data and attribute values are opaque tokens (object identity of the numpy array)",
        "dataset-level keys contain no ' ', '/', '.' (DatasetType.__setitem__ path syntax); select-by-tuple only with existing names "
        "and only on StructureType/DatasetType nodes (Sequence/Grid sub-selection touches data and is outside this model)",
    ]
    r.finish()


if __name__ == "__main__":
    import common
    common.run(main, PID)
