"""C05 - data responses are byte-exact DAP2/XDR; the client decodes any conforming stream.
Proof: props/C05.v.  Correspondence, both directions, on generated datasets of the DAP2 value domain:
pydap's .dods body vs the Gallina encoder model and vs an independent reference encoder (harness/xdrref.py, itself
compared with the Gallina SPEC); pydap's decoder on reference bytes vs the Gallina decoder model and vs the source
values; embedded DDS vs the .dds response; Content-Length vs the real length; constrained requests."""
import random
import struct

import dap2gen as G
import xdrref as X
from common import Report, clist, coq_eval_mismatches, proof_phase, use_repo

PID = "C05"
IMPORTS = "XdrCases"
TY = {"B": "TByte", "h": "TInt16", "H": "TUInt16", "i": "TInt32", "I": "TUInt32", "f": "TFloat32", "d": "TFloat64",
      "b": "TInt16", "S": "TString"}


def cB(b):
    return "[%s]%%N" % ";".join(str(x) for x in b)


def c_scalar(code, x):
    if code == "f":
        return "SBits %d%%N" % struct.unpack(">I", struct.pack(">f", x))[0]
    if code == "d":
        return "SBits %d%%N" % struct.unpack(">Q", struct.pack(">d", x))[0]
    if code == "S":
        b = x.encode("ascii") if isinstance(x, str) else bytes(x)
        return "S_ %s" % cB(b)
    return "SInt (%d)" % int(x)


def c_decl(desc):
    k = desc[0]
    if k == "base":
        n = 1
        for e in desc[3]:
            n *= e
        return "(DBase %s %s)" % (TY[desc[2]], "None" if not desc[3] else "(Some %d%%nat)" % n)
    if k in ("struct", "dataset"):
        return "(DStruct %s)" % clist(desc[2], c_decl)
    if k == "grid":
        return "(DStruct %s)" % clist((desc[2],) + tuple(desc[3]), c_decl)
    if k == "seq":
        return "(DSeq %s)" % clist(desc[2], c_decl)
    raise ValueError(k)


def c_val(desc, rows=None):
    k = desc[0]
    if k == "base":
        return "(VBase %s)" % clist(desc[4], lambda x: c_scalar(desc[2], x))
    if k in ("struct", "dataset"):
        return "(VStruct %s)" % clist(desc[2], c_val)
    if k == "grid":
        return "(VStruct %s)" % clist((desc[2],) + tuple(desc[3]), c_val)
    if k == "seq":
        rows = desc[3] if rows is None else rows
        out = []
        for row in rows:
            cells = []
            for c, cell in zip(desc[2], row):
                if c[0] == "base":
                    cells.append("(VBase [%s])" % c_scalar(c[2], cell))
                else:
                    cells.append(c_val(c, rows=cell))
            out.append("[" + "; ".join(cells) + "]")
        return "(VSeq [%s])" % "; ".join(out)
    raise ValueError(k)


def ref_dds(desc):
    """independent DDS text for a description (what any DAP2 server would send)"""
    out = []

    def shape_txt(d, dims=None):
        if dims:
            return "".join("[%s = %d]" % (n, e) for n, e in zip(dims, d[3]))
        if len(d[3]) == 1:
            return "[%s = %d]" % (d[1], d[3][0])
        return "".join("[%d]" % e for e in d[3])

    def rec(d, lvl, dims=None):
        ind = "    " * lvl
        k = d[0]
        if k == "base":
            out.append("%s%s %s%s;\n" % (ind, G.DAP2[d[2]], d[1], shape_txt(d, dims)))
        elif k == "struct":
            out.append(ind + "Structure {\n")
            for m in d[2]:
                rec(m, lvl + 1)
            out.append("%s} %s;\n" % (ind, d[1]))
        elif k == "grid":
            out.append(ind + "Grid {\n" + ind + "    Array:\n")
            rec(d[2], lvl + 2, [m[1] for m in d[3]])
            out.append(ind + "    Maps:\n")
            for m in d[3]:
                rec(m, lvl + 2)
            out.append("%s} %s;\n" % (ind, d[1]))
        elif k == "seq":
            out.append(ind + "Sequence {\n")
            for c in d[2]:
                rec(c, lvl + 1)
            out.append("%s} %s;\n" % (ind, d[1]))

    out.append("Dataset {\n")
    for m in desc[2]:
        rec(m, 1)
    out.append("} %s;\n" % desc[1])
    return "".join(out)


def decoded_to_desc_val(desc, val, np):
    """pydap's decoded structure -> (Coq val term, canonical python value) following the description"""
    k = desc[0]

    def tostr(x):
        return x.decode("ascii") if isinstance(x, bytes) else str(x)

    if k == "base":
        code = desc[2]
        arr = np.asarray(val)
        want_dtype = {"B": "uint8", "h": "int16", "H": "uint16", "i": "int32", "I": "uint32", "f": "float32",
                      "d": "float64", "b": "int16"}.get(code)
        flat = arr.reshape(-1).tolist()
        if code == "S":
            flat = [tostr(x) for x in flat]
            dt_ok = arr.dtype.kind in "SU"
        else:
            dt_ok = str(arr.dtype.newbyteorder("=")) == want_dtype
        canon = (dt_ok, tuple(arr.shape), tuple(G.bits(code, x) for x in flat))
        return "(VBase %s)" % clist(flat, lambda x: c_scalar(code, x)), canon
    if k in ("struct", "dataset", "grid"):
        members = desc[2] if k != "grid" else (desc[2],) + tuple(desc[3])
        parts = [decoded_to_desc_val(m, v, np) for m, v in zip(members, val)]
        if len(parts) != len(members):
            raise ValueError("member count")
        return "(VStruct [%s])" % "; ".join(p[0] for p in parts), tuple(p[1] for p in parts)
    if k == "seq":
        rows_c, rows_k = [], []
        for rec in val:
            cells_c, cells_k = [], []
            if len(rec) != len(desc[2]):
                raise ValueError("column count")
            for c, cell in zip(desc[2], rec):
                if c[0] == "base":
                    x = tostr(cell) if c[2] == "S" else cell
                    cells_c.append("(VBase [%s])" % c_scalar(c[2], x))
                    cells_k.append(G.bits(c[2], x))
                else:
                    t, kk = decoded_to_desc_val(c, cell, np)
                    cells_c.append(t)
                    cells_k.append(kk)
            rows_c.append("[" + "; ".join(cells_c) + "]")
            rows_k.append(tuple(cells_k))
        return "(VSeq [%s])" % "; ".join(rows_c), tuple(rows_k)
    raise ValueError(k)


def source_canon(desc):
    k = desc[0]
    if k == "base":
        return (True, tuple(desc[3]), tuple(G.bits(desc[2], x) for x in desc[4]))
    if k in ("struct", "dataset"):
        return tuple(source_canon(m) for m in desc[2])
    if k == "grid":
        return tuple(source_canon(m) for m in (desc[2],) + tuple(desc[3]))
    if k == "seq":
        out = []
        for row in desc[3]:
            cells = []
            for c, cell in zip(desc[2], row):
                if c[0] == "base":
                    cells.append(G.bits(c[2], cell))
                else:
                    cells.append(source_canon(("seq", c[1], c[2], cell)))
            out.append(tuple(cells))
        return tuple(out)


def usable(desc, backend):
    """IterData carries no types: an empty lazy sequence (or a first record with an empty inner sequence) cannot be
    described; such inputs are outside what a lazy backend can serve"""
    ok = [True]

    def rec(d):
        if d[0] in ("dataset", "struct"):
            for m in d[2]:
                rec(m)
        elif d[0] == "seq":
            nested = any(c[0] == "seq" for c in d[2])
            if (nested or backend == "iterdata"):
                if not d[3]:
                    ok[0] = False
                else:
                    for j, c in enumerate(d[2]):
                        # (the column types of an inner sequence are read off the first record in which it is not empty)
                        if c[0] == "seq" and not any(row[j] for row in d[3]):
                            ok[0] = False
    rec(desc)
    return ok[0]


def constrain(rng, desc):
    """a valid constraint on top-level variables -> (query string, constrained description)"""
    import numpy as np
    picks = rng.sample(list(desc[2]), rng.randint(1, len(desc[2])))
    toks, members = [], []
    for m in picks:
        if m[0] == "base" and m[3] and rng.random() < 0.7:
            sl, txt = [], ""
            for e in m[3]:
                a = rng.randrange(e)
                b = rng.randrange(a, e)
                st = rng.randint(1, 2)
                sl.append(slice(a, b + 1, st))
                txt += "[%d:%d:%d]" % (a, st, b)
            arr = np.array(list(m[4]), dtype=object).reshape(m[3])[tuple(sl)]
            members.append(("base", m[1], m[2], tuple(arr.shape), tuple(arr.reshape(-1).tolist())))
            toks.append(m[1] + txt)
        else:
            members.append(m)
            toks.append(m[1])
    return ",".join(toks), ("dataset", desc[1], tuple(members))


def main():
    r = Report(PID)
    rng = random.Random(r.seed)
    T = r.tier
    proof_phase(r, PID)
    use_repo()
    import numpy as np
    from webob import Request
    from pydap.handlers.dap import unpack_dap2_data
    from pydap.handlers.lib import BaseHandler
    from pydap.lib import BytesReader
    from pydap.parsers.dds import dds_to_dataset

    direct = []
    enc_cases, spec_cases, dec_cases = [], [], []
    n = 160 if T == "quick" else 2500
    feat = {}
    # corpus (minimised from seeded changes), encoded first with both back ends: records with two String columns whose padded sizes
    # are permutations of one another from record to record (same total, other split)
    two_str = ("dataset", "ts0", (("seq", "q", (("base", "n", "i", (), ()), ("base", "s", "S", (), ()), ("base", "t", "S", (), ())),
                                   ((1, "ab", "abcdefg"), (2, "abcdefg", "ab"), (3, "", "wxyz"), (4, "wxyz", ""), (5, "abcde", "x"))),))
    # a rank-0 Byte next to an Int32 (no String, no Sequence: the response carries a Content-Length); a flat sequence with a String
    # column before a Byte column
    scalar_byte = ("dataset", "sb0", (("base", "b", "B", (), (200,)), ("base", "i", "i", (), (5,))))
    str_byte = ("dataset", "sq0", (("seq", "q", (("base", "s", "S", (), ()), ("base", "b", "B", (), ()), ("base", "n", "i", (), ())),
                                    (("ab", 7, 1), ("", 255, 2), ("abcde", 0, 3))),))
    # two datasets with the same names, types and ranks and other extents, served one after the other in this process
    ext_a = ("dataset", "e0", (("base", "x", "i", (3,), (1, 2, 3)), ("base", "m", "d", (2, 2), (0.5, 1.5, 2.5, 3.5))))
    ext_b = ("dataset", "e0", (("base", "x", "i", (5,), (1, 2, 3, 4, 5)), ("base", "m", "d", (1, 3), (0.5, 1.5, 2.5))))
    corpus = [(two_str, "numpy"), (two_str, "iterdata"), (scalar_byte, "numpy"), (str_byte, "numpy"), (str_byte, "iterdata"),
              (ext_a, "numpy"), (ext_b, "numpy")]
    for i in range(n + len(corpus)):
        desc = G.gen_dataset(rng)
        backend = rng.choice(["numpy", "numpy", "iterdata"])
        if i < len(corpus):
            desc, backend = corpus[i]
        if not usable(desc, backend):
            continue
        ce, cdesc = ("", desc) if rng.random() < 0.6 or i < len(corpus) else constrain(rng, desc)
        for d in G.walk_desc(cdesc):
            key = d[1][0] + ":" + (d[1][2] if d[1][0] == "base" else ("nested" if any(c[0] == "seq" for c in d[1][2]) else "flat"))
            feat[key] = feat.get(key, 0) + 1
        r.count(("enc", repr(cdesc), backend, ce))
        ref = X.enc(cdesc)
        decl, val = c_decl(cdesc), c_val(cdesc)
        spec_cases.append("(%s, %s, (Some %s))" % (decl, val, cB(ref)))
        # ---------------- encoder direction
        try:
            app = BaseHandler(G.build(desc, backend))
            # the block size of the streaming encoder is a deployment setting (environ key pydap.buffer_size)
            env = {"pydap.buffer_size": rng.choice([1, 2, 3, 5, 7, 8, 13, 64])} if rng.random() < 0.4 else {}
            res = Request.blank("/.dods?" + ce, environ=env).get_response(app)
            body = res.body
            ddsres = Request.blank("/.dds?" + ce).get_response(app).body
            if res.status_int != 200 or b"\nData:\n" not in body:
                raise RuntimeError("status %s: %s" % (res.status, body[:200]))
            head, data = body.split(b"\nData:\n", 1)
            impl = "(Some %s)" % cB(data)
            if data != ref:
                direct.append({"law": "body equals the reference XDR encoding", "dataset": repr(cdesc)[:1500], "ce": ce,
                               "backend": backend, "pydap": data.hex()[:400], "reference": ref.hex()[:400]})
            if head + b"\n" != ddsres:
                direct.append({"law": "embedded DDS equals the DDS response", "dataset": repr(cdesc)[:800], "ce": ce,
                               "embedded": head.decode("latin-1")[:300], "dds": ddsres.decode("latin-1")[:300]})
            cl = res.headers.get("Content-Length")
            if cl is not None and int(cl) != len(body):
                direct.append({"law": "advertised Content-Length equals the body length", "dataset": repr(cdesc)[:800],
                               "content_length": cl, "real": len(body)})
        except Exception as e:  # noqa
            impl = "None"
            direct.append({"law": "a data response is produced", "dataset": repr(cdesc)[:1200], "ce": ce, "backend": backend,
                           "error": repr(e)[:300]})
        enc_cases.append("(%s, %s, %s)" % (decl, val, impl))
        # ---------------- decoder direction: reference bytes, reference DDS
        r.count(("dec", repr(cdesc)))
        try:
            dec = unpack_dap2_data(BytesReader(ref), dds_to_dataset(ref_dds(cdesc)))
            # the same conforming stream delivered in blocks of arbitrary sizes (as a transport would) decodes alike
            from pydap.lib import StreamReader
            sizes = rng.choice([[1], [2], [3], [4], [6], [10], [16], [64], [5, 1, 7], [rng.randint(1, 40) for _ in range(6)]])
            blocks, pos, k = [], 0, 0
            while pos < len(ref):
                n_ = sizes[k % len(sizes)]
                blocks.append(ref[pos:pos + n_])
                pos += n_
                k += 1
            dec_chunked = unpack_dap2_data(StreamReader(iter(blocks)), dds_to_dataset(ref_dds(cdesc)))
            t2, canon2 = decoded_to_desc_val(cdesc, dec_chunked, np)
            if canon2 != source_canon(cdesc):
                direct.append({"law": "the client decodes a conforming stream delivered in blocks of any sizes to the reference values",
                               "dataset": repr(cdesc)[:1500], "block_sizes": sizes, "got": repr(canon2)[:500]})
            term, canon = decoded_to_desc_val(cdesc, dec, np)
            if canon != source_canon(cdesc):
                direct.append({"law": "the client decodes reference bytes to the reference values (types, shapes, values)",
                               "dataset": repr(cdesc)[:1500], "got": repr(canon)[:500]})
            dec_cases.append("(%s, %s, (Some %s))" % (decl, cB(ref), term))
        except Exception as e:  # noqa
            direct.append({"law": "the client decodes a conforming stream", "dataset": repr(cdesc)[:1500], "error": repr(e)[:300]})
            dec_cases.append("(%s, %s, None)" % (decl, cB(ref)))
    r.extra["input_distribution"] = feat

    # regression probes of the fixed codec defects (each is a minimal input that used to fail)
    probes = [
        ("empty string in an array", ("dataset", "d", (("base", "s", "S", (2,), ("", "ab")),))),
        ("empty string in a flat sequence", ("dataset", "d", (("seq", "q", (("base", "a", "i", (), ()), ("base", "s", "S", (), ())), ((1, ""), (2, "abc"))),))),
        ("Byte column in a flat sequence", ("dataset", "d", (("seq", "q", (("base", "b", "B", (), ()), ("base", "h", "h", (), ())), ((200, -3), (7, 9))),))),
        ("empty inner sequence after a non-empty one", ("dataset", "d", (("seq", "q", (("base", "a", "i", (), ()), ("seq", "in", (("base", "x", "i", (), ()),), ())), ((1, ((5,), (6,))), (2, ()))),))),
        ("Int16 column in an all-numeric sequence", ("dataset", "d", (("seq", "q", (("base", "h", "h", (), ()), ("base", "u", "H", (), ())), ((-2, 65535), (300, 1))),))),
    ]
    for what, desc in probes:
        try:
            body = Request.blank("/.dods").get_response(BaseHandler(G.build(desc))).body
            data = body.split(b"\nData:\n", 1)[1]
            dec = unpack_dap2_data(BytesReader(X.enc(desc)), dds_to_dataset(ref_dds(desc)))
            ok = data == X.enc(desc) and decoded_to_desc_val(desc, dec, np)[1] == source_canon(desc)
        except Exception:
            ok = False
        if not ok:
            direct.append({"law": "byte-exact XDR / decodes conforming stream", "regression": what, "dataset": repr(desc)})

    groups = [("xdr_spec", "chk_xdr", spec_cases, "decl * val * option (list N)"),
              ("dods", "chk_dods", enc_cases, "decl * val * option (list N)"),
              ("unpack", "chk_unpack", dec_cases, "decl * list N * option val")]
    mism = {}
    for name, chk, cases, ctype in groups:
        try:
            bad = coq_eval_mismatches(PID + "_" + name, IMPORTS, chk, cases, ctype, shard=40, ztype=True)
        except RuntimeError as e:
            r.violation({"kind": "correspondence-broken", "group": name, "error": str(e)[-1500:],
                         "theorem": "correspondence %s (model could not be evaluated)" % name}, found=False)
            bad = []
        mism[name] = [cases[i] for i in bad]
    r.extra["cases"] = {g[0]: len(g[2]) for g in groups}
    r.extra["mismatches"] = {k: len(v) for k, v in mism.items()}
    r.cov["rule"] = ("a case is (generated dataset over the DAP2 value domain, backend, constraint) for the encoder and (dataset, "
                     "reference bytes) for the decoder; distinct = distinct description; all have >= 1 variable")
    r.sample({"encoder_case": enc_cases[0][:600]})
    r.sample({"decoder_case": dec_cases[0][:600]})

    if mism["xdr_spec"]:
        r.violation({"kind": "spec-invalid", "what": "Gallina XDR SPEC disagrees with the independent reference encoder",
                     "case": mism["xdr_spec"][0][:2000], "theorem": "SPEC validation xdr"}, found=False)
    for d in direct[:5]:
        r.violation(dict(d, kind="property-violated", how="pydap vs independent reference encoder/decoder"), found=True)
    if not direct:
        for name in ("dods", "unpack"):
            if mism[name]:
                r.violation({"kind": "correspondence-broken", "function": name,
                             "theorem": "correspondence of pydap with the Gallina model %s underlying props/C05.v" % name,
                             "case": mism[name][0][:3000], "n_mismatches": len(mism[name])}, found=False)
    r.assumptions = [
        "numpy astype between the DAP widths (widening on encode, narrowing on decode) as modelled; floats carried as bit patterns",
        "lazy (IterData) sequences carry no declared types: an empty lazy sequence, or one whose first record has an empty inner "
        "sequence, cannot be described by the server and is outside the generated domain (numpy-backed empty sequences are inside)",
        "DDS text -> declaration is pydap's DDS parser (property C07); the decoder model receives the declaration",
    ]
    r.finish()


if __name__ == "__main__":
    import common
    common.run(main, PID)
