"""Independent reference DAP4 'server' used by the C10 / C09 / C02 checks: renders a DMR from an abstract
dataset description and serializes the values in the chunked DAP4 wire format."""
import random
import zlib

import numpy as np

TYPES = {  # DAP4 name -> (numpy code, Coq constructor)
    "Int8": ("i1", "T_I8"), "UInt8": ("u1", "T_U8"), "Int16": ("i2", "T_I16"), "UInt16": ("u2", "T_U16"),
    "Int32": ("i4", "T_I32"), "UInt32": ("u4", "T_U32"), "Int64": ("i8", "T_I64"), "UInt64": ("u8", "T_U64"),
    "Float32": ("f4", "T_F32"), "Float64": ("f8", "T_F64"),
}


class Node:
    """a group (root = the Dataset) with dimension declarations and an ordered list of members"""

    def __init__(self, name):
        self.name = name
        self.dims = []       # (name, size)
        self.members = []    # Var or Node, document order


class Var:
    def __init__(self, name, dap_type, dims, values):
        self.name = name
        self.type = dap_type
        self.dims = dims     # list of ("named", fqn, size) | ("anon", size)
        self.values = values
        self.path = None     # filled by assign_paths

    @property
    def shape(self):
        return tuple(d[-1] for d in self.dims)


def special_values(code, n, rng):
    if code[0] == "f":
        pool = [0.0, -0.0, 1.5, -2.25, float("inf"), float("-inf"), float("nan"), 3.4028234e38, 1e-45, 1e300, -1e-300]
        arr = np.array([rng.choice(pool) if rng.random() < 0.5 else rng.uniform(-1e6, 1e6) for _ in range(n)])
        with np.errstate(over="ignore"):
            return arr.astype(code)
    info = np.iinfo(code)
    pool = [info.min, info.max, 0, 1, info.min + 1, info.max - 1]
    return np.array([rng.choice(pool) if rng.random() < 0.5 else rng.randint(int(info.min), int(info.max))
                     for _ in range(n)], dtype=code)


def gen_dataset(rng, max_depth=3, types=None):
    types = types or list(TYPES)
    root = Node("ds%d" % rng.randint(0, 99))

    def fill(node, prefix, depth, scope):
        # dimension declarations (shadowing names allowed)
        scope = dict(scope)
        for _ in range(rng.randint(0, 2)):
            dn = rng.choice(["x", "y", "t"])
            if any(d[0] == dn for d in node.dims):
                continue
            size = rng.randint(1, 4)
            node.dims.append((dn, size))
            # every declaration of every enclosing group stays referable by its fully qualified name, also when an inner
            # group declares the same short name again
            scope[(prefix, dn)] = (prefix + "/" + dn if prefix else "/" + dn, size)
        nmem = rng.randint(1, 3)
        used = set()
        for _ in range(nmem):
            if depth < max_depth and rng.random() < 0.35:
                gname = rng.choice(["g", "h", "k"]) + str(rng.randint(0, 9))
                if gname in used:
                    continue
                used.add(gname)
                g = Node(gname)
                node.members.append(g)
                fill(g, prefix + "/" + gname, depth + 1, scope)
            else:
                vname = rng.choice(["a", "b", "c", "v", "w"]) + str(rng.randint(0, 9))
                if node.dims and rng.random() < 0.25:
                    # a variable named like a dimension of its group - with whatever rank and dimensions it declares itself
                    # (a coordinate variable, but also a scalar or a rank-2 variable of that name)
                    vname = rng.choice(node.dims)[0]
                if vname in used:
                    continue
                used.add(vname)
                rank = rng.randint(0, 3)
                anon = rng.random() < 0.4 or not scope
                dims = []
                for _ in range(rank):
                    if anon:
                        dims.append(("anon", rng.randint(1, 3)))
                    else:
                        fq, size = scope[rng.choice(sorted(scope))]   # keys (group prefix, short name)
                        dims.append(("named", fq, size))
                t = rng.choice(types)
                n = int(np.prod([d[-1] for d in dims])) if dims else 1
                vals = special_values(TYPES[t][0], n, rng).reshape(tuple(d[-1] for d in dims))
                node.members.append(Var(vname, t, dims, vals))

    fill(root, "", 0, {})
    if not list(variables(root)):
        root.members.insert(0, Var("only", "Int32", [], np.array(7, "i4")))
    return root


def variables(node, prefix=""):
    """declaration (document) order, with group path"""
    for m in node.members:
        if isinstance(m, Var):
            m.path = (prefix + "/" + m.name) if prefix else m.name
            yield m
        else:
            yield from variables(m, prefix + "/" + m.name)


def render_dmr(root):
    out = ['<?xml version="1.0" encoding="ISO-8859-1"?>\n',
           '<Dataset xmlns="http://xml.opendap.org/ns/DAP/4.0#" dapVersion="4.0" dmrVersion="1.0" name="%s">\n' % root.name]

    def body(node, ind):
        for dn, size in node.dims:
            out.append('%s<Dimension name="%s" size="%d"/>\n' % (ind, dn, size))
        for m in node.members:
            if isinstance(m, Var):
                out.append('%s<%s name="%s">\n' % (ind, m.type, m.name))
                for d in m.dims:
                    if d[0] == "anon":
                        out.append('%s    <Dim size="%d"/>\n' % (ind, d[1]))
                    else:
                        out.append('%s    <Dim name="%s"/>\n' % (ind, d[1]))
                out.append('%s</%s>\n' % (ind, m.type))
            else:
                out.append('%s<Group name="%s">\n' % (ind, m.name))
                body(m, ind + "    ")
                out.append('%s</Group>\n' % ind)

    body(root, "    ")
    out.append("</Dataset>\n")
    return "".join(out).encode("ascii")


def chunk(flags, payload):
    assert len(payload) < (1 << 24)
    return bytes([flags]) + len(payload).to_bytes(3, "big") + payload


def serialize(vs, little):
    """payload of the given variables (list of (Var, array)), each followed by a 4-byte checksum"""
    parts = []
    for v, arr in vs:
        code = ("<" if little else ">") + TYPES[v.type][0]
        raw = np.ascontiguousarray(arr).astype(code).tobytes()
        cks = zlib.crc32(raw).to_bytes(4, "little" if little else "big")
        parts.append((raw, cks))
    return parts


def respond(dmr, payload, little, sizes, flag_all=True):
    """sizes: chunk sizes of the partition of payload (the remainder goes into the last chunk).
    flag_all=False: the byte-order bit is set on the first (DMR) chunk only - the first chunk is the authoritative one"""
    out = chunk(4 if little else 0, dmr)
    pos = 0
    pieces = []
    for s in sizes:
        pieces.append(payload[pos:pos + s])
        pos += s
    pieces.append(payload[pos:])
    for i, p in enumerate(pieces):
        last = i == len(pieces) - 1
        out += chunk((1 if last else 0) + (4 if (little and flag_all) else 0), p)
    return out


def partition_sizes(rng, n, mode):
    if mode == "one":
        return []
    if isinstance(mode, int):
        return [mode] * ((n - 1) // mode) if n > 0 else []
    sizes = []
    left = n
    while left > 0 and rng.random() < 0.8:
        s = rng.randint(0, min(left, 9))
        sizes.append(s)
        left -= s
    return sizes


def coq_values(v, arr):
    """Coq value list for the model: ints as VInt, floats as IEEE bit patterns"""
    code = TYPES[v.type][0]
    flat = np.ascontiguousarray(arr).reshape(-1)
    if code[0] == "f":
        bits = flat.astype(code).view("u" + code[1])
        return "[%s]" % "; ".join("VBits %d%%N" % int(b) for b in bits)
    return "[%s]" % "; ".join("VInt (%d)" % int(x) for x in flat)


# ------------------------------------------------------------------ a reference DAP4 server (WSGI)
class Dap4App:
    """Serves a dataset description (Node tree) over DAP4: <path>.dmr and <path>.dap?dap4.ce=<fqn><hyperslab>.
    Records the query strings it receives in .seen."""

    def __init__(self, root, little=True, chunk_sizes=(), flag_all=True):
        self.root, self.little, self.chunk_sizes, self.flag_all = root, little, tuple(chunk_sizes), flag_all
        self.seen = []

    def __call__(self, environ, start_response):
        from urllib.parse import unquote
        path = environ.get("PATH_INFO", "")
        q = unquote(environ.get("QUERY_STRING", ""))
        self.seen.append((path, q))
        if path.endswith(".dmr"):
            body = render_dmr(self.constrain(q)[0] if q.startswith("dap4.ce=") else self.root)
            start_response("200 OK", [("Content-Type", "application/vnd.opendap.dap4.dataset-metadata+xml"),
                                      ("Content-Length", str(len(body)))])
            return [body]
        if path.endswith(".dap"):
            try:
                body = self.dap(q)
            except Exception as e:  # noqa
                msg = ("bad constraint: %r" % (e,)).encode()
                start_response("400 Bad Request", [("Content-Type", "text/plain"), ("Content-Length", str(len(msg)))])
                return [msg]
            start_response("200 OK", [("Content-Type", "application/vnd.opendap.dap4.data"),
                                      ("Content-Length", str(len(body)))])
            return [body]
        start_response("404 Not Found", [("Content-Type", "text/plain")])
        return [b"not found"]

    def constrain(self, q):
        """dap4.ce=<fqn><hyperslab>[;<fqn><hyperslab>...] -> (constrained description, [(variable, constrained values)])"""
        import re
        assert q.startswith("dap4.ce=")
        sub = Node(self.root.name)
        picked = []
        for ce in q[len("dap4.ce="):].split(";"):
            m = re.match(r"^([^\[]+)((\[[^\]]*\])*)$", ce)
            fqn, slab = m.group(1), m.group(2)
            var = None
            for v in variables(self.root):
                if v.path.lstrip("/") == fqn.lstrip("/"):
                    var = v
            if var is None:
                raise KeyError(fqn)
            idx = []
            for part in re.findall(r"\[([^\]]*)\]", slab):
                t = [int(x) for x in part.split(":")]
                if len(t) == 1:
                    idx.append(slice(t[0], t[0] + 1, 1))
                elif len(t) == 2:
                    idx.append(slice(t[0], t[1] + 1, 1))
                else:
                    idx.append(slice(t[0], t[2] + 1, t[1]))
            if len(idx) > len(var.shape):
                raise IndexError("too many hyperslabs")
            arr = var.values[tuple(idx)] if idx else var.values
            # the constrained DMR declares only the named variables (inside their groups), with the constrained extents
            cur = sub
            parts = [p for p in var.path.split("/") if p]
            for g in parts[:-1]:
                nxt = [m_ for m_ in cur.members if isinstance(m_, Node) and m_.name == g]
                if nxt:
                    cur = nxt[0]
                else:
                    n = Node(g)
                    cur.members.append(n)
                    cur = n
            cur.members.append(Var(var.name, var.type, [("anon", int(e)) for e in arr.shape], arr))
            picked.append((var, arr))
        return sub, picked

    def dap(self, q):
        sub, picked = self.constrain(q)
        ser = serialize(picked, self.little)
        payload = b"".join(raw + cks for raw, cks in ser)
        return respond(render_dmr(sub), payload, self.little, self.chunk_sizes, self.flag_all)
