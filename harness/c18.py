"""C18 - all traffic of a dataset uses its session; caching never changes results.
Proof: props/C18.v (session invariant of the proxy model, session forwarding facts extracted from the source, cache-key soundness).
Correspondence: the read histories of C14 over {plain, cached, cached + consolidated keys} sessions mounted on a recording
adapter, with a sentinel that fails when any other session is created or used; server-function results and DAP4 variables;
cache keys of generated URL pairs vs the Gallina key function."""
import random
from urllib.parse import parse_qs, unquote, urlsplit

import c14 as H
import dap4ref as D
import transport as TR
from common import Report, clist, coq_eval_mismatches, proof_phase, use_repo

PID = "C18"
IMPORTS = "ProxyCases"


def cs(s):
    return '"%s"%%string' % s.replace('"', '""')


def main():
    r = Report(PID)
    rng = random.Random(r.seed)
    T = r.tier
    proof_phase(r, PID)
    use_repo()
    import numpy as np
    import requests
    from pydap.client import open_url, patch_session_for_shared_dap_cache
    from pydap.wsgi.ssf import ServerSideFunctions

    direct = []
    # ---- sentinel: no other session may be created or used while a dataset is in use
    created = []
    orig_init = requests.Session.__init__

    def spy_init(self, *a, **k):
        created.append(self)
        return orig_init(self, *a, **k)
    requests.Session.__init__ = spy_init
    try:
        # (1) derive/read histories over the three kinds of session
        for label, mk in (("plain", TR.plain_session), ("cached", TR.cached_session), ("cached+consolidated", TR.cached_session)):
            req_cases = []

            def make_session(app, label=label, mk=mk):
                s, a = mk(app)
                if label == "cached+consolidated":
                    patch_session_for_shared_dap_cache(s, ["/time"], [TR.BASE + "/data/coll/a.nc", TR.BASE + "/data/coll/b.nc"])
                created.clear()
                return s, a

            def on_request(adapter, sess):
                if adapter.anonymous and len(direct) < 10:
                    direct.append({"law": "every request carries the session's own headers (it is not sent as an anonymous request)",
                                   "session_kind": label, "requests_without_the_session_header": adapter.anonymous[:3]})
                    del adapter.anonymous[:]
                extra = [x for x in created if x is not sess]
                if extra and len(direct) < 10:
                    direct.append({"law": "no fresh anonymous session is created on behalf of an opened dataset",
                                   "session_kind": label, "created": len(extra)})
                    created.clear()
            before = len(direct)
            H.run_histories(r, random.Random(r.seed + 17), "quick" if T == "quick" else "thorough", make_session, direct, req_cases,
                            on_request=on_request)
            for d in direct[before:]:
                d.setdefault("session_kind", label)
        # (2) server functions and DAP4 variables through the session
        app = ServerSideFunctions(H.build_app())
        sess, adapter = TR.plain_session(app)
        created.clear()
        ds = open_url(TR.BASE + "/d", session=sess, protocol="dap2")
        adapter.seen.clear()
        try:
            res = ds.functions.mean(ds["x"], 0)
            val = np.asarray(res["x"].data[:])
            r.count(("function", "mean"))
            if not adapter.seen or [x for x in created if x is not sess]:
                direct.append({"law": "a server-function result is fetched through the dataset's session",
                               "requests_seen_by_session": len(adapter.seen), "other_sessions_created": len(created)})
            if not np.allclose(val, np.arange(12).reshape(3, 4).mean(axis=0)):
                direct.append({"law": "function proxy returns the function's values", "got": val.tolist()})
        except Exception as e:  # noqa
            direct.append({"law": "a server-function result is fetched through the dataset's session", "error": repr(e)[:300]})
        # (2b) no explicit session: the one open_url creates must carry every later request, function results included
        auto = []
        spy_adapter = TR.WSGIAdapter(app)

        def spy_mount(self, *a, **k):
            orig_init(self, *a, **k)
            auto.append(self)
            self.mount(TR.BASE, spy_adapter)  # longest prefix wins over the adapters create_session mounts
        requests.Session.__init__ = spy_mount
        try:
            ds2 = open_url(TR.BASE + "/d", protocol="dap2", session_kwargs={"token": "verif-token"})
            n_open = len(auto)
            own = ds2.session if hasattr(ds2, "session") else getattr(ds2, "_session", None)
            for what, fn in (("array", lambda: np.asarray(ds2["x"].data[0:2, 1:3])),
                             ("function", lambda: np.asarray(ds2.functions.mean(ds2["x"], 0)["x"].data[:])),
                             ("nested function", lambda: np.asarray(
                                 ds2.functions.mean(ds2.functions.mean(ds2["x"], 0), 0)["x"].data))):
                try:
                    fn()
                except Exception as e:  # noqa
                    direct.append({"law": "reads on a dataset opened without an explicit session succeed", "what": what,
                                   "error": repr(e)[:300]})
                r.count(("auto-session", what))
                if len(auto) > n_open:
                    direct.append({"law": "no fresh anonymous session is created on behalf of an opened dataset",
                                   "what": what + " read on a dataset opened with session_kwargs and no session",
                                   "sessions_created_after_open": len(auto) - n_open})
                    n_open = len(auto)
            if own is None or own not in auto:
                direct.append({"law": "dataset.session is the session the dataset was opened with", "got": repr(own)})
        finally:
            requests.Session.__init__ = spy_init
        # (2c) a session given together with other options (use_cache, session_kwargs, timeout) is still THE session
        for opts in ({"use_cache": True, "cache_kwargs": {"backend": "memory"}}, {"session_kwargs": {"token": "t"}}, {"timeout": 5}):
            sess3, ad3 = TR.plain_session(app)
            created.clear()
            try:
                ds3 = open_url(TR.BASE + "/d", session=sess3, protocol="dap2", **opts)
                ad3.seen.clear()
                np.asarray(ds3["x"].data[0:1, 0:2])
                list(ds3["q"].iterdata())
                r.count(("session+options", repr(sorted(opts))))
                extra = [x for x in created if x is not sess3]
                if not ad3.seen or extra or ds3.session is not sess3:
                    direct.append({"law": "every request of a dataset goes through the session it was opened with",
                                   "open_url_options": repr(opts), "requests_seen_by_the_given_session": len(ad3.seen),
                                   "other_sessions_created": len(extra), "dataset.session_is_the_given_one": ds3.session is sess3})
            except Exception as e:  # noqa
                direct.append({"law": "every request of a dataset goes through the session it was opened with",
                               "open_url_options": repr(opts), "error": repr(e)[:300]})
        # (2d) datasets opened with a constraint expression in the URL: metadata and data requests alike go out as the session's
        for mk in (TR.plain_session, TR.cached_session):
            for ce in ("x[0:1:1][0:1:2]", "x", "q.a,q.b&q.a>1", "q&q.a>1", "g[0:1:1][0:1:1]", "q.c"):
                sess5, ad5 = mk(app)
                created.clear()
                try:
                    ds5 = open_url(TR.BASE + "/d?" + ce, session=sess5, protocol="dap2")
                    for v in ds5.values():
                        if hasattr(v, "iterdata"):
                            list(v.iterdata())
                        elif hasattr(v, "array"):
                            np.asarray(v.array.data[...])
                        else:
                            np.asarray(v.data[...])
                    r.count(("ce-in-url", mk.__name__, ce))
                    extra = [x for x in created if x is not sess5]
                    if ad5.anonymous or extra or not ad5.seen:
                        direct.append({"law": "every request of a dataset opened with a constraint in its URL goes out through its session, "
                                              "carrying the session's headers", "url_constraint": ce, "session": mk.__name__,
                                       "requests_without_the_session_header": ad5.anonymous[:4], "other_sessions_created": len(extra)})
                except Exception as e:  # noqa
                    direct.append({"law": "a dataset opened with a constraint in its URL can be read through its session",
                                   "url_constraint": ce, "session": mk.__name__, "error": repr(e)[:300]})
        # (2d') copies of an array proxy (copy, deepcopy, pickle round trip - what dask or multiprocessing do with it): reading the
        # copy still goes out with the session's credentials, never through a fresh anonymous session
        import copy as _copy
        import pickle as _pickle
        for how, dup in (("copy.copy", _copy.copy), ("copy.deepcopy", _copy.deepcopy),
                         ("pickle", lambda o: _pickle.loads(_pickle.dumps(o)))):
            sess8, ad8 = TR.plain_session(app)
            try:
                ds8 = open_url(TR.BASE + "/d", session=sess8, protocol="dap2")
                proxies = [ds8["x"].data, ds8["g"].array.data if hasattr(ds8["g"], "array") else ds8["g"]["a"].data]
            except Exception as e:  # noqa
                direct.append({"law": "a dataset can be opened through its session", "error": repr(e)[:300]})
                continue
            for prox in proxies:
                try:
                    twin = dup(prox)
                except Exception:
                    continue          # (an object that cannot be copied that way makes no request at all)
                created.clear()
                del ad8.anonymous[:]
                r.count(("proxy-copy", how, type(prox).__name__))
                try:
                    got8 = np.asarray(twin[...])
                    ok8 = np.array_equal(got8, np.asarray(prox[...]))
                    err8 = None
                except Exception as e:  # noqa
                    ok8, err8 = False, repr(e)[:200]
                extra = [x for x in created if x is not sess8]
                if ad8.anonymous or extra or not ok8:
                    direct.append({"law": "a copy of a variable's proxy reads through the session the dataset was opened with (same "
                                          "credentials), not through a fresh anonymous session", "copied_with": how,
                                   "requests_without_the_session_header": ad8.anonymous[:3], "other_sessions_created": len(extra),
                                   "error": err8})
        # (2e) a server that answers with redirections: every hop is made by the dataset's session
        class Redirecting:
            def __init__(self, inner):
                self.inner = inner

            def __call__(self, environ, start_response):
                path = environ.get("PATH_INFO", "")
                if path.startswith("/old/"):
                    q = environ.get("QUERY_STRING", "")
                    loc = TR.BASE + "/new/" + path[len("/old/"):] + ("?" + q if q else "")
                    start_response("302 Found", [("Location", loc), ("Content-Length", "0")])
                    return [b""]
                return self.inner(environ, start_response)
        for mk in (TR.plain_session, TR.cached_session):
            sess6, ad6 = mk(Redirecting(app))
            created.clear()
            try:
                ds6 = open_url(TR.BASE + "/old/d", session=sess6, protocol="dap2")
                np.asarray(ds6["x"].data[0:2, 1:3])
                list(ds6["q"].iterdata())
                r.count(("redirect", mk.__name__))
                extra = [x for x in created if x is not sess6]
                followed = [u for m_, u in ad6.seen if "/new/" in u]
                if ad6.anonymous or extra or not followed:
                    direct.append({"law": "a redirection is followed by the dataset's own session (every hop reaches the session's adapter "
                                          "with the session's headers)", "session": mk.__name__,
                                   "redirected_requests_seen_by_the_session": len(followed),
                                   "requests_without_the_session_header": ad6.anonymous[:3], "other_sessions_created": len(extra)})
            except Exception as e:  # noqa
                direct.append({"law": "a redirection is followed by the dataset's own session", "session": mk.__name__,
                               "error": repr(e)[:300]})
        # (2f) a server that answers a transient 5xx now and then: whatever the client does next, it does through the session
        class Flaky:
            def __init__(self, inner):
                self.inner, self.n = inner, 0

            def __call__(self, environ, start_response):
                self.n += 1
                if self.n % 3 == 2:
                    start_response("503 Service Unavailable", [("Content-Type", "text/plain"), ("Content-Length", "4")])
                    return [b"busy"]
                return self.inner(environ, start_response)
        for mk in (TR.plain_session, TR.cached_session):
            sess7, ad7 = mk(Flaky(app))
            created.clear()
            outcomes = []
            for what in ("open", "array", "sequence", "open", "array"):
                try:
                    if what == "open":
                        ds7 = open_url(TR.BASE + "/d", session=sess7, protocol="dap2")
                    elif what == "array":
                        np.asarray(ds7["x"].data[0:2, 1:3])
                    else:
                        list(ds7["q"].iterdata())
                    outcomes.append("ok")
                except Exception as e:  # noqa  (an error is a legitimate answer to a 503; an anonymous retry is not)
                    outcomes.append(type(e).__name__)
            r.count(("flaky", mk.__name__))
            extra = [x for x in created if x is not sess7]
            if ad7.anonymous or extra:
                direct.append({"law": "after a transient server error every further request still goes through the dataset's session",
                               "session": mk.__name__, "outcomes": outcomes, "other_sessions_created": len(extra),
                               "requests_without_the_session_header": ad7.anonymous[:3]})
        root = D.Node("d4")
        arr = np.arange(6, dtype="i4").reshape(2, 3)
        root.members.append(D.Var("x", "Int32", [("anon", 2), ("anon", 3)], arr))
        app4 = D.Dap4App(root)
        sess4, ad4 = TR.plain_session(app4)
        created.clear()
        try:
            c4 = open_url(TR.BASE + "/d4", session=sess4, protocol="dap4")
            ad4.seen.clear()
            got = np.asarray(c4["x"].data[0:2, 1:3])
            r.count(("dap4", "read"))
            if not np.array_equal(got, arr[0:2, 1:3]):
                direct.append({"law": "DAP4 variable read", "got": got.tolist()})
            if not ad4.seen or [x for x in created if x is not sess4]:
                direct.append({"law": "a DAP4 variable is fetched through the dataset's session", "requests_seen": len(ad4.seen),
                               "other_sessions_created": len(created)})
        except Exception as e:  # noqa
            direct.append({"law": "a DAP4 variable is fetched through the dataset's session", "error": repr(e)[:300]})
        # (3) cached reads equal plain reads
        appc = H.build_app()
        sp, _ = TR.plain_session(appc)
        sc, ac = TR.cached_session(appc)
        dp = open_url(TR.BASE + "/d", session=sp, protocol="dap2")
        dc = open_url(TR.BASE + "/d", session=sc, protocol="dap2")
        for k in range(25 if T == "quick" else 200):
            idx = (slice(rng.randint(0, 1), rng.randint(2, 3)), slice(None, None, rng.randint(1, 2)))
            a = np.asarray(dp["x"].data[idx])
            b1 = np.asarray(dc["x"].data[idx])
            b2 = np.asarray(dc["x"].data[idx])
            r.count(("cached", repr(idx)))
            if not (np.array_equal(a, b1) and np.array_equal(a, b2)):
                direct.append({"law": "a caching session returns the same data as a plain session", "index": repr(idx)})
    finally:
        requests.Session.__init__ = orig_init

    # ---- (4) cache-key relation on generated URL pairs
    import requests_cache
    sess = requests_cache.CachedSession(backend="memory")
    shared = ["/time", "/lat", "/g/lon"]
    known = ["http://h1.org/data/coll/a.nc", "http://h1.org/data/coll/sub/b.nc"]
    patch_session_for_shared_dap_cache(sess, shared, known)
    base = ["data", "coll"]
    hosts = ["http://h1.org", "http://h2.org", "https://h1.org", "http://h1.org:8001", "http://h1.org:8002"]
    paths = ["/data/coll/a.nc.dap", "/data/coll/sub/b.nc.dap", "/data/coll2/a.nc.dap", "/data/col/a.nc.dap", "/other/x.nc.dap",
             "/data/coll/a.nc.dmr", "/data/coll", "/data/collx.dap"]
    ces = [None, "/time", "/lat", "/g/lon", "/temp", "/time[0:1:3]", "/ti"]
    others = [[], ["a=1"], ["a=1", "b=2"], ["b=2", "a=1"]]

    def mk_url():
        h, p, ce, o = rng.choice(hosts), rng.choice(paths), rng.choice(ces), rng.choice(others)
        q = list(o)
        if ce is not None:
            q.insert(rng.randint(0, len(q)), "dap4.ce=" + ce)
        return h, p, ce, o, h + p + ("?" + "&".join(q) if q else "")

    def c_url(h, p, ce, o):
        return "(mku %s %s %s %s)" % (cs(h), clist([x for x in p.split("/") if x], cs),
                                      "None" if ce is None else "(Some %s)" % cs(ce), clist(sorted(o), cs))
    key_cases = []

    def fixed_url(h, p, ce):
        return (h, p, ce, [], h + p + ("?dap4.ce=" + ce if ce is not None else ""))
    # every pair of hosts on two paths under the base (and on one path), with a shared and a private constraint: catches that do
    # not depend on the seed (ports, schemes, hosts)
    fixed_pairs = [(fixed_url(h1, pa, ce), fixed_url(h2, pb, ce)) for h1 in hosts for h2 in hosts
                   for pa, pb in (("/data/coll/a.nc.dap", "/data/coll/sub/b.nc.dap"), ("/data/coll/a.nc.dap", "/data/coll/a.nc.dap"))
                   for ce in ("/time", "/temp")]
    for it_ in range(len(fixed_pairs) + (500 if T == "quick" else 6000)):
        u1, u2 = mk_url(), mk_url()
        if it_ < len(fixed_pairs):
            u1, u2 = fixed_pairs[it_]
        elif rng.random() < 0.2:
            u2 = u1[:4] + (u1[4],)
        elif rng.random() < 0.6:
            # neighbours: same request except for one component (host/port, path, constraint, other parameters)
            h, p, ce, o = u1[:4]
            which = rng.randrange(4)
            if which == 0:
                h = rng.choice(hosts)
            elif which == 1:
                p = rng.choice(paths)
            elif which == 2:
                ce = rng.choice(ces)
            else:
                o = rng.choice(others)
            q = list(o)
            if ce is not None:
                q.insert(rng.randint(0, len(q)), "dap4.ce=" + ce)
            u2 = (h, p, ce, o, h + p + ("?" + "&".join(q) if q else ""))
        k1 = sess.cache.create_key(requests.Request("GET", u1[4]).prepare())
        k2 = sess.cache.create_key(requests.Request("GET", u2[4]).prepare())
        same = k1 == k2
        r.count(("key", u1[4], u2[4]))
        key_cases.append("(%s, (Some %s), %s, %s, %s)" % (clist(shared, cs), clist(base, cs), c_url(*u1[:4]), c_url(*u2[:4]),
                                                          "true" if same else "false"))
        # direct oracle: a shared entry only for the same URL or a declared shared constraint under the base on the same host
        if same and u1[4] != u2[4]:
            def inside(p):
                comps = [x for x in p.split("/") if x]
                return comps[:2] == base and len(comps) > 2
            norm1 = (u1[0], u1[1], u1[2], sorted(u1[3]))
            norm2 = (u2[0], u2[1], u2[2], sorted(u2[3]))
            legit = norm1 == norm2 or (u1[2] == u2[2] and u1[2] in shared and inside(u1[1]) and inside(u2[1]) and u1[0] == u2[0])
            if not legit and len(direct) < 12:
                direct.append({"law": "two requests share a cache entry only for the same URL or the same shared constraint under the common base",
                               "url1": u1[4], "url2": u2[4]})
    # ---- (4b) one session consolidated for TWO datacubes (different bases, different shared sets): a constraint declared shared for
    # one datacube is not shared under the base of the other
    sess2 = requests_cache.CachedSession(backend="memory")
    cubes = [(["/time", "/lat"], ["http://h1.org/cubeA/f1.nc", "http://h1.org/cubeA/f2.nc"], ["cubeA"]),
             (["/lon", "/lat2"], ["http://h1.org/cubeB/y1/g1.nc", "http://h1.org/cubeB/y2/g2.nc"], ["cubeB"])]
    for sh_, known_, _b in cubes:
        patch_session_for_shared_dap_cache(sess2, sh_, known_)

    def cube_key(h, p, ce, o):
        comps = [x for x in p.split("/") if x]
        for sh_, known_, b_ in cubes:
            if ce in sh_ and comps[:len(b_)] == b_ and len(comps) > len(b_):
                return ("shared", h, tuple(b_), ce)
        return ("url", h, p, ce, tuple(sorted(o)))
    paths2 = ["/cubeA/f1.nc.dap", "/cubeA/f2.nc.dap", "/cubeB/y1/g1.nc.dap", "/cubeB/y2/g2.nc.dap", "/cubeAB/f1.nc.dap", "/else/f.nc.dap"]
    ces2 = ["/time", "/lat", "/lon", "/lat2", "/temp", None]
    # every pair of paths with every constraint on one host first (the cross combinations of two datacubes included), then random pairs
    fixed2 = [(pa_, pb_, ce_) for pa_ in paths2 for pb_ in paths2 for ce_ in ces2 if pa_ < pb_]
    for it2_ in range(len(fixed2) + (150 if T == "quick" else 1500)):
        us = []
        for _k in range(2):
            h = rng.choice(["http://h1.org", "http://h2.org"])
            p2, ce, o = rng.choice(paths2), rng.choice(ces2), rng.choice(others)
            if it2_ < len(fixed2):
                h, p2, ce, o = "http://h1.org", fixed2[it2_][_k], fixed2[it2_][2], []
            q = list(o)
            if ce is not None:
                q.insert(rng.randint(0, len(q)), "dap4.ce=" + ce)
            us.append((h, p2, ce, o, h + p2 + ("?" + "&".join(q) if q else "")))
        k1 = sess2.cache.create_key(requests.Request("GET", us[0][4]).prepare())
        k2 = sess2.cache.create_key(requests.Request("GET", us[1][4]).prepare())
        r.count(("key2", us[0][4], us[1][4]))
        want_same = cube_key(*us[0][:4]) == cube_key(*us[1][:4])
        if (k1 == k2) != want_same and len(direct) < 12:
            direct.append({"law": "after consolidating one session for two datacubes, two requests share a cache entry only for the same URL or "
                                  "the same constraint declared shared for THEIR datacube, under its base",
                           "url1": us[0][4], "url2": us[1][4], "share_an_entry": k1 == k2, "should": want_same})
    try:
        bad = coq_eval_mismatches(PID + "_keys", IMPORTS, "chk_cachekey", key_cases,
                                  "list string * option (list string) * url * url * bool", shard=250, ztype=False)
    except RuntimeError as e:
        r.violation({"kind": "correspondence-broken", "error": str(e)[-1500:], "theorem": "cache key correspondence"}, found=False)
        bad = []
    r.extra["cases"] = {"cache_keys": len(key_cases)}
    r.extra["mismatches"] = {"cache_keys": len(bad)}
    r.cov["rule"] = ("(a) C14's derive/read histories over plain / cached / cached+consolidated sessions with a new-session sentinel; "
                     "(b) server-function result and DAP4 variable reads; (c) cached vs plain reads; (d) pairs of request URLs over hosts, "
                     "paths under/outside the base (incl. prefix-siblings), constraints inside/outside the shared set, parameter order; "
                     "distinct = distinct tuple")
    if key_cases:
        r.sample({"cache_key_case": key_cases[0]})
    seen = set()
    for d in direct:
        if d["law"] in seen:
            continue
        seen.add(d["law"])
        if len(seen) <= 5:
            r.violation(dict(d, kind="property-violated", how="recording transport / session sentinel / cache keys"), found=True)
    if not direct and bad:
        r.violation({"kind": "correspondence-broken", "theorem": "custom_create_key vs the Gallina cache_key (props/C18.v)",
                     "case": key_cases[bad[0]], "n_mismatches": len(bad)}, found=False)
    r.assumptions = [
        "requests-cache's own key is a function of the normalised request (method, URL with sorted parameters); modelled as the URL record",
        "session forwarding facts are syntactic (tools/gen_facts.py): a call passes an expression named ...session",
        "the Earthdata-specific branch of custom_create_key (host opendap.earthdata.nasa.gov) is not modelled nor exercised",
    ]
    r.finish()


if __name__ == "__main__":
    import common
    common.run(main, PID)
