"""C11 - a DMR parses to exactly the variables, shapes, paths and attributes it declares.
Proof: props/C11.v (for every document rendered from an abstract spec the parser model returns the declared variables).
Correspondence: DMR documents rendered by an independent generator from abstract specs (groups to depth 3, dimensions at any
level with repeated short names, every atomic type, mixed named / unnamed Dim references, attributes in the three value
syntaxes, Maps) and DMRs emitted by pydap's own DMR response: dmr_to_dataset vs the Gallina parse of the same element tree.
Direct oracle: the parsed dataset vs the abstract spec / the served dataset."""
import random
import re
from xml.etree import ElementTree as ET

from common import Report, clist, coq_eval_mismatches, proof_phase, use_repo
from c07 import ctext

PID = "C11"
IMPORTS = "DMRCases"

TYPES = {"Int8": ">i1", "UInt8": ">u1", "Byte": "|u1", "Char": ">u1", "Int16": ">i2", "UInt16": ">u2", "Int32": ">i4", "UInt32": ">u4",
         "Int64": ">i8", "UInt64": ">u8", "Float32": ">f4", "Float64": ">f8", "String": None}
ATTR_TYPES = ["Int8", "UInt8", "Byte", "Int16", "UInt16", "Int32", "UInt32", "Int64", "UInt64", "Float32", "Float64", "String", "URL"]
SHORT = ["x", "y", "t", "lat", "lon", "time", "z", "n"]
VARS = ["a", "b", "v", "w", "temp", "u", "sst", "k", "x", "time"]
GROUPS = ["g1", "g2", "sub", "A", "obs"]
ANAMES = ["units", "long_name", "valid_range", "scale", "fill", "title", "n", "valid range", "coord.sys", "x:y", "flag[0]"]
NS = "http://xml.opendap.org/ns/DAP/4.0#"


# ---------------------------------------------------------------- abstract specs
def gen_group(rng, depth, path, all_dims):
    """items of one group; registers its dimensions in all_dims[(path, name)] = size"""
    items = []
    used_dims, used_vars, used_groups = set(), set(), set()
    for _ in range(rng.randint(0, 3)):
        n = rng.choice(SHORT)
        if n not in used_dims:
            used_dims.add(n)
            size = rng.randint(1, 9)
            all_dims[(path, n)] = size
            items.append(("dim", n, size))
    pending = []
    for _ in range(rng.randint(0, 3)):
        n = rng.choice(VARS)
        if n not in used_vars and n not in used_groups:
            used_vars.add(n)
            pending.append(("var", n))
    if depth > 0:
        for _ in range(rng.randint(0, 2)):
            g = rng.choice(GROUPS)
            if g not in used_groups and g not in used_vars:
                used_groups.add(g)
                pending.append(("group", g))
    for _ in range(rng.randint(0, 2)):
        pending.append(("attr", None))
    rng.shuffle(pending)
    for kind, n in pending:
        if kind == "var":
            items.append(("varslot", n))
        elif kind == "group":
            items.append(("group", n, gen_group(rng, depth - 1, path + (n,), all_dims)))
        else:
            items.append(("attr", gen_attr(rng, set())))
    return items


def gen_attr(rng, used):
    for _ in range(20):
        # (an attribute may have the name of a variable, a group or a dimension)
        n = rng.choice(ANAMES if rng.random() < 0.75 else VARS + GROUPS + SHORT)
        if n not in used:
            break
    used.add(n)
    ty = rng.choice(ATTR_TYPES)
    cnt = rng.choice([1, 1, 2, 3])

    def val():
        if ty == "URL":
            return rng.choice(["http://example.org/a", "https://example.org/x?y=1", "file:///tmp/z"])
        if ty == "String":
            return rng.choice(["m", "degrees north", "a b", "x", "1.5", "T", " ", "   ", "  m "])
        if ty.startswith("Float"):
            return rng.choice(["1.5", "-0.25", "2", "1e-05", "6.02e+23", "0.0"])
        if ty == "UInt64":
            return str(rng.choice([0, 7, 2 ** 53 + 1, 2 ** 64 - 1]))
        if ty == "Int64":
            return str(rng.choice([0, -1, 2 ** 53 + 1, -(2 ** 53) - 1, 2 ** 63 - 1, -(2 ** 63)]))
        if ty == "UInt32":
            return str(rng.choice([0, 7, 2 ** 32 - 1]))
        if ty == "Int32":
            return str(rng.choice([0, -1, 2 ** 31 - 1, -(2 ** 31)]))
        if ty.startswith("U") or ty == "Byte":
            return str(rng.choice([0, 1, 7, 200, 255]))
        return str(rng.choice([0, 1, -1, 7, -100, 127]))
    inline = val() if rng.random() < 0.3 else None
    values = [(rng.choice(["text", "attr"]), val()) for _ in range(cnt - (1 if inline is not None else 0))]
    return (n, ty, inline, values)


def fill_vars(rng, items, path, all_dims, broken):
    out = []
    dims_list = sorted(all_dims)
    for it in items:
        if it[0] == "varslot":
            rank = rng.choice([0, 1, 1, 2, 3])
            refs = []
            for _ in range(rank):
                if dims_list and rng.random() < 0.7:
                    p, n = rng.choice(dims_list)
                    refs.append(("named", p, n))
                else:
                    refs.append(("anon", rng.randint(1, 6)))
            if broken and rng.random() < 0.5:
                refs.append(("named", path, "nope"))
            used = set()
            attrs = [gen_attr(rng, used) for _ in range(rng.randint(0, 3))]
            maps = []
            for r_ in refs:
                if r_[0] == "named" and rng.random() < 0.3:
                    maps.append("/" + "/".join(r_[1] + (r_[2],)))
            out.append(("var", rng.choice(list(TYPES)), it[1], refs, attrs, maps))
        elif it[0] == "group":
            out.append(("group", it[1], fill_vars(rng, it[2], path + (it[1],), all_dims, broken)))
        else:
            out.append(it)
    return out


# ---------------------------------------------------------------- reference renderer (text)
def esc(s):
    return s.replace("&", "&amp;").replace("<", "&lt;").replace('"', "&quot;")


def render_attr(a, ind):
    n, ty, inline, values = a
    head = '%s<Attribute name="%s" type="%s"%s' % (ind, esc(n), ty, ' value="%s"' % esc(inline) if inline is not None else "")
    if not values:
        return head + "/>\n"
    body = ""
    for kind, v in values:
        body += ('%s    <Value>%s</Value>\n' % (ind, esc(v))) if kind == "text" else ('%s    <Value value="%s"/>\n' % (ind, esc(v)))
    return head + ">\n" + body + "%s</Attribute>\n" % ind


def render_items(items, lvl):
    ind = "    " * lvl
    out = ""
    for it in items:
        if it[0] == "dim":
            out += '%s<Dimension name="%s" size="%d"/>\n' % (ind, it[1], it[2])
        elif it[0] == "var":
            _, ty, n, refs, attrs, maps = it
            out += '%s<%s name="%s">\n' % (ind, ty, n)
            for r_ in refs:
                out += ('%s    <Dim name="/%s"/>\n' % (ind, "/".join(r_[1] + (r_[2],)))) if r_[0] == "named" else (
                    '%s    <Dim size="%d"/>\n' % (ind, r_[1]))
            for a in attrs:
                out += render_attr(a, ind + "    ")
            for m in maps:
                out += '%s    <Map name="%s"/>\n' % (ind, m)
            out += "%s</%s>\n" % (ind, ty)
        elif it[0] == "group":
            out += '%s<Group name="%s">\n%s%s</Group>\n' % (ind, it[1], render_items(it[2], lvl + 1), ind)
        else:
            out += render_attr(it[1], ind)
    return out


def render_doc(name, items):
    return ('<?xml version="1.0" encoding="ISO-8859-1"?>\n<Dataset xmlns="%s" dapVersion="4.0" dmrVersion="1.0" name="%s">\n%s</Dataset>\n'
            % (NS, name, render_items(items, 1)))


# ---------------------------------------------------------------- expectations from the spec
def expected_vars(items, path, all_dims):
    """[(fqn, type, shape or None, dims, maps, path, attrs)] in document order"""
    out = []
    for it in items:
        if it[0] == "var":
            _, ty, n, refs, attrs, maps = it
            shape = []
            for r_ in refs:
                if r_[0] == "anon":
                    shape.append(r_[1])
                else:
                    shape.append(all_dims.get((r_[1], r_[2])))
            fq = n if not path else "/" + "/".join(path + (n,))
            dims = ["/" + "/".join(r_[1] + (r_[2],)) for r_ in refs if r_[0] == "named"]
            out.append((fq, ty, None if None in shape else tuple(shape), dims, list(maps), ("/" + "/".join(path)) if path else None, attrs))
        elif it[0] == "group":
            out += expected_vars(it[2], path + (it[1],), all_dims)
    return out


def attr_value(a):
    n, ty, inline, values = a
    raw = ([inline] if inline is not None else []) + [v for _, v in values]
    if ty in ("String", "URL"):
        vals = raw
    elif ty.startswith("Float"):
        vals = [float(x) for x in raw]
    else:
        vals = [int(x) for x in raw]
    return vals[0] if len(vals) == 1 else vals


# ---------------------------------------------------------------- Coq terms
def cs(s):
    return ctext(s)


def c_xml(e):
    text = e.text
    return "(X %s %s %s %s)" % (cs(e.tag), clist(list(e.attrib.items()), lambda kv: "(%s, %s)" % (cs(kv[0]), cs(kv[1]))),
                                "None" if text is None else "(Some %s)" % cs(text), clist(list(e), c_xml))


def whole_picture(ds):
    """everything a parsed dataset holds, groups included, in a comparable form"""
    import numpy as np

    def attrs(d):
        return sorted((str(k), repr(v.tolist() if isinstance(v, np.ndarray) else v)) for k, v in dict(d).items())

    def pic(v):
        kids = list(v.children()) if hasattr(v, "children") else []
        return (type(v).__name__, v.name, attrs(v.attributes), repr(getattr(v, "dims", None)), repr(getattr(v, "shape", None)),
                repr(getattr(v, "dtype", None)), repr(getattr(v, "Maps", None)), repr(sorted(getattr(v, "dimensions", {}).items()))
                if isinstance(getattr(v, "dimensions", None), dict) else repr(getattr(v, "dimensions", None)),
                [pic(k) for k in kids])
    groups = getattr(ds, "groups", None)
    gpic = []
    if callable(groups):
        try:
            groups = groups()
        except Exception:  # noqa
            groups = None
    if isinstance(groups, dict):
        gpic = sorted((str(k), repr(v)) for k, v in groups.items())
    return (pic(ds), gpic)


def observe(ds, fq, ty):
    """(name, tag, shape, dims, maps, path, [(attr, count)]) of the parsed variable addressed by its group path"""
    import numpy as np
    v = ds[fq]
    want_dt = TYPES[ty]
    if want_dt is None:
        tag = ty if v.dtype.kind in "SU" else "MISMATCH:%s" % v.dtype
    else:
        tag = ty if np.dtype(v.dtype) == np.dtype(want_dt) else "MISMATCH:%s" % v.dtype
    attrs = []
    for k, val in v.attributes.items():
        if k in ("Maps", "path"):
            continue
        attrs.append((k, len(val) if isinstance(val, list) else (0 if val is None else 1)))
    maps = list(v.attributes.get("Maps", ()))
    return (v.name if False else fq, tag, tuple(v.shape), list(v.dims), maps, v.attributes.get("path"), attrs)


def c_obs(o):
    name, tag, shape, dims, maps, path, attrs = o
    return "(%s, %s, %s, %s, %s, %s, %s)" % (
        cs(name), cs(tag), clist(list(shape), lambda n: "%d%%nat" % n), clist(dims, cs),
        clist(maps, lambda m: "None" if m is None else "(Some %s)" % cs(m)),
        "None" if path is None else "(Some %s)" % cs(path), clist(attrs, lambda a: "(%s, %d%%nat)" % (cs(a[0]), a[1])))


def main():
    r = Report(PID)
    rng = random.Random(r.seed)
    T = r.tier
    proof_phase(r, PID)
    use_repo()
    import numpy as np
    from pydap.lib import walk
    from pydap.model import BaseType, DatasetType
    from pydap.parsers.dmr import dmr_to_dataset
    from pydap.responses.dmr import dmr as dmr_response

    direct, cases = [], []
    previous_doc = None
    stats = {"documents": 0, "variables": 0, "groups_depth": {}, "mixed_dims": 0, "repeated_short_names": 0, "broken_refs": 0,
             "attributes": 0, "served": 0}

    def strip_ns(text):
        return re.sub(' xmlns="[^"]+"', "", text, count=1)

    # ---- (1) documents rendered from abstract specs
    n_docs = 150 if T == "quick" else 2500
    for i in range(n_docs):
        all_dims = {}
        depth = rng.choice([0, 1, 2, 3])
        skeleton = gen_group(rng, depth, (), all_dims)
        broken = rng.random() < 0.06
        items = fill_vars(rng, skeleton, (), all_dims, broken)
        text = render_doc("ds%d" % i, items)
        stats["documents"] += 1
        stats["groups_depth"][depth] = stats["groups_depth"].get(depth, 0) + 1
        names = [n for (_, n) in all_dims]
        stats["repeated_short_names"] += len(names) != len(set(names))
        exp = expected_vars(items, (), all_dims)
        stats["variables"] += len(exp)
        stats["mixed_dims"] += sum(1 for e in exp if e[3] and e[2] is not None and len(e[3]) != len(e[2]))
        r.count(("doc", text))
        root = ET.fromstring(strip_ns(text))
        try:
            ds = dmr_to_dataset(text)
        except Exception as e:  # noqa
            if any(e_[2] is None for e_ in exp):
                stats["broken_refs"] += 1
                cases.append("(%s, None)" % c_xml(root))
            else:
                direct.append({"law": "a DMR whose references all resolve can be parsed", "dmr": text, "error": repr(e)[:300]})
            continue
        if any(e_[2] is None for e_ in exp):
            direct.append({"law": "a reference to an undeclared dimension is not silently resolved", "dmr": text})
            continue
        observed = []
        problems = []
        # parsing is a function of the text: the same document parsed again (other documents in between) gives the same dataset,
        # groups with their attributes and dimension tables included
        try:
            again = dmr_to_dataset(text)
            if whole_picture(again) != whole_picture(ds):
                problems.append(("<dataset>", "second parse of the same text differs", repr(whole_picture(again))[:200], repr(whole_picture(ds))[:200]))
        except Exception as e:  # noqa
            problems.append(("<dataset>", "second parse of the same text raises", repr(e)[:150], ""))
        if previous_doc is not None and rng.random() < 0.5:
            try:
                if whole_picture(dmr_to_dataset(previous_doc[0])) != previous_doc[1]:
                    problems.append(("<dataset>", "an earlier document parsed again differs", "", ""))
            except Exception as e:  # noqa
                problems.append(("<dataset>", "an earlier document parsed again raises", repr(e)[:150], ""))
        previous_doc = (text, whole_picture(ds))
        for fq, ty, shape, dims, maps, path, attrs in exp:
            try:
                o = observe(ds, fq, ty)
            except Exception as e:  # noqa
                problems.append((fq, "not addressable by its group path", repr(e)[:120]))
                continue
            observed.append(o)
            if o[1] != ty:
                problems.append((fq, "type", o[1], ty))
            if o[2] != shape:
                problems.append((fq, "shape", o[2], shape))
            if o[3] != dims:
                problems.append((fq, "dims", o[3], dims))
            if o[4] != maps:
                problems.append((fq, "maps", o[4], maps))
            v = ds[fq]
            stats["attributes"] += len(attrs)
            want_attrs = {a[0]: attr_value(a) for a in attrs}
            got_attrs = {k: x for k, x in v.attributes.items() if k not in ("Maps", "path")}
            if list(got_attrs) != list(want_attrs):
                problems.append((fq, "attribute names", list(got_attrs), list(want_attrs)))
            else:
                for k in want_attrs:
                    a, b = want_attrs[k], got_attrs[k]
                    la, lb = (a if isinstance(a, list) else [a]), (b if isinstance(b, list) else [b])
                    if isinstance(a, list) != isinstance(b, list) or len(la) != len(lb) or any(
                            type(x) is not type(y) or x != y for x, y in zip(la, lb)):
                        problems.append((fq, "attribute " + k, repr(b), repr(a)))
        # the attributes of the dataset and of every group: their own Attribute elements, nothing else
        def container_attrs(its, path):
            yield path, [it[1] for it in its if it[0] == "attr"]
            for it in its:
                if it[0] == "group":
                    yield from container_attrs(it[2], path + (it[1],))
        for cpath, cattrs in container_attrs(items, ()):
            where = "<group /%s>" % "/".join(cpath) if cpath else "<dataset>"
            try:
                node = ds
                for g_ in cpath:
                    node = node[g_]
                got_attrs = {k: x for k, x in node.attributes.items() if k not in ("Maps", "path", "dimensions")}
            except Exception as e:  # noqa
                problems.append((where, "group not addressable", repr(e)[:120], ""))
                continue
            want_attrs = {a[0]: attr_value(a) for a in cattrs}
            stats["container_attributes"] = stats.get("container_attributes", 0) + len(want_attrs)
            if list(got_attrs) != list(want_attrs):
                problems.append((where, "attribute names", list(got_attrs), list(want_attrs)))
            else:
                for k in want_attrs:
                    a, b = want_attrs[k], got_attrs[k]
                    la, lb = (a if isinstance(a, list) else [a]), (b if isinstance(b, list) else [b])
                    if isinstance(a, list) != isinstance(b, list) or len(la) != len(lb) or any(
                            type(x) is not type(y) or x != y for x, y in zip(la, lb)):
                        problems.append((where, "attribute " + k, repr(b), repr(a)))
        n_parsed = len(list(walk(ds, BaseType)))
        if n_parsed != len(exp):
            problems.append(("<dataset>", "number of variables", n_parsed, len(exp)))
        if problems:
            direct.append({"law": "parsing a DMR yields one variable per declared atomic variable with the declared type, resolved shape, "
                                  "fully qualified dimension names, maps and attributes", "dmr": text,
                           "differences": [list(map(str, p)) for p in problems[:6]]})
        if len(observed) == len(exp):
            cases.append("(%s, Some %s)" % (c_xml(root), clist(observed, c_obs)))

    # ---- (2) DMRs emitted by pydap's own DMR response
    n_srv = 60 if T == "quick" else 800
    for i in range(n_srv):
        # extents from 0 (an empty dimension is a dimension) to 5
        dims = {n: rng.choice([0, 1, 2, 3, 4, 5]) for n in rng.sample(SHORT, rng.randint(1, 3))}
        ds = DatasetType("srv%d" % i, dimensions=dict(dims))
        spec = []
        gdims = {(): dims}

        def add_vars(path, used):
            for _ in range(rng.randint(0, 3)):
                n = rng.choice([v for v in VARS if v not in used] or ["q%d" % len(used)])
                used.add(n)
                avail = [(p, d, s) for p, dd in gdims.items() if path[:len(p)] == p for d, s in dd.items()]
                refs = [rng.choice(avail) for _ in range(rng.choice([0, 1, 2, 2, 3]))] if avail else []
                dt = rng.choice(["i1", "u1", "i2", "u2", "i4", "u4", "i8", "u8", "f4", "f8"])
                # the same 64 bit types spelled with their C names (dtype.char is q/Q, not l/L)
                spelled = {"i8": "q", "u8": "Q"}[dt] if dt in ("i8", "u8") and rng.random() < 0.5 else dt
                shape = tuple(s for _, _, s in refs)
                fq = ("/" + "/".join(path + (n,))) if path else n
                dnames = tuple("/" + "/".join(p + (d,)) for p, d, _ in refs)
                # the byte order the data happens to be stored in is not part of the type
                extra = {}
                if spec and rng.random() < 0.3:          # Maps naming variables declared earlier
                    extra["Maps"] = tuple(rng.sample([s_[0] if s_[0].startswith("/") else "/" + s_[0] for s_ in spec], 1))
                if rng.random() < 0.3:                   # text that has to be escaped in XML
                    extra["note"] = rng.choice(["m&s", "a<b", "x>y & z", "plain"])
                ds.createVariable(fq, data=np.zeros(shape, dtype=rng.choice(["<", ">", "="]) + spelled if dt[1] != "1" else dt), dims=dnames,
                                  **extra)
                spec.append((fq, dt, shape, list(dnames)))
        add_vars((), set())
        for g in rng.sample(GROUPS, rng.randint(0, 2)):
            gd = {n: rng.choice([0, 1, 2, 3, 5]) for n in rng.sample(SHORT, rng.randint(0, 2))}
            if gd or rng.random() < 0.5:
                ds.createGroup("/" + g, dimensions=dict(gd))
            else:
                ds.createGroup("/" + g)            # a group that declares no dimensions at all
            gdims[(g,)] = gd
            add_vars((g,), set())
            if rng.random() < 0.5:
                g2 = rng.choice([x for x in GROUPS if x != g])
                gd2 = {n: rng.choice([0, 1, 2, 4, 5]) for n in rng.sample(SHORT, rng.randint(0, 2))}
                ds.createGroup("/%s/%s" % (g, g2), dimensions=dict(gd2))
                gdims[(g, g2)] = gd2
                add_vars((g, g2), set())
        stats["served"] += 1
        r.count(("served", repr(spec)))
        try:
            text = "".join(dmr_response(ds))
        except Exception as e:  # noqa
            direct.append({"law": "the server emits a DMR for a dataset with groups", "dataset": repr(spec)[:800], "error": repr(e)[:300]})
            continue
        try:
            p = dmr_to_dataset(text)
        except Exception as e:  # noqa
            direct.append({"law": "the DMR the server emits parses back", "dmr": text, "error": repr(e)[:300]})
            continue
        problems = []
        observed = []
        for fq, dt, shape, dnames in spec:
            try:
                v = p[fq]
            except Exception as e:  # noqa
                problems.append((fq, "missing after the round trip", repr(e)[:100]))
                continue
            if np.dtype(v.dtype).newbyteorder("=") != np.dtype(dt).newbyteorder("=") or tuple(v.shape) != shape or list(v.dims) != dnames:
                problems.append((fq, "dtype/shape/dims", (str(v.dtype), tuple(v.shape), list(v.dims)), (dt, shape, dnames)))
        if len(list(walk(p, BaseType))) != len(spec):
            problems.append(("<dataset>", "number of variables", len(list(walk(p, BaseType))), len(spec)))
        if problems:
            direct.append({"law": "the DMR that the server emits for a dataset parses back to that dataset's variables, types and shapes",
                           "dmr": text, "differences": [list(map(str, x)) for x in problems[:6]]})
            continue
        # correspondence on the served document: same order as the document
        root = ET.fromstring(strip_ns(text))
        order = []

        def doc_vars(e, prefix):
            for k in e:
                if k.tag in TYPES:
                    order.append(((prefix + "/" + k.get("name")) if prefix else k.get("name"), k.tag))
                elif k.tag == "Group":
                    doc_vars(k, prefix + "/" + k.get("name"))
        doc_vars(root, "")
        try:
            observed = [observe(p, fq, tag) for fq, tag in order]
            cases.append("(%s, Some %s)" % (c_xml(root), clist(observed, c_obs)))
        except Exception:  # noqa
            pass

    try:
        bad = coq_eval_mismatches(PID, IMPORTS, "chk_dmr", cases, "xml * option (list obs)", shard=60, ztype=False)
    except RuntimeError as e:
        r.violation({"kind": "correspondence-broken", "error": str(e)[-1500:], "theorem": "C11 correspondence"}, found=False)
        bad = []
    r.extra["cases"] = {"documents": len(cases)}
    r.extra["mismatches"] = {"documents": len(bad)}
    r.extra["distribution"] = stats
    r.cov["rule"] = ("(a) DMR documents rendered by an independent generator: groups nested to depth 0-3 with interleaved declarations, "
                     "dimensions at any level (8 short names, repeated across groups), 13 variable types, rank 0-3 with named / unnamed / "
                     "mixed Dim references to any group, attributes of 12 types in the three value syntaxes (inline, text, value=), Maps, "
                     "6% documents with an undeclared reference; (b) datasets with groups built through createGroup / createVariable, "
                     "served by pydap's DMR response and parsed back; distinct = distinct document")
    if cases:
        r.sample({"case": cases[0][:900]})
    seen = set()
    for d in direct:
        if d["law"] in seen:
            continue
        seen.add(d["law"])
        r.violation(dict(d, kind="property-violated", how="pydap DMR parser against the abstract spec / the served dataset"), found=True)
    if not direct and bad:
        r.violation({"kind": "correspondence-broken", "theorem": "dmr_to_dataset vs the Gallina model parse_dmr (props/C11.v)",
                     "case": cases[bad[0]][:3000], "n_mismatches": len(bad)}, found=False)
    r.assumptions = [
        "xml.etree.ElementTree (text -> element tree) is outside the model: the harness parses the same text and hands the tree to the model",
        "attribute values are strings in the model; their conversion (float / int / literal_eval) is compared by the oracle only",
        "placement of the parsed variables inside DatasetType (createVariable / createGroup) is observed through ds[<group path>], not modelled",
        "Structure / Sequence members inside a DMR are not generated",
    ]
    r.finish()


if __name__ == "__main__":
    import common
    common.run(main, PID)
