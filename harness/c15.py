"""C15 - every request gets a complete HTTP answer: data or a DAP error document.
Proof: props/C15.v over the statement list of BaseHandler.__call__ extracted from the source on this run.
Correspondence / search: requests drawn from a CE grammar with injected faults against BaseHandler applications;
outcome class (200 + content type | error document | raised) is observed, bodies are read to their end."""
import random
from urllib.parse import unquote
import re

from common import Report, known_findings, proof_phase, use_repo

PID = "C15"

CONTENT = {"dds": "text/plain", "das": "text/plain", "dods": "application/octet-stream", "ascii": "text/plain",
           "asc": "text/plain", "ver": "application/json", "html": "text/html"}
ERR_RE = re.compile(r'^Error \{\n    code = -?\d+;\n    message = ".*";\n\}$', re.S)


def main():
    r = Report(PID)
    rng = random.Random(r.seed)
    T = r.tier
    ok = proof_phase(r, PID)
    use_repo()
    import numpy as np
    from webob import Request
    from pydap.handlers.lib import BaseHandler, IterData
    from pydap.model import BaseType, DatasetType, GridType, SequenceType, StructureType

    ds = DatasetType("d", title="t")
    # an attribute that is not ASCII (a unit like this is common): the DAS is still an answer that can be read to its end
    ds["x"] = BaseType("x", np.arange(10, dtype="i4"), units="\u00b0C", long_name="temp\u00e9rature")
    ds["f"] = BaseType("f", np.arange(12, dtype="f8").reshape(3, 4) / 3)
    ds["s"] = BaseType("s", np.array(["ab", "c", ""]))
    ds["b"] = BaseType("b", np.array(7, dtype="u1"))
    ds["flag"] = BaseType("flag", np.array([True, False, True, True, False, True]))      # numpy bool: sent as DAP2 Byte
    ds["by"] = BaseType("by", np.arange(7, dtype="u1"))
    g = GridType("g")
    g["a"] = BaseType("a", np.arange(12, dtype="i2").reshape(3, 4), dims=("y", "z"))
    g["y"] = BaseType("y", np.arange(3) * 10.0)
    g["z"] = BaseType("z", np.arange(4) * 100.0)
    ds["g"] = g
    st = StructureType("st")
    st["m"] = BaseType("m", np.arange(4, dtype="u2"))
    st["n"] = BaseType("n", np.array(2.5))
    ds["st"] = st
    sq = SequenceType("q")
    for c in ("a", "b", "c"):
        sq[c] = BaseType(c)
    sq.data = np.array([(1, 2.5, "u"), (3, 4.5, "vw"), (5, -1.0, "")], dtype=[("a", "i4"), ("b", "f8"), ("c", "S2")])
    ds["q"] = sq
    lz = SequenceType("lz")
    lz["k"] = BaseType("k")
    lz["v"] = BaseType("v")
    lz.data = IterData([(np.int32(1), np.float64(0.5)), (np.int32(2), np.float64(1.5))], lz)
    ds["lz"] = lz
    apps = {"plain": BaseHandler(ds), "gzip": BaseHandler(ds, gzip=True)}

    def small_blocks(environ, start_response, inner=BaseHandler(ds)):
        # the same application streaming its arrays in blocks of a few bytes (environ key pydap.buffer_size, a deployment setting)
        environ["pydap.buffer_size"] = 3
        return inner(environ, start_response)
    apps["small-blocks"] = small_blocks

    def raw_length_problem(app_, url_, path_):
        """the answer taken at the WSGI level, as a server would: -> None, or what is wrong with its Content-Length"""
        req_ = Request.blank(url_)
        if path_ == "":
            req_.path_info = ""
        got_ = {}

        def sr(status, headers, exc_info=None):
            got_["status"], got_["headers"] = status, headers
            return lambda b: None
        try:
            it_ = app_(req_.environ, sr)
            n_ = sum(len(chunk) for chunk in it_)
            if hasattr(it_, "close"):
                it_.close()
        except Exception:
            return None          # (failures while the body is produced are what the main classification reports)
        cl = [v for k, v in got_.get("headers", []) if k.lower() == "content-length"]
        if cl and int(cl[0]) != n_:
            return "Content-Length %s, body of %d bytes (status %s)" % (cl[0], n_, got_.get("status"))
        return None

    names = ["x", "f", "s", "b", "flag", "by", "g", "g.a", "g.y", "st", "st.m", "st.n", "q", "q.a", "q.c", "lz", "lz.k", "nope", "x.y", "q.zz", ""]
    shapes = {"x": (10,), "flag": (6,), "by": (7,), "f": (3, 4), "s": (3,), "g": (3, 4), "g.a": (3, 4), "g.y": (3,), "st.m": (4,)}

    def valid_slab(name):
        sh = shapes.get(name)
        if not sh:
            return ""
        out = ""
        for n in sh:
            a = rng.randrange(n)
            b = rng.randrange(a, n)
            out += rng.choice(["[%d:%d]" % (a, b), "[%d:%d:%d]" % (a, rng.randint(1, 3), b), "[%d]" % a])
        return out

    def bad_slab():
        return rng.choice(["[a]", "[1:2", "1:2]", "[5:2]", "[-1]", "[0:1:99999999999999999999]", "[1:2:3:4]", "[]", "[0:0:3]", "[1.5]",
                           "[0][0][0][0][0]", "[9999]", "[:]", "[1:]", "[ 1 ]", "[0x1]", "[1:-1:5]", "[[1]]", "(1)"])

    def valid_projection():
        vars_, roots = [], set()
        for v in rng.sample(["x", "f", "s", "b", "flag", "by", "g", "g.a", "st", "st.m", "st.n", "q", "q.a", "lz"], rng.randint(1, 3)):
            if v.split(".")[0] not in roots:         # one projection item per top-level variable
                roots.add(v.split(".")[0])
                vars_.append(v)
        return ",".join(v + (valid_slab(v) if rng.random() < 0.5 else "") for v in vars_)

    def valid_selection():
        return rng.choice(["q.a>1", "q.b<=4.5", "q.a!=3", "q.a=1", "q.b>=q.a", 'q.c="u"', "lz.k>1", "q.a<5&q.b>0"])

    def valid_ce():
        k = rng.random()
        if k < 0.15:
            return ""
        if k < 0.6:
            return valid_projection()
        if k < 0.8:
            return rng.choice(["q", "q.a,q.b", "lz", "q.c"]) + "&" + valid_selection()
        return valid_selection()

    def faulty_ce():
        k = rng.randrange(14)
        if k == 0:
            return rng.choice(names) + bad_slab()
        if k == 1:
            return "nope,x"
        if k == 2:
            return "q&q.a>>1"
        if k == 3:
            return rng.choice(["q&q.a>'z'", "lz&lz.k>'z'", "lz&lz.v<abc", "lz.k&lz.k>0&lz.v<'a'", "lz&lz.zz>1", "lz&lz.k>\"s\""])
        if k == 4:
            return "q&q.zz>1"
        if k == 5:
            return "q&" + rng.choice(["q.a>", ">1", "q.a=~1", "q.a<abc", "q.a==1", "q.b<[1]", "q.a>1&&", "q.c<1"])
        if k == 6:
            return rng.choice(["f(x)", "f(x", "mean(x,0)", "bounds(0,1", "x,f(", "g(", ")", "q&f(q.a)"])
        if k == 7:
            return "dap4.ce=" + rng.choice(["x", "/x[0:1]", ""])
        if k == 8:
            return rng.choice(["x%5B0%5D", "x[0]%", "%", "%zz", "x%2Cf", "%00", "x%5B", "q%26q.a%3E1", "x[0:1]%5D"])
        if k == 9:
            return rng.choice(["x,,x", "&&", ",", "x&", "&x", "x[0:1],", "x x", "x;f", "x|f"])
        if k == 10:
            return valid_projection() + bad_slab()
        if k == 11:
            return "".join(rng.choice("xfq.[]:,&<>=()%0123456789 \"'") for _ in range(rng.randint(1, 14)))
        if k == 12:
            return rng.choice(["st[0]", "q[0:1][0:1]", "q.a[0]", "g[0:1]", "b[0]", "st.n[0]", "lz[0:1]", "q[1]"])
        return rng.choice(["x" + "[0:1]" * 40, "a" * 3000, "x[0:" + "9" * 400 + "]",
                           # requests long enough for the error document to echo several KiB
                           "a" * 6000, "x." + "v" * 5000, "dap4.ce=/" + "x" * 5000, "x[" + ":".join(["1"] * 2500) + "]",
                           # faults whose offending text is echoed in the error message, with non-ASCII characters in it
                           "x[%C3%A9]", "q&q.a>%22%C3%A9", "lz&lz.k>%C3%A9%20%C3%A9", "f[%E2%82%AC:1]", "q&q.c=%22%C3%A9",
                           # a variable named twice, the second hyperslab starting beyond what the first one left
                           "x[2],x[2]", "x[5:9],x[3]", "f[1][0:1],f[1]", "st.m[2:3],st.m[2]", "g[1:2][0:1],g[1]", "by[4:6],by[4]",
                           # record ranges far beyond the data, on lazy and array-backed sequences
                           "lz[0:99999999999999999999]", "lz[0:9223372036854775807]", "lz[99999999999999999999]",
                           "lz.k[0:1:99999999999999999999]", "q[0:99999999999999999999]", "lz[0:99999999999999999999:99999999999999999999]"])

    paths_ok = ["/d.dds", "/d.das", "/d.dods", "/d.ascii", "/d.asc", "/d.ver", "/d.html", "/.dods", "/deep/er/d.dods", "/d.x.dods"]
    paths_odd = ["/d", "/", "", "/d.", "/d.xyz", "/d.DODS", "/.", "/d.dods/", "/d dods", "/d.dods.", "/d..dds", "/d.json", "/d.nc",
                 "/d%FF.dods", "/%E9t%E9.dods", "/d%FF", "/d.%FF", "/d%C3%A9.dds", "/d%2Edods", "/d%00.dods"]

    def lz_selects_nothing(ce):
        """the listed known finding is exactly: a record range on the lazy sequence lz that starts beyond its 2 records"""
        m = re.search(r"lz(?:\.\w+)?\[(\d+)(?::\d+){0,2}\]", ce)
        return bool(m) and int(m.group(1)) >= 2 and "&" not in ce

    n = 700 if T == "quick" else 8000
    direct, dist = [], {}
    kf = {e["id"]: e for e in known_findings(PID) if e.get("status") == "known"}
    known_hits = {}
    # corpus (minimised from seeded changes), asked first: a variable named twice with DIFFERENT hyperslabs, the second one starting
    # beyond what the first one left (the same hyperslab twice is one hyperslab)
    corpus = [(p_, ce_, a_) for ce_ in ["x[1],x[2]", "x[2],x[1]", "st.m[2:3],st.m[2]", "g[1:2][0:1],g[1]", "by[4:6],by[4]", "b[3:4],b[3]",
                                        "f[1][0:1],f[1]", "x[1:2],x[1:2],x[1]", "q[1:2],q[1]", "x[2],x[2]",
                                        # record ranges far beyond the data (start, stop, stride), lazy and array-backed sequences
                                        "lz[0:99999999999999999999]", "lz[0:9223372036854775807]", "lz[99999999999999999999]",
                                        "lz.k[0:1:99999999999999999999]", "q[0:99999999999999999999]",
                                        "lz[0:99999999999999999999:99999999999999999999]", "lz[0:9223372036854775808:1]",
                                        "lz.v[9223372036854775808]", "q[99999999999999999999]"]
              for p_ in ("/d.dds", "/d.dods", "/d.asc") for a_ in ("plain", "gzip")]
    # ... faults whose offending text is echoed in the error document, with non-ASCII characters in it; Byte arrays in small blocks
    corpus += [("/d.dods", ce_, a_) for ce_ in ["x[%C3%A9]", "q&q.a>%22%C3%A9", "lz&lz.k>%C3%A9%20%C3%A9", "f[%E2%82%AC:1]", "x[0:%F0%9F%98%80]",
                                                "q&q.c=%22%C3%A9"] for a_ in ("plain", "gzip")]
    corpus += [(p_, ce_, "small-blocks") for ce_ in ["by", "by[0:4]", "by[1:2:6]", "b", "x,by,f", ""] for p_ in ("/d.dods", "/d.asc")]
    for i in range(n + len(corpus)):
        valid = rng.random() < 0.4
        ce = valid_ce() if valid else faulty_ce()
        path = rng.choice(paths_ok) if (valid or rng.random() < 0.7) else rng.choice(paths_odd)
        appname = rng.choice(["plain", "plain", "gzip", "small-blocks"])
        if i < len(corpus):
            (path, ce, appname), valid = corpus[i], False
        url = (path or "/") + ("?" + ce if ce else "")
        r.count((path, ce, appname))
        try:
            req = Request.blank(url)
            if path == "":
                req.path_info = ""
        except Exception:
            continue
        outcome = None
        try:
            res = req.get_response(apps[appname])
        except Exception as e:  # noqa
            outcome = "raised-by-call:" + type(e).__name__
            res = None
        if res is not None:
            try:
                body = res.body          # read to its end
                if res.content_encoding == "gzip":
                    res.decode_content()
                    body = res.body
            except Exception as e:  # noqa
                outcome = "raised-reading-body:" + type(e).__name__
                body = None
        if outcome is None:
            upath = unquote(path)     # the server routes on the decoded path: /d%2Edods is a request for d.dods
            ext = upath.rsplit(".", 1)[-1] if "." in upath else None
            if res.status_int == 200:
                want = CONTENT.get(ext)
                if want is None or not (res.content_type or "").startswith(want):
                    outcome = "200-wrong-content-type:%s" % res.content_type
                else:
                    outcome = "200"
            elif res.headers.get("Content-description") == "OPeNDAP_error" and ERR_RE.match(body.decode("utf-8", "replace")):
                outcome = "error-doc"
            else:
                outcome = "other-status:%s" % res.status
        key = outcome.split(":")[0]
        dist[key] = dist.get(key, 0) + 1
        if outcome.startswith("raised-reading-body:RuntimeError") and lz_selects_nothing(ce) and "C15-empty-lazy-sequence" in kf:
            known_hits["C15-empty-lazy-sequence"] = url
            continue
        if outcome in ("200", "error-doc") and (i < len(corpus) or rng.random() < 0.5):
            bad_len = raw_length_problem(apps[appname], url, path)
            if bad_len:
                direct.append({"law": "the Content-Length of an answer is the length of its body", "request": url, "application": appname,
                               "outcome": "wrong-length:" + outcome, "detail": bad_len, "valid_constraint": valid})
        if outcome not in ("200", "error-doc"):
            direct.append({"law": "a request is answered with 200+content type or a DAP error document; a 200 body can be read",
                           "request": url, "application": appname, "outcome": outcome, "valid_constraint": valid})
        elif valid and outcome != "200" and path in paths_ok:
            direct.append({"law": "a valid constraint is answered with data", "request": url, "application": appname,
                           "outcome": outcome, "body": body.decode("utf-8", "replace")[-300:]})
    r.extra["outcome_distribution"] = dist
    r.cov["rule"] = ("a case is (path, query string, plain/gzip application); query strings from a CE grammar (projections with "
                     "hyperslabs, selections) with injected faults: unknown variables, non-numeric / over-long / negative / inverted "
                     "hyperslabs, unbalanced brackets and parentheses, unknown functions, wrong operand types, bad operators, "
                     "percent-escapes, dap4.ce on DAP2, random symbol soup; paths with/without/unknown extension; distinct = distinct triple")
    r.sample({"request": "/d.dods?" + faulty_ce()})
    r.sample({"request": "/d.ascii?" + valid_ce()})
    # replay of the listed known finding on the implementation (fixed witness)
    if "C15-empty-lazy-sequence" in kf:
        try:
            Request.blank("/d.ascii?lz[9999]").get_response(apps["plain"]).body
            still = False
        except RuntimeError:
            still = True
        except Exception:
            still = True
        if still:
            r.known_finding("a lazy (IterData) sequence whose constraint selects no record raises while the body is produced "
                            "(GET /d.ascii?lz[9999]: RuntimeError from the type inference of an empty lazy sequence)")
    if "C15-dmr-of-dap2-dataset" in kf:
        try:
            Request.blank("/d.dmr").get_response(apps["plain"]).body
            still = False
        except TypeError:
            still = True
        except Exception as e:  # noqa  (any other failure of that request is not the listed finding)
            still = False
            direct.append({"request": "/d.dmr", "outcome": "raised-reading-body:" + type(e).__name__, "application": "plain",
                           "valid_constraint": True, "law": "a request is answered with 200+content type or a DAP error document; a 200 body can be read"})
        if still:
            r.known_finding("GET /d.dmr on a dataset with Structure or Sequence members raises while the DMR body is iterated "
                            "(TypeError: the DMR renderers of those types are empty), outside the handler's try block")
    # the listed finding is exactly that; a dataset of arrays only (no dimensions table at all) does get its DMR
    try:
        import numpy as _np
        from pydap.model import BaseType as _B, DatasetType as _D
        plain_ds = _D("p")
        plain_ds["x"] = _B("x", _np.arange(3, dtype=">i4"), units="m&s<")
        res = Request.blank("/p.dmr").get_response(BaseHandler(plain_ds))
        body = res.body
        if res.status_int != 200 or b"</Dataset>" not in body:
            direct.append({"request": "/p.dmr", "outcome": "status %s" % res.status, "application": "plain", "valid_constraint": True,
                           "law": "a dataset of arrays is answered with its DMR"})
    except Exception as e:  # noqa
        direct.append({"request": "/p.dmr", "outcome": "raised:" + type(e).__name__, "application": "plain", "valid_constraint": True,
                       "law": "a dataset of arrays is answered with its DMR"})
    seen = set()
    for d in direct:
        k = (d["outcome"], d["request"].split("?")[0].rsplit(".", 1)[-1])
        if k in seen:
            continue
        seen.add(k)
        if len(seen) <= 5:
            r.violation(dict(d, kind="property-violated", how="request sent to BaseHandler"), found=True)
    r.assumptions = [
        "which statements may raise is over-approximated syntactically (every call except Request(environ)/environ.get, every "
        "subscript, every tuple unpacking); exceptions raised lazily while the body is iterated are outside BaseHandler.__call__ and "
        "are covered by reading every body in this run",
        "environ['x-wsgiorg.throw_errors'] re-raises by design and is not set",
    ]
    r.finish()


if __name__ == "__main__":
    import common
    common.run(main, PID)
