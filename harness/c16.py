"""C16 - the file server never leaves its data directory and routes by what is on disk.
Proof: props/C16.v.  Correspondence: DapServer on generated directory layouts (incl. prefix-sibling directories) x
request paths, outcome class compared with the Gallina model; an audit hook records every path opened / listed /
scanned by the request (direct confinement oracle)."""
import itertools
import os
import random
import shutil
import sys
import tempfile

from common import Report, clist, coq_eval_mismatches, proof_phase, use_repo

PID = "C16"
IMPORTS = "PathsCases"
EXTS = [".csv", ".nc", ".nc4", ".cdf"]


def cB(b):
    if isinstance(b, str):
        b = b.encode("utf-8")
    return "[%s]%%N" % ";".join(str(x) for x in b)


def cP(comps):
    return clist(comps, cB)


AUDIT = {"on": False, "events": []}


def hook(event, args):
    if AUDIT["on"] and event in ("open", "os.listdir", "os.scandir"):
        try:
            p = args[0]
            if isinstance(p, bytes):
                p = p.decode()
            if isinstance(p, str):
                AUDIT["events"].append((event, p))
        except Exception:
            pass


def main():
    r = Report(PID)
    rng = random.Random(r.seed)
    T = r.tier
    proof_phase(r, PID)
    use_repo()
    from webob import Request
    from pydap.exceptions import ExtensionNotSupportedError
    from pydap.wsgi.app import DapServer
    sys.addaudithook(hook)

    base_tmp = tempfile.mkdtemp(prefix="verif_c16_")
    direct = []
    route_cases, resolve_cases, split_cases = [], [], []
    dist = {}
    try:
        layouts = []
        nl = 3 if T == "quick" else 10
        for li in range(nl):
            top = os.path.join(base_tmp, "L%d" % li)
            rootname = rng.choice(["data", "d", "srv.d"]) if li != 1 else "catalog.xml"    # (a data directory may have any name)
            root = os.path.join(top, rootname)
            entries = {}      # relative to top: name -> content or None (dir)
            entries[rootname] = None
            # names starting with a digit sort differently (alphanum_key); names with glob metacharacters next to the name they match
            for sub in ("sub", "sub/deep", "a.b", "1st", "run[1]", "run1", "wh?t", "what"):
                if rng.random() < 0.7 or sub == "sub" or li == 0:        # (the first layout has every directory and every file)
                    entries[rootname + "/" + sub] = None
            files = ["t.csv", "sub/u.csv", "notes.txt", "sub/x.dat", ".hidden", "arch.tar.gz", "a.b/t.csv", "mycatalog.xml",
                     "2020-01.csv", "10.txt", "sub/9.csv", "1st/t.csv",
                     # a file whose name is another file's name plus a dotted suffix (even a DAP suffix) is a file of its own
                     "notes.txt.bak", "t.csv.das", "sub/u.csv.orig", "t.csv.dds",
                     "run[1]/in_brackets.txt", "run1/in_plain.txt", "wh?t/q.txt", "what/w.txt"]
            for f in files:
                if (rng.random() < 0.8 or li == 0) and (os.path.dirname(rootname + "/" + f) in entries):
                    entries[rootname + "/" + f] = f
            # siblings sharing the name prefix, and an unrelated one
            for sib in (rootname + "2", rootname + "_old", "other"):
                entries[sib] = None
                entries[sib + "/s.txt"] = "secret-" + sib
                entries[sib + "/t.csv"] = "t.csv"
            for rel, content in entries.items():
                full = os.path.join(top, rel)
                if content is None:
                    os.makedirs(full, exist_ok=True)
            for rel, content in entries.items():
                full = os.path.join(top, rel)
                if content is not None:
                    with open(full, "w") as f:
                        if rel.endswith(".csv"):
                            f.write('"a","b"\n1,2\n3,4\n')
                        else:
                            f.write("CONTENT:" + rel + "\n")
            layouts.append((top, rootname, root, entries))

        segs = ["..", ".", "", "sub", "deep", "t.csv", "u.csv", "t.csv.dds", "t.csv.das", "u.csv.dods", "notes.txt", "notes.txt.dds",
                "catalog.xml", "%2e%2e", "..%2F", "x.dat", "x.dat.dds", ".hidden", "arch.tar.gz", "a.b", "nope", "mycatalog.xml",
                "t.csv.xyz", "t", "%2E", "1st", "notes.txt.bak", "u.csv.orig", "run[1]", "run%5B1%5D", "run1", "wh%3Ft", "what", "in_brackets.txt",
                "in_plain.txt", "q.txt", "w.txt", "2020-01.csv", "2020-01.csv.dds", "10.txt", "9.csv.dods", "%252e%252e", "%252E%252E", "..%252F", "%25", "s.txt.dds", "%2e%2e%2f"]
        for top, rootname, root, entries in layouts:
            sib_segs = [rootname + "2", rootname + "_old", "other", "s.txt", rootname]
            allsegs = segs + sib_segs
            reqs = set()
            for L in (1, 2):
                for t in itertools.product(allsegs, repeat=L):
                    reqs.add("/" + "/".join(t))
            reqs = sorted(reqs)
            if T == "quick":
                reqs = rng.sample(reqs, 260)
            else:
                reqs = rng.sample(reqs, min(len(reqs), 2500))      # (all of them took half an hour of model evaluation)
            nlong = 350 if T == "quick" else 1500
            for _ in range(nlong):
                L = rng.randint(3, 5)
                reqs.append("/" + "/".join(rng.choice(allsegs if rng.random() < 0.7 else ["..", "..", rootname + "2", "s.txt", "sub"])
                                           for _ in range(L)))
            reqs += ["", "/", "//", "/../%s2/s.txt" % rootname, "/../%s2/" % rootname, "/../%s2/catalog.xml" % rootname,
                     "/sub/../../%s2/t.csv.dds" % rootname, "/..", "/../" + rootname + "/t.csv", "//etc/passwd", "/nodir/catalog.xml",
                     "/sub/catalog.xml", "/catalog.xml", "/../catalog.xml", "/../../../../../../etc/passwd",
                     "/%252e%252e/" + rootname + "2/t.csv.dds", "/%252e%252e/other/t.csv.dds", "/sub/%252e%252e/%252e%252e/other/t.csv.das",
                     "/..%252Fother/t.csv.dods", "/%252e%252e/other/s.txt", "/%252e%252e/other/",
                     # directories whose names are glob patterns matching a sibling: listings, catalogs and files of both
                     "/run%5B1%5D/", "/run%5B1%5D/catalog.xml", "/run%5B1%5D", "/run1/", "/run1/catalog.xml", "/wh%3Ft/", "/wh%3Ft/catalog.xml",
                     "/what/", "/what/catalog.xml", "/run%5B1%5D/in_brackets.txt", "/run1/in_plain.txt", "/wh%3Ft/q.txt", "/what/w.txt",
                     "/run%5B1%5D/in_plain.txt", "/wh%3Ft/w.txt", "/1st/", "/a.b/", "/sub/", "/sub/deep/", "/sub/deep/catalog.xml",
                     # segments that contain the catalog's name without being it
                     "/.catalog.xml./catalog.xml", "/.catalog.xml./%s2/catalog.xml" % rootname, "/.catalog.xml./other/catalog.xml",
                     "/sub/.catalog.xml./.catalog.xml./catalog.xml", "/.catalog.xml./", "/sub/.catalog.xml./catalog.xml",
                     "/catalog.xmlcatalog.xml", "/xcatalog.xml/catalog.xml", "/.catalog.xml.", "/%2Ecatalog.xml%2E/catalog.xml"]
            app = DapServer(root)
            root_comps = [c for c in root.split("/") if c]
            fs_list = []
            for rel, content in entries.items():
                comps = [c for c in os.path.join(top, rel).split("/") if c]
                fs_list.append((comps, "None" if content is None else "(Some 1%N)"))
            # the ancestors of the layout exist as directories, too
            anc = [c for c in top.split("/") if c]
            for i in range(len(anc) + 1):
                fs_list.append((anc[:i], "None"))
            fs_list.sort(key=lambda x: [c.encode() for c in x[0]])
            fs_coq = ["(%s, %s)" % (cP(c), k) for c, k in fs_list]
            fs_term = "[" + "; ".join(fs_coq) + "]"
            first_obs = {}
            for req_path in list(reqs) + list(reqs):
                try:
                    req = Request.blank(req_path or "/")
                    if req_path == "":
                        req.path_info = ""
                except Exception:
                    continue
                pinfo = req.path_info
                AUDIT["events"] = []
                AUDIT["on"] = True
                try:
                    res = req.get_response(app)
                    status = res.status_int
                    body = res.body
                    ctype = res.content_type
                    exc = None
                except ExtensionNotSupportedError:
                    status, body, ctype, exc = None, b"", None, "unsupported"
                except Exception as e:  # noqa
                    status, body, ctype, exc = None, b"", None, type(e).__name__
                finally:
                    AUDIT["on"] = False
                events = list(AUDIT["events"])
                r.count((rootname, req_path))
                # ---- direct confinement oracle: every opened/listed path is inside root (or not under top at all:
                #      templates, python modules ...)
                for ev, p in events:
                    ap = os.path.abspath(p)
                    if (ap == top or ap.startswith(top + "/")) and not (ap == root or ap.startswith(root + "/")):
                        direct.append({"law": "only paths inside the data directory are read, listed or opened", "root": root,
                                       "request": req_path, "touched": ap, "event": ev, "status": status})
                        break
                if b"secret-" in body or (b"CONTENT:" in body and status == 200 and not _inside_content(body, rootname)):
                    direct.append({"law": "no content from outside the data directory is disclosed", "root": root,
                                   "request": req_path, "status": status, "body": body[:80].decode("latin-1")})
                # a refusal says nothing about the server's file system: not even where the data directory is
                if exc is None and status in (403, 404) and (top.encode() in body or root.encode() in body):
                    direct.append({"law": "a refusal discloses nothing (the body of a 403 / 404 does not contain the server's file system path)",
                                   "root": root, "request": req_path, "status": status, "body": body[-200:].decode("latin-1")})
                # ---- classify the observed outcome for the model comparison
                resolved = os.path.abspath(os.path.join(root, *pinfo.split("/")))
                rcomps = [c for c in resolved.split("/") if c]
                resolve_cases.append("(%s, %s, %s)" % (cP(root_comps), cB(pinfo), cP(rcomps)))
                if exc == "unsupported":
                    # a freshly started server must refuse it, too: routing is decided by the disk, not by what was served before
                    try:
                        fresh = Request.blank(req_path or "/").get_response(DapServer(root)).status_int
                    except ExtensionNotSupportedError:
                        fresh = "unsupported"
                    except Exception as e:  # noqa
                        fresh = type(e).__name__
                    if fresh != "unsupported":
                        direct.append({"law": "the same request is routed the same way whatever the server answered before", "root": root,
                                       "request": req_path, "long_lived_server": "ExtensionNotSupportedError", "fresh_server": fresh})
                    base = os.path.splitext(resolved)[0]
                    obs = "(Unsupported (P %s))" % cP([c for c in base.split("/") if c])
                elif exc is not None:
                    obs = None
                    if len(direct) < 10:
                        direct.append({"law": "every other path is refused as forbidden / not found / unsupported", "request": req_path,
                                       "root": root, "raised": exc})
                elif status == 403:
                    obs = "Forbidden"
                elif status == 404:
                    obs = "NotFound"
                elif status == 200 and ctype == "application/xml" and b"<catalog" in body:
                    d = os.path.dirname(resolved)
                    obs = "(Catalog (P %s) (map B %s))" % (cP([c for c in d.split("/") if c]), clist(sorted(os.listdir(d)), cB))
                elif status == 200 and ctype == "text/html" and b"<html" in body and os.path.isdir(resolved):
                    names = sorted(os.listdir(resolved))
                    obs = "(Listing (P %s) (map B %s))" % (cP(rcomps), clist(names, cB))
                    if not all(n.encode() in body for n in names):
                        direct.append({"law": "a listing names exactly the directory's entries", "request": req_path, "root": root})
                elif status == 200 and os.path.isfile(resolved) and body == open(resolved, "rb").read():
                    obs = "(FileVerbatim (P %s))" % cP(rcomps)
                elif os.path.isfile(os.path.splitext(resolved)[0]) and not os.path.exists(resolved):
                    base, ext = os.path.splitext(resolved)
                    obs = "(Dap (P %s) (B %s))" % (cP([c for c in base.split("/") if c]), cB(ext))
                else:
                    obs = None
                    direct.append({"law": "response classifiable as file / listing / DAP response / refusal", "request": req_path,
                                   "status": status, "ctype": ctype, "body": body[:60].decode("latin-1")})
                # ---- direct routing oracle: an existing file inside the data directory is returned verbatim (catalog.xml itself
                #      is the name of the virtual catalog of its directory)
                inside_root = resolved == root or resolved.startswith(root + "/")
                if exc is None and inside_root and os.path.isfile(resolved) and os.path.basename(resolved) != "catalog.xml" and \
                        not (status == 200 and body == open(resolved, "rb").read()):
                    direct.append({"law": "an existing file inside the data directory is returned verbatim", "root": root,
                                   "request": req_path, "file": resolved, "status": status, "content_type": ctype,
                                   "body": body[:80].decode("latin-1")})
                # routing is a function of the request and the disk: the same request answered differently later on the same server
                if req_path in first_obs and first_obs[req_path] != (obs, status) and obs is not None:
                    direct.append({"law": "the same request is routed the same way whatever the server answered before", "root": root,
                                   "request": req_path, "first": repr(first_obs[req_path])[:200], "later": repr((obs, status))[:200]})
                first_obs.setdefault(req_path, (obs, status))
                if obs is not None:
                    key = obs.split(" ")[0].strip("(")
                    dist[key] = dist.get(key, 0) + 1
                    route_cases.append("(%s, %s, %s, %s, %s)" % (clist(EXTS, cB), fs_term, cP(root_comps), cB(pinfo), obs))
        # ---- the data directory reached through a symbolic link (the directory itself, or one of its parents): same answers
        top, rootname, root, entries = layouts[0]
        link_root = os.path.join(top, "link_to_" + rootname)
        link_top = os.path.join(base_tmp, "link_to_top")
        try:
            os.symlink(root, link_root)
            os.symlink(top, link_top)
            plain_app = DapServer(root)
            for via in (link_root, os.path.join(link_top, rootname)):
                linked = DapServer(via)
                for req_path in ["/", "/t.csv", "/sub/", "/catalog.xml", "/t.csv.dds", "/sub/u.csv.das", "/notes.txt", "/nope",
                                 "/../other/s.txt", "/../%s2/t.csv.dds" % rootname, "/.."]:
                    r.count(("linked-root", os.path.basename(via), req_path))

                    def ask(app_):
                        try:
                            res_ = Request.blank(req_path).get_response(app_)
                            return res_.status_int, (res_.body if res_.content_type not in ("text/html", "application/xml") else b"")
                        except ExtensionNotSupportedError:
                            return "unsupported", b""
                        except Exception as e:  # noqa
                            return type(e).__name__, b""
                    a1, a2 = ask(plain_app), ask(linked)
                    if a1 != a2:
                        direct.append({"law": "a data directory reached through a symbolic link is served like the directory itself",
                                       "configured_path": via, "real_path": root, "request": req_path, "status_direct": str(a1[0]),
                                       "status_through_link": str(a2[0])})
                        break
        except OSError:
            pass
        # ---- routing follows the disk, not what a long-lived server answered before: one server, requests before and after the
        # data directory changes (file deleted, rewritten, replaced by a directory, created); every answer equals a fresh server's
        hroot = os.path.join(base_tmp, "hist", "data")
        os.makedirs(os.path.join(hroot, "sub"))

        def put(rel, text):
            with open(os.path.join(hroot, rel), "w") as f_:
                f_.write(text)
        put("t.csv", '"a","b"\n1,2\n3,4\n')
        put("gone.csv", '"a","b"\n1,2\n')
        put("sub/u.csv", '"k"\n5\n')
        put("notes.txt", "CONTENT:first\n")
        long_lived = DapServer(hroot)
        hreqs = ["/t.csv.dds", "/gone.csv.dds", "/gone.csv.dods", "/sub/u.csv.das", "/notes.txt", "/", "/sub/", "/catalog.xml", "/new.csv.dds",
                 "/gone.csv", "/t.csv.ascii"]

        def answer(server, u):
            try:
                res_ = Request.blank(u).get_response(server)
                return (res_.status_int, res_.body)
            except ExtensionNotSupportedError:
                return ("unsupported", b"")
            except Exception as e_:  # noqa
                return ("raised:" + type(e_).__name__, b"")
        stages = [lambda: None,
                  lambda: os.remove(os.path.join(hroot, "gone.csv")),
                  lambda: put("t.csv", '"c","d","e"\n7,8,9\n'),
                  lambda: (put("new.csv", '"n"\n1\n'), put("notes.txt", "CONTENT:second\n")),
                  lambda: (os.remove(os.path.join(hroot, "sub", "u.csv")), os.makedirs(os.path.join(hroot, "gone.csv")))]
        for si, change in enumerate(stages):
            change()
            for u in hreqs:
                r.count(("disk-history", si, u))
                a_, b_ = answer(long_lived, u), answer(DapServer(hroot), u)
                if a_[0] != b_[0] or (a_[0] == 200 and "catalog" not in u and not u.endswith("/") and a_[1] != b_[1]):
                    direct.append({"law": "the same request is routed the same way whatever the server answered before (the disk decides)",
                                   "root": hroot, "request": u, "after_change": si, "long_lived_server": str(a_[0]), "fresh_server": str(b_[0])})
                if a_[0] in (403, 404, 500) and hroot.encode() in a_[1]:
                    direct.append({"law": "a refusal discloses nothing (the body does not contain the server's file system path)",
                                   "root": hroot, "request": u, "status": a_[0], "body": a_[1][-200:].decode("latin-1")})
        for s in ["a.b", ".bashrc", "a", "a.", "..a", "...", "a.b.c", "x.tar.gz", ".", "", "..", "a..b", ".a.b", "t.csv.dds"] + \
                ["".join(rng.choice("ab..") for _ in range(rng.randint(0, 6))) for _ in range(200)]:
            b, e = os.path.splitext(s)
            split_cases.append("(%s, %s, %s)" % (cB(s), cB(b), cB(e)))
    finally:
        shutil.rmtree(base_tmp, ignore_errors=True)
    r.extra["outcome_distribution"] = dist

    groups = [("route", "chk_route", route_cases,
               "list (list N) * list (list (list N) * option N) * list (list N) * list N * outcome"),
              ("resolve", "chk_resolve", resolve_cases, "list (list N) * list N * list (list N)"),
              ("splitext", "chk_splitext", split_cases, "list N * list N * list N")]
    mism = {}
    for name, chk, cases, ctype in groups:
        try:
            bad = coq_eval_mismatches(PID + "_" + name, IMPORTS, chk, cases, ctype, shard=60 if name == "route" else 300, ztype=False)
        except RuntimeError as e:
            r.violation({"kind": "correspondence-broken", "group": name, "error": str(e)[-1500:],
                         "theorem": "correspondence %s (model could not be evaluated)" % name}, found=False)
            bad = []
        mism[name] = [cases[i] for i in bad]
    r.extra["cases"] = {g[0]: len(g[2]) for g in groups}
    r.extra["mismatches"] = {k: len(v) for k, v in mism.items()}
    r.cov["rule"] = ("a case is (directory layout, request path); layouts contain nested dirs, prefix-sibling dirs (<root>2, <root>_old), "
                     "supported/unsupported files; request paths: all 1-2 segment paths over the segment alphabet (sampled in quick), "
                     "seeded 3-5 segment paths, hand-picked escapes; distinct = distinct (layout root name, path)")
    r.sample({"route_case": route_cases[0][-400:]})
    r.sample({"resolve_case": resolve_cases[7]})

    for d in direct[:5]:
        r.violation(dict(d, kind="property-violated", how="audit hook / response inspection on the implementation"), found=True)
    if not direct:
        for name in mism:
            if mism[name]:
                r.violation({"kind": "correspondence-broken", "function": name,
                             "theorem": "correspondence of DapServer with the Gallina model route/resolve/splitext (props/C16.v)",
                             "case": mism[name][0][-1500:], "n_mismatches": len(mism[name])}, found=False)
    r.assumptions = [
        "os.path / os.listdir / webob path_info decoding as in this sandbox (POSIX); symlinks are outside the property's layouts",
        "the data directory's own name does not end with 'catalog.xml' (hypothesis of C16_confined)",
        "audit events open / os.listdir / os.scandir observe reads and listings; stat calls have no audit event and are covered by the model only",
    ]
    r.finish()


def _inside_content(body, rootname):
    try:
        txt = body.decode("latin-1")
    except Exception:
        return True
    for line in txt.split("\n"):
        if line.startswith("CONTENT:") and not line[len("CONTENT:"):].startswith(rootname + "/"):
            return False
    return True


if __name__ == "__main__":
    import common
    common.run(main, PID)
