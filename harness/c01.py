"""C01 - DAP2 end-to-end fidelity.
Proof: props/C01.v (server o separator o transport o client = identity, on the codec models of C05).
Correspondence of the plumbing: generated datasets are served by BaseHandler and read back by the real client through
{in-process WSGI, requests session, cached session, saved .dods file} x {plain, gzip}; every variable's values, shape and
type are compared with the source; the 'no early separator' hypothesis of the theorem is evaluated (Gallina) on every DDS."""
import os
import random
import shutil
import tempfile

import dap2gen as G
import transport as TR
from common import Report, coq_eval_mismatches, proof_phase, use_repo

PID = "C01"
IMPORTS = "E2ECases"


def cB(b):
    return "[%s]%%N" % ";".join(str(x) for x in b)


def usable(desc, backend="numpy"):
    """IterData carries no declared types: an empty lazy sequence (or a first record with an empty inner sequence) cannot be
    described by the server (known findings C15-empty-lazy-sequence / C04-empty-lazy-result); not part of C01's domain"""
    ok = [True]

    def rec(d):
        if d[0] in ("dataset", "struct"):
            for m in d[2]:
                rec(m)
        elif d[0] == "seq":
            nested = any(c[0] == "seq" for c in d[2])
            if nested or backend == "iterdata":
                if not d[3]:
                    ok[0] = False
                else:
                    for j, c in enumerate(d[2]):
                        # (the column types of an inner sequence are read off the first record in which it is not empty)
                        if c[0] == "seq" and not any(row[j] for row in d[3]):
                            ok[0] = False
    rec(desc)
    return ok[0]


def tostr(x):
    return x.decode("ascii") if isinstance(x, bytes) else str(x)


def read_client(ds, desc, np):
    """read every variable of the client dataset -> {id: canonical}"""
    out = {}
    for vid, d in G.walk_desc(desc):
        obj = ds
        for part in vid.split("."):
            obj = obj[part]
        if d[0] == "base":
            arr = np.asarray(obj.data[:] if d[3] else obj.data[...])
            code = d[2]
            flat = arr.reshape(-1).tolist()
            if code == "S":
                flat = [tostr(x) for x in flat]
                dt = "String"
            else:
                dt = {"uint8": "Byte", "int16": "Int16", "uint16": "UInt16", "int32": "Int32", "uint32": "UInt32",
                      "float32": "Float32", "float64": "Float64"}.get(str(arr.dtype.newbyteorder("=")), str(arr.dtype))
            out[vid] = (dt, tuple(arr.shape), tuple(G.bits(code, x) for x in flat))
        else:
            rows = []
            for rec in obj.iterdata():
                cells = []
                for c, cell in zip(d[2], rec):
                    if c[0] == "base":
                        cells.append(G.bits(c[2], tostr(cell) if c[2] == "S" else cell))
                    else:
                        cells.append(tuple(tuple(G.bits(cc[2], tostr(x) if cc[2] == "S" else x) for cc, x in zip(c[2], r))
                                           for r in cell))
                rows.append(tuple(cells))
            out[vid] = tuple(rows)
            # an inner sequence is a variable, too: read on its own it delivers, per record of the outer one, its records
            for c in d[2]:
                if c[0] != "base":
                    try:
                        out[vid + "." + c[1]] = tuple(
                            tuple(tuple(G.bits(cc[2], tostr(x) if cc[2] == "S" else x) for cc, x in zip(c[2], r)) for r in cell)
                            for cell in obj[c[1]].iterdata())
                    except Exception as e:  # noqa
                        out[vid + "." + c[1]] = "raised " + repr(e)[:200]
    return out


def source(desc):
    out = {}
    for vid, d in G.walk_desc(desc):
        if d[0] == "base":
            out[vid] = G.canon_base(d)
        else:
            out[vid] = G.canon_rows(d)
            for j, c in enumerate(d[2]):
                if c[0] != "base":
                    out[vid + "." + c[1]] = tuple(row[j] for row in out[vid])
    return out


def main():
    r = Report(PID)
    rng = random.Random(r.seed)
    T = r.tier
    proof_phase(r, PID)
    use_repo()
    import numpy as np
    from webob import Request
    from pydap.client import open_file, open_url
    from pydap.handlers.lib import BaseHandler

    tmp = tempfile.mkdtemp(prefix="verif_c01_")
    direct = []
    sep_cases = []
    enc_cases = []
    cfg_count = {}
    n = 30 if T == "quick" else 400
    try:
        done = 0
        attempts = 0
        # corpus run first: a leading scalar whose first wire byte is a white-space character (9-13, 32) - the binary part of a
        # saved .dods file starts right after the separator, whatever its first byte is
        corpus = [("dataset", "ws%d" % i, (("base", "s0", code, (), (val,)), ("base", "t", "i", (2,), (1, 2))))
                  for i, (code, val) in enumerate([("B", 10), ("B", 32), ("B", 9), ("i", 0x20000000), ("i", 0x0A000001), ("I", 0x0D000000),
                                                   ("I", 0x0C00000B), ("f", G.f32(0x20000000)), ("f", G.f32(0x0A0B0C0D)),
                                                   ("d", G.f64(0x2000000000000000)), ("d", G.f64(0x0920202020202020)), ("h", 0x0A00),
                                                   ("S", "\n lead"), ("S", " ")])]
        # ... and String arrays (top level, inside a structure) with an element longer than the |S128 the DDS parser declares
        corpus.append(("dataset", "ls0", (("base", "s0", "S", (2,), ("x" * 130 + "END", "ab")), ("base", "t", "i", (), (5,)))))
        corpus.append(("dataset", "ls1", (("struct", "st", (("base", "m", "S", (2, 2), ("a", "b" * 128, "c" * 129, "")),)),)))
        # ... and a nested sequence whose outer String values have lengths 0, 4, 8 (the encoder then yields empty padding chunks)
        corpus.append(("dataset", "ns0", (("seq", "q", (("base", "a", "i", (), ()), ("base", "s", "S", (), ()),
                                                          ("seq", "inner", (("base", "x", "d", (), ()),), ())),
                                            ((1, "abc", ((1.5,),)), (2, "abcd", ()), (3, "", ((2.5,), (3.5,))), (4, "abcdefgh", ()),
                                             (5, "ab", ((4.5,),)))),)))
        # ... and a flat sequence whose records differ only in the sign of a zero (0.0 == -0.0, but they are different values)
        corpus.append(("dataset", "z0", (("seq", "q", (("base", "a", "i", (), ()), ("base", "f", "f", (), ()), ("base", "d", "d", (), ())),
                                           ((1, 0.0, 0.0), (1, -0.0, 0.0), (1, 0.0, -0.0), (1, -0.0, -0.0), (1, 0.0, 0.0))),)))
        # ... and a nested sequence whose FIRST record has an empty inner sequence (the inner types come from a later record)
        corpus.append(("dataset", "ne0", (("seq", "o", (("base", "id", "i", (), ()),
                                                          ("seq", "inner", (("base", "x", "i", (), ()), ("base", "s", "S", (), ())), ())),
                                            ((1, ()), (2, ((10, "ab"), (20, "cde"))), (3, ()), (4, ((30, "z"),)))),)))
        # ... and Byte arrays whose size is a multiple of 4 (no padding) followed by another variable, top level and in a structure
        corpus.append(("dataset", "by4", (("base", "b", "B", (4,), (1, 2, 3, 255)), ("base", "t", "i", (), (7,)))))
        corpus.append(("dataset", "by8", (("struct", "st", (("base", "b", "B", (2, 4), (9, 8, 7, 6, 5, 4, 3, 2)), ("base", "u", "h", (), (-2,)))),
                                           ("base", "t", "d", (), (1.5,)))))
        # ... and a sequence with a Byte column next to a String column (the general decoder, not the numeric fast path)
        corpus.append(("dataset", "bs0", (("seq", "q", (("base", "b", "B", (), ()), ("base", "s", "S", (), ())),
                                            ((200, "ab"), (7, "xyz"), (0, ""), (255, "abcd"))),)))
        # ... and arrays whose VALUES spell the separator line (0a 44 61 74 61 3a 0a): the response is cut at the FIRST separator
        corpus.append(("dataset", "mk0", (("base", "b", "B", (9,), (1, 10, 68, 97, 116, 97, 58, 10, 2)),
                                            ("base", "i", "i", (5,), (5, 10, 0x44617461, 0x3A0A0000, 7)))))
        n += len(corpus)          # the corpus comes on top of the generated datasets
        while done < n and attempts < 20 * n:
            attempts += 1
            in_corpus = bool(corpus)
            desc = corpus.pop(0) if corpus else G.gen_dataset(rng)
            if not usable(desc):
                continue
            done += 1
            want = source(desc)
            for gz in (False, True):
                backend = rng.choice(["numpy", "numpy", "iterdata"])
                if not usable(desc, backend):
                    backend = "numpy"
                ds = G.build(desc, backend)
                app = BaseHandler(ds, gzip=gz)
                if in_corpus or rng.random() < 0.5:
                    # the application has a past: every array and sequence was asked for before with a narrow hyperslab (a
                    # projection-only request) - what is served afterwards is the whole dataset all the same
                    for vid_, d_ in G.walk_desc(desc):
                        if d_[0] == "seq" or d_[3]:
                            ce_ = vid_ + ("[0:1:0]" if d_[0] == "seq" else "[0:1:0]" * len(d_[3]))
                            try:
                                Request.blank("/.dods?" + ce_).get_response(app).body
                            except Exception:  # noqa
                                pass
                    cfg_count["served_narrow_requests_before"] = cfg_count.get("served_narrow_requests_before", 0) + 1
                # the block size of the streaming encoder is a deployment setting (environ key pydap.buffer_size): the corpus is
                # always served in blocks of a few bytes, the generated datasets in a third of the cases
                bs = rng.choice([3, 5]) if in_corpus else rng.choice([None, None, 1, 3, 5, 8])
                if bs is not None:
                    def app(environ, start_response, inner=app, bs=bs):
                        environ["pydap.buffer_size"] = bs
                        return inner(environ, start_response)
                    cfg_count["small_blocks"] = cfg_count.get("small_blocks", 0) + 1
                # the separator hypothesis of the theorem, on the real DDS text
                body = Request.blank("/.dods").get_response(BaseHandler(ds)).body
                if bs is not None and not gz:
                    try:
                        body_small = Request.blank("/.dods", environ={"pydap.buffer_size": bs}).get_response(BaseHandler(ds)).body
                    except AssertionError as e:      # webob: Content-Length differs from the bytes the application sent
                        body_small = None
                        direct.append({"law": "a response carries the bytes its headers announce, whatever the block size", "config": "buffer_size=%d" % bs,
                                       "dataset": repr(desc)[:1500], "error": repr(e)[:200]})
                    if body_small is not None and body_small != body:
                        direct.append({"law": "the bytes of a response do not depend on the block size it is streamed in", "config": "buffer_size=%d" % bs,
                                       "dataset": repr(desc)[:1500]})
                # an inner sequence asked for on its own: the data part of the answer vs the Gallina unpack_enclosed (model/Enclosed.v)
                if not gz and len(enc_cases) < (120 if T == "quick" else 1500):
                    import c05 as H5
                    for vid_, d_ in G.walk_desc(desc):
                        if d_[0] != "seq":
                            continue
                        for j_, c_ in enumerate(d_[2]):
                            if c_[0] != "seq":
                                continue
                            try:
                                raw_ = Request.blank("/.dods?%s.%s" % (vid_, c_[1])).get_response(BaseHandler(G.build(desc, backend))).body
                                data_ = raw_.split(b"\nData:\n", 1)[1]
                            except Exception as e:  # noqa
                                direct.append({"law": "a request for an inner sequence alone is answered", "variable": vid_ + "." + c_[1],
                                               "dataset": repr(desc)[:1500], "error": repr(e)[:200]})
                                continue
                            want_v = "(VSeq [%s])" % "; ".join("[%s]" % H5.c_val(c_, rows=row_[j_]) for row_ in d_[3])
                            enc_cases.append("(1%%nat, %s, %s, %s)" % (H5.c_decl(c_), H5.cB(data_), want_v))
                dds_txt = body.split(b"\nData:\n", 1)[0]
                if not gz:
                    sep_cases.append("(%s)" % cB(dds_txt))
                cfgs = ["inproc", "session", "cached", "file"] if not gz else ["inproc", "session", "cached"]
                for cfg in cfgs:
                    key = "%s%s" % (cfg, "+gzip" if gz else "")
                    cfg_count[key] = cfg_count.get(key, 0) + 1
                    r.count((repr(desc), key))
                    try:
                        if cfg == "inproc":
                            c = open_url("http://localhost:8001/", application=app)
                        elif cfg == "session":
                            s, a = TR.plain_session(app)
                            c = open_url(TR.BASE + "/", session=s, protocol="dap2")
                        elif cfg == "cached":
                            s, a = TR.cached_session(app)
                            c = open_url(TR.BASE + "/", session=s, protocol="dap2")
                            read_client(c, desc, np)       # warm the cache; the second read is what is compared
                        else:
                            path = os.path.join(tmp, "d%d.dods" % done)
                            with open(path, "wb") as f:
                                f.write(body)
                            c = open_file(path)
                        got = read_client(c, desc, np)
                    except Exception as e:  # noqa
                        direct.append({"law": "the client reads the served dataset", "config": key, "dataset": repr(desc)[:1500],
                                       "error": repr(e)[:300]})
                        continue
                    if got != want:
                        bad = [k for k in want if got.get(k) != want[k]]
                        direct.append({"law": "every variable delivers exactly the source values, shape and type", "config": key,
                                       "dataset": repr(desc)[:1500], "variable": bad[0], "got": repr(got.get(bad[0]))[:400],
                                       "want": repr(want[bad[0]])[:400]})
    finally:
        shutil.rmtree(tmp, ignore_errors=True)
    r.extra["configurations"] = cfg_count

    try:
        bad = coq_eval_mismatches(PID + "_sep", IMPORTS, "chk_no_early", sep_cases, "list N", shard=60, ztype=False)
    except RuntimeError as e:
        r.violation({"kind": "correspondence-broken", "error": str(e)[-1500:], "theorem": "no_early hypothesis evaluation"},
                    found=False)
        bad = []
    r.extra["dds_texts_checked_for_early_separator"] = len(sep_cases)
    try:
        bade = coq_eval_mismatches(PID + "_enclosed", "EnclosedCases", "chk_enclosed", enc_cases, "nat * decl * list N * val", shard=60,
                                   ztype=False)
    except RuntimeError as e:
        r.violation({"kind": "correspondence-broken", "error": str(e)[-1500:], "theorem": "unpack_enclosed evaluation"}, found=False)
        bade = []
    r.extra["inner_sequences_decoded_by_the_model"] = len(enc_cases)
    if bade and not direct:
        r.violation({"kind": "correspondence-broken", "theorem": "response to a request for an inner sequence vs the Gallina unpack_enclosed "
                     "(C01_enclosed_variable_read_alone)", "case": enc_cases[bade[0]][:1500], "n_mismatches": len(bade)}, found=False)
    if bad:
        r.violation({"kind": "hypothesis-fails", "theorem": "C01_end_to_end (hypothesis no_early dds)",
                     "dds": sep_cases[bad[0]][:1500]}, found=False)
    r.cov["rule"] = ("a case is (generated dataset over the DAP2 value domain, transport configuration); configurations: in-process WSGI, "
                     "requests session, cached session (second read), saved .dods file, each plain and (except file) gzip; distinct = "
                     "distinct pair; every case reads all variables")
    r.sample({"dataset": repr(G.gen_dataset(random.Random(1)))[:500]})
    for d in direct[:5]:
        r.violation(dict(d, kind="property-violated", how="served dataset vs what the real client reads"), found=True)
    r.assumptions = [
        "gzip / requests / requests-cache / webob deliver the body bytes unchanged (theorem C01_transport quantifies over any "
        "decode o encode = id; this run exercises the real libraries)",
        "the codec theorems are about the models validated by the C05 check of the same tree",
        "DDS text <-> declaration by pydap's DDS printer/parser (C07)",
    ]
    r.finish()


if __name__ == "__main__":
    import common
    common.run(main, PID)
