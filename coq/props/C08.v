(* C08 - Attributes survive the DAS: served, parsed and re-attached unchanged.
   Statements only; proofs in proofs/DASProofs.v.  Model: model/DAS.v (das / build_attributes of responses/das.py, DASParser of
   parsers/das.py at character level, add_attributes).  Numbers appear in the model as the tokens the DAS carries; the
   pair  "%.6g" % x  /  ast.literal_eval  is outside the model (compared by the harness to six significant digits). *)
From PydapV Require Import Base Quote QuoteProofs DDS DDSProofs DAS DASProofs DASPlaceProofs DASGlobals.
Open Scope nat_scope.

(* wf_entries: leaf attribute names are non-empty and in quoted form; type words and container names contain no white space and
   do not start with a brace; a leaf has at least one value; under a String/Url type word every value is a string without
   double quote and backslash (empty, blanks, ; , { } allowed), under any other type word every value is a non-empty token
   without white space, ';', ',' and double quote.
   For EVERY such attribute tree (any nesting depth, width, number of values): parsing the printed DAS returns it. *)
Theorem C08_parse_print : forall kids, wf_entries kids = true -> parse_das (print_das kids) = Some kids.
Proof. exact parse_print_das. Qed.
Print Assumptions C08_parse_print.

(* the value list of one attribute, in isolation: any number of values, strings or number tokens *)
Theorem C08_values : forall ty vals f R,
  vals <> [] -> forallb (wf_item (is_string_type ty)) vals = true -> List.length vals < f ->
  parse_values f ty (cjoin (s2l ", ") (map enc vals) ++ ";"%char :: R) = Some (vals, ";"%char :: R).
Proof. exact parse_values_print. Qed.
Print Assumptions C08_values.

(* a quoted string value is read back exactly, whatever it contains apart from double quote and backslash *)
Theorem C08_string_value : forall s, forallb str_char s = true -> strip_dq (dq :: s ++ [dq]) = s.
Proof. exact strip_dq_wrap. Qed.
Print Assumptions C08_string_value.

(* Placement.  wf_ds: dataset attribute names and variable names pairwise distinct, free of '.', different from the dataset's
   name; per variable (wf_v) attribute names and member names pairwise distinct; members of a Base / Grid are leaves; no
   NC_GLOBAL / DODS_EXTRA container among the dataset attributes.  expected lists, in walk order, every variable with its own
   attributes in the order the DAS prints them (members of a Grid get none: the DAS does not serve them).
   For EVERY such dataset (any depth and width): add_attributes applied to the DAS of the dataset gives every variable exactly
   its own attributes and the dataset its own. *)
Theorem C08_placement : forall dsname dsa kids,
  wf_ds dsname dsa kids = true ->
  add_attributes dsname kids (das_of dsa kids) = Some (sort_attrs dsa, flat_map (expected []) kids).
Proof. exact add_attributes_das_of. Qed.
Print Assumptions C08_placement.

(* ... and with NC_GLOBAL / DODS_EXTRA containers among the dataset attributes: their contents are merged (in the order the DAS
   lists them) and become the first global attributes, the other dataset attributes follow; the variables are unaffected *)
Theorem C08_placement_with_globals : forall dsname dsa kids,
  let S := sort_attrs dsa in
  let A := without_global_dicts S in
  NoDup (map fst A ++ map vname kids) -> Forall (fun k => dotfree k = true) (map fst A) -> forallb wf_v kids = true ->
  ~ In dsname (map fst A ++ map vname kids) -> forallb (fun c => negb (is_global_name (vname c))) kids = true ->
  add_attributes dsname kids (das_of dsa kids) = Some (dupdate (global_dicts S) A, flat_map (expected []) kids).
Proof. exact add_attributes_with_globals. Qed.
Print Assumptions C08_placement_with_globals.

(* served, parsed and re-attached: the text round trip composed with the placement *)
Theorem C08_served_parsed_attached : forall dsname dsa kids,
  wf_ds dsname dsa kids = true -> wf_entries (das_of dsa kids) = true ->
  (do a <- parse_das (print_das (das_of dsa kids)); add_attributes dsname kids a) =
  Some (sort_attrs dsa, flat_map (expected []) kids).
Proof.
  intros dsname dsa kids H1 H2. rewrite (parse_print_das _ H2). cbn [obind]. apply add_attributes_das_of, H1.
Qed.
Print Assumptions C08_served_parsed_attached.

Definition ex_das : list (chars * aval) :=
 [(s2l "NC_GLOBAL", ADict [(s2l "hist", ALeaf (s2l "String") [IStr (s2l "x y")]);
                           (s2l "k", ALeaf (s2l "Int32") [INum (s2l "1"); INum (s2l "2")])]);
  (s2l "title", ALeaf (s2l "String") [IStr (s2l "a; b, {c}"); IStr []]);
  (s2l "x", ADict [(s2l "f", ALeaf (s2l "Float64") [INum (s2l "-inf")]);
                   (s2l "meta", ADict [(s2l "a", ALeaf (s2l "Url") [IStr (s2l "}")])])])].
Example C08_ex : wf_entries ex_das = true /\ parse_das (print_das ex_das) = Some ex_das.
Proof. split; vm_compute; reflexivity. Qed.

(* NC_GLOBAL is flattened into the dataset's attributes (outside wf_ds; compared by the harness) *)
Definition ex_vars : list vtree :=
  [VNode KBase (s2l "x") [(s2l "units", ALeaf (s2l "String") [IStr (s2l "m")]); (s2l "a", ALeaf (s2l "Int32") [INum (s2l "1")])] [];
   VNode KStruct (s2l "s") [(s2l "sa", ALeaf (s2l "Int32") [INum (s2l "2")])]
     [VNode KBase (s2l "y") [(s2l "ya", ALeaf (s2l "Int32") [INum (s2l "3")])] []]].
Example C08_ex_wf : wf_ds (s2l "d") [(s2l "title", ALeaf (s2l "String") [IStr (s2l "t")])] ex_vars = true /\
  wf_entries (das_of [(s2l "title", ALeaf (s2l "String") [IStr (s2l "t")])] ex_vars) = true.
Proof. split; vm_compute; reflexivity. Qed.
Example C08_ex_placement :
  add_attributes (s2l "d") ex_vars
    (das_of [(s2l "title", ALeaf (s2l "String") [IStr (s2l "t")]); (s2l "NC_GLOBAL", ADict [(s2l "h", ALeaf (s2l "Int32") [INum (s2l "9")])])] ex_vars) =
  Some ([(s2l "h", ALeaf (s2l "Int32") [INum (s2l "9")]); (s2l "title", ALeaf (s2l "String") [IStr (s2l "t")])],
        [([s2l "x"], [(s2l "a", ALeaf (s2l "Int32") [INum (s2l "1")]); (s2l "units", ALeaf (s2l "String") [IStr (s2l "m")])]);
         ([s2l "s"], [(s2l "sa", ALeaf (s2l "Int32") [INum (s2l "2")])]);
         ([s2l "s"; s2l "y"], [(s2l "ya", ALeaf (s2l "Int32") [INum (s2l "3")])])]).
Proof. vm_compute. reflexivity. Qed.
