(* C01 - DAP2 end-to-end fidelity: what the server holds is what the client reads.
   serve = DDS text ++ "\nData:\n" ++ encoder model ; receive = cut at the first separator, decoder
   model.  Built on the codec theorems of C05. *)
From PydapV Require Import Base Words Xdr XdrProofs Readers E2EProofs Enclosed EnclosedProofs.

Theorem C01_end_to_end : forall dds d v,
  wf d v -> no_early dds ->
  exists body, serve dds d v = Some body /\ receive body d = Some (dds, v).
Proof. exact e2e. Qed.
Print Assumptions C01_end_to_end.

(* any transport that hands the body back unchanged (in-process, HTTP session, cache, saved file)
   or through a reversible encoding (gzip) preserves the result *)
Theorem C01_transport : forall (encode decode : bytes -> bytes),
  (forall b, decode (encode b) = b) ->
  forall dds d v, wf d v -> no_early dds ->
  exists body, serve dds d v = Some body /\ receive (decode (encode body)) d = Some (dds, v).
Proof. exact e2e_transport. Qed.
Print Assumptions C01_transport.

(* the saved-file reader's offset arithmetic is the same cut *)
Theorem C01_dods_file_offset : forall dds data,
  skipn (List.length (dds ++ ["010"%char]) + 6) (dds ++ sep ++ data) = data.
Proof. exact dods_file_offset. Qed.
Print Assumptions C01_dods_file_offset.

(* the hypothesis is decidable; the check evaluates it on every DDS text pydap prints *)
Theorem C01_no_early_decidable : forall dds, no_earlyb dds = true -> no_early dds.
Proof. exact no_earlyb_ok. Qed.
Print Assumptions C01_no_early_decidable.

Example C01_ex :
  let dds := s2l "Dataset {" ++ ["010"%char] ++ s2l "    Int16 x[x = 2];" ++ ["010"%char] ++ s2l "} d;" in
  let d := DStruct [DBase TInt16 (Some 2)] in
  let v := VStruct [VBase [SInt (-1); SInt 300]] in
  wf d v /\ no_earlyb dds = true /\
  exists body, serve dds d v = Some body /\ receive body d = Some (dds, v).
Proof.
  cbn zeta. split; [cbn; repeat split; try lia; repeat constructor; lia|]. split; [reflexivity|].
  eexists. split; vm_compute; reflexivity.
Qed.

(* "for every variable": a variable INSIDE a sequence - an inner sequence, a column of an inner sequence - read on its own
   (ds["outer"]["inner"]).  The response nests it in the records of the k enclosing sequences (declaration  wrap k d);
   the client's decoder for such reads (unpack_enclosed, model/Enclosed.v) reads back what pydap's encoder wrote, for every
   declaration d, every nesting depth k, every number of records at every level - one item per record of the outermost sequence. *)
Theorem C01_enclosed_variable_read_alone : forall k d v rest,
  wf (wrap k d) v ->
  exists b, dods (wrap k d) v = Some b /\ unpack_enclosed k d (b ++ rest) = Some (v, rest).
Proof. exact enclosed_inverts_dods. Qed.
Print Assumptions C01_enclosed_variable_read_alone.

Theorem C01_enclosed_one_item_per_record : forall k d rows,
  wf (wrap (S k) d) (VSeq rows) -> exists xs, items (VSeq rows) = Some xs /\ rows = map (fun x => [x]) xs.
Proof. exact items_total. Qed.
Print Assumptions C01_enclosed_one_item_per_record.

Example C01_ex_enclosed :
  let d := DSeq [DBase TInt32 None; DBase TString None] in              (* ds["n"]["inner"] : inner{u, s} inside n *)
  let v := VSeq [[VSeq [[VBase [SInt 10]; VBase [SStr (s2l "ab")]]; [VBase [SInt 12]; VBase [SStr []]]]]; [VSeq []]] in
  wf (wrap 1 d) v /\ exists b, dods (wrap 1 d) v = Some b /\ unpack_enclosed 1 d b = Some (v, []) /\
  items v = Some [VSeq [[VBase [SInt 10]; VBase [SStr (s2l "ab")]]; [VBase [SInt 12]; VBase [SStr []]]]; VSeq []].
Proof.
  cbn zeta. split.
  - cbn. repeat split; try lia; repeat constructor; try lia; eexists; (split; [reflexivity|]); cbn; lia.
  - eexists. split; [vm_compute; reflexivity|]. split; vm_compute; reflexivity.
Qed.
