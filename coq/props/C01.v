(* C01 - DAP2 end-to-end fidelity: what the server holds is what the client reads.
   serve = DDS text ++ "\nData:\n" ++ encoder model ; receive = cut at the first separator, decoder
   model.  Built on the codec theorems of C05. *)
From PydapV Require Import Base Words Xdr XdrProofs Readers E2EProofs.

Theorem C01_end_to_end : forall dds d v,
  wf d v -> no_early dds ->
  exists body, serve dds d v = Some body /\ receive body d = Some (dds, v).
Proof. exact e2e. Qed.
Print Assumptions C01_end_to_end.

(* any transport that hands the body back unchanged (in-process, HTTP session, cache, saved file)
   or through a reversible encoding (gzip) preserves the result *)
Theorem C01_transport : forall (encode decode : bytes -> bytes),
  (forall b, decode (encode b) = b) ->
  forall dds d v, wf d v -> no_early dds ->
  exists body, serve dds d v = Some body /\ receive (decode (encode body)) d = Some (dds, v).
Proof. exact e2e_transport. Qed.
Print Assumptions C01_transport.

(* the saved-file reader's offset arithmetic is the same cut *)
Theorem C01_dods_file_offset : forall dds data,
  skipn (List.length (dds ++ ["010"%char]) + 6) (dds ++ sep ++ data) = data.
Proof. exact dods_file_offset. Qed.
Print Assumptions C01_dods_file_offset.

(* the hypothesis is decidable; the check evaluates it on every DDS text pydap prints *)
Theorem C01_no_early_decidable : forall dds, no_earlyb dds = true -> no_early dds.
Proof. exact no_earlyb_ok. Qed.
Print Assumptions C01_no_early_decidable.

Example C01_ex :
  let dds := s2l "Dataset {" ++ ["010"%char] ++ s2l "    Int16 x[x = 2];" ++ ["010"%char] ++ s2l "} d;" in
  let d := DStruct [DBase TInt16 (Some 2)] in
  let v := VStruct [VBase [SInt (-1); SInt 300]] in
  wf d v /\ no_earlyb dds = true /\
  exists body, serve dds d v = Some body /\ receive body d = Some (dds, v).
Proof.
  cbn zeta. split; [cbn; repeat split; try lia; repeat constructor; lia|]. split; [reflexivity|].
  eexists. split; vm_compute; reflexivity.
Qed.
