(* C11 - A DMR parses to exactly the variables, shapes, paths and attributes it declares.
   Statements only; proofs in proofs/DMRProofs.v.  Model: model/DMR.v - pydap.parsers.dmr over an XML element tree
   (ElementTree itself is outside the model): get_variables, get_named_dimensions, get_dim_names, shape resolution,
   get_maps, get_atomic_attr and the arguments dmr_to_dataset hands to createVariable. *)
From PydapV Require Import Base Quote QuoteProofs StrLemmas DDS DDSProofs DMR DMRProofs DMRUniq.
Open Scope nat_scope.

(* A document is a list of items: Dimension, variable (type tag, name, named or unnamed Dim references in any mix, attributes in
   the three value syntaxes, Maps), Group (recursively, to ANY depth, declarations interleaved in any order), Attribute.
   render builds the element tree, decl_vars lists - from the abstract items alone - what the document declares:
   one record per atomic variable in document order with its fully qualified name, type, the shape obtained by resolving every
   reference in declaration order (spec_size walks the group path), the fully qualified dimension names, Maps, group path and attributes.
   wf_item: short names are non-empty, in quoted form and free of '/', variable tags are DAP4 atomic types or String;
   attrs_ok: attribute names of a variable are distinct; the two NoDup premises say that no two declarations share a
   fully qualified name (the same short name in different groups is fine - see C11_ex).
   For EVERY such document whose references all resolve (decl_vars = Some vs), the parser returns exactly vs. *)
Theorem C11_parse_render : forall dsname items vs,
  forallb wf_item items = true -> forallb attrs_ok items = true ->
  NoDup (map fst (var_entries [] (s2l "Dataset") items)) -> NoDup (map fst (decl_dims [] items)) ->
  decl_vars items [] (s2l "Dataset") items = Some vs ->
  parse_dmr (render dsname items) = Some vs.
Proof. exact parse_render. Qed.
Print Assumptions C11_parse_render.

(* The no-duplicate premises follow from what a DMR guarantees by construction: within every group (and the root) variable
   names are pairwise distinct, dimension names are pairwise distinct, sub-group names are pairwise distinct
   (uniq_items selvar / seldim); the SAME short name in different groups is allowed - fully qualified names are injective. *)
Theorem C11_fqn_injective : forall p n p' n',
  Forall (fun x => no_slash x = true) p -> Forall (fun x => no_slash x = true) p' -> ns n -> ns n' ->
  fqn p n = fqn p' n' -> p = p' /\ n = n'.
Proof. exact fqn_inj. Qed.
Print Assumptions C11_fqn_injective.

Theorem C11_parse_render_structural : forall dsname items vs,
  forallb wf_item items = true -> forallb attrs_ok items = true ->
  uniq_items selvar items = true -> uniq_items seldim items = true ->
  decl_vars items [] (s2l "Dataset") items = Some vs ->
  parse_dmr (render dsname items) = Some vs.
Proof. exact parse_render_structural. Qed.
Print Assumptions C11_parse_render_structural.

(* the two collection passes on their own *)
Theorem C11_variables : forall dsname items,
  forallb wf_item items = true -> NoDup (map fst (var_entries [] (s2l "Dataset") items)) ->
  get_variables (render dsname items) [] = var_entries [] (s2l "Dataset") items.
Proof. exact gv_render. Qed.
Print Assumptions C11_variables.

Theorem C11_dimensions : forall dsname items,
  forallb wf_item items = true -> NoDup (map fst (decl_dims [] items)) ->
  get_named_dimensions (render dsname items) [] = Some (decl_dims [] items).
Proof. exact gnd_render. Qed.
Print Assumptions C11_dimensions.

(* a reference /g1/.../name is looked up under exactly the key its declaration was stored under *)
Theorem C11_reference_key : forall p n, no_slash n = true -> dim_key (ref_text p n) = fqn p n.
Proof. exact dim_key_ref. Qed.
Print Assumptions C11_reference_key.

(* non-vacuity: the same short name x in the root and in two groups, mixed named / unnamed dimensions, nesting depth 2,
   attributes in the three syntaxes *)
Definition ex_doc : list item :=
  [IDim (s2l "x") 3; IDim (s2l "t") 2;
   IVar (s2l "Int32") (s2l "a") [DNamed [] (s2l "x"); DAnon 4; DNamed [] (s2l "t")]
        [mkA (s2l "units") (s2l "String") None [VText (s2l "m")];
         mkA (s2l "r") (s2l "Float64") (Some (s2l "0.5")) [VText (s2l "1.5"); VAttr (s2l "2")]] [];
   IGroup (s2l "g1")
     [IDim (s2l "x") 5;
      IVar (s2l "Float64") (s2l "v") [DNamed [s2l "g1"] (s2l "x"); DNamed [] (s2l "x")] [] [s2l "/g1/x"];
      IGroup (s2l "g2") [IDim (s2l "x") 7; IVar (s2l "UInt8") (s2l "w") [DNamed [s2l "g1"; s2l "g2"] (s2l "x"); DNamed [s2l "g1"] (s2l "x")] [] []]];
   IAttr (mkA (s2l "title") (s2l "String") None [VText (s2l "T")])].
Example C11_ex :
  forallb wf_item ex_doc = true /\ forallb attrs_ok ex_doc = true /\
  uniq_items selvar ex_doc = true /\ uniq_items seldim ex_doc = true /\
  nodupb (map fst (var_entries [] (s2l "Dataset") ex_doc)) = true /\ nodupb (map fst (decl_dims [] ex_doc)) = true /\
  option_map (map (fun v => (l2s (v_name v), v_shape v, map l2s (v_dims v), option_map l2s (v_path v))))
             (parse_dmr (render (s2l "ds") ex_doc)) =
  Some [("a"%string, [3; 4; 2], ["/x"; "/t"]%string, None);
        ("/g1/v"%string, [5; 3], ["/g1/x"; "/x"]%string, Some "/g1"%string);
        ("/g1/g2/w"%string, [7; 5], ["/g1/g2/x"; "/g1/x"]%string, Some "/g1/g2"%string)].
Proof. repeat split; vm_compute; reflexivity. Qed.
