(* C14 - Deriving or reading a remote selection never alters other client objects.
   MODEL: SequenceProxy as a value (its own template, selection, composed record slice, session):
   every derivation returns a NEW value, so earlier objects are untouched by construction; the
   check compares that with the real objects after every step of generated histories. *)
From PydapV Require Import Base Slices SliceProofs IterData IterDataProofs Proxy ProxyProofs.
Open Scope Z_scope.

(* A derived object - however it was derived, in whatever order - asks the server for exactly the
   constraint normal form of its operations: the data a fresh client (or a lazy stream, C17) applying
   the same selection reads. *)
Theorem C14_derived_reads_normal_form : forall hd rows ops sid p,
  wf_pops hd false ops -> papply_ops (fresh_proxy hd sid) ops = Some p ->
  serve hd rows (request_of p) = spec_nf hd rows (map to_op ops).
Proof. exact derived_reads_normal_form. Qed.
Print Assumptions C14_derived_reads_normal_form.

(* composing the record slices on the client (one range in the URL) equals slicing in turn *)
Theorem C14_record_slices_compose : forall (s1 s2 : slice) (l : list row),
  wn s1 -> wn s2 -> islice (combine1 s1 s2) l = islice s2 (islice s1 l).
Proof. intros. now apply islice_combine. Qed.
Print Assumptions C14_record_slices_compose.

Example C14_ex :
  let hd := ["a"; "b"; "c"]%string in
  let ops := [PCond "a"%string RGt (OConst 1); PCols ["c"; "a"]%string; PSlice (mkSlice (Some 1) None None); PInt 0] in
  wf_pops hd false ops /\
  exists p, papply_ops (fresh_proxy hd 7%N) ops = Some p /\
            serve hd [[1; 10; 100]; [2; 20; 200]; [3; 30; 300]; [4; 40; 400]] (request_of p) = [[300; 3]].
Proof.
  cbn zeta. split.
  - cbn [wf_pops]. split; [reflexivity|]. split; [intros x [<-|[<-|[]]]; cbn; tauto|].
    split; [repeat split; cbn; try lia; exact I|]. split; [lia|exact I].
  - eexists. split; reflexivity.
Qed.
