(* C02 - Remote subsetting selects exactly what numpy indexing selects.
   Per axis: N0 = extent of the source axis, ps = the slice stored in the proxy (the hyperslab of the
   URL the dataset was opened with - any stride - or slice(None)), M = extent the client sees,
   it = the user's index item in numpy's domain for M.  The request built by the client
   (fix_slice, combine_slices, hyperslab - the functions of C03) addresses exactly the source
   elements numpy selects from the pre-sliced axis, and its text parses back on the server to the
   same slice whenever the selection is non-empty.  For all extents, strides and bounds. *)
From PydapV Require Import Base Slices Quote GridSel SliceArith SliceProofs HyperslabProofs RemoteProofs GridSelProofs.
Open Scope Z_scope.

Theorem C02_remote_axis : forall N0 ps it,
  0 <= N0 -> wn ps ->
  let M := lenZ (np_indices N0 ps) in
  item_in_domain M it ->
  exists it' c,
    fix1 it M = Some it' /\ c = combine1 ps (slice_of it') /\
    Some (np_indices N0 c) = option_map (map (nthZ (np_indices N0 ps))) (np_axis M it) /\
    (np_indices N0 c <> [] ->
     exists text, hyperslab [ISlice c] = Some text /\ parse_hyperslab text = Some [ISlice c]).
Proof. exact remote_axis. Qed.
Print Assumptions C02_remote_axis.

(* every axis of an array; a grid's maps are sliced by the same per-axis items, so the same
   statement with the map's extent is the "maps sliced along the matching axes" part *)
Theorem C02_remote_axes : forall shape0 stored idx,
  Forall (fun N => 0 <= N) shape0 ->
  Forall2 (fun N0 ps => wn ps) shape0 stored ->
  Forall2 (fun (Nps : Z * slice) it => item_in_domain (lenZ (np_indices (fst Nps) (snd Nps))) it) (combine shape0 stored) idx ->
  Forall2 (fun (Nps : Z * slice) it =>
             exists it' c, fix1 it (lenZ (np_indices (fst Nps) (snd Nps))) = Some it' /\
                           c = combine1 (snd Nps) (slice_of it') /\
                           Some (np_indices (fst Nps) c) =
                             option_map (map (nthZ (np_indices (fst Nps) (snd Nps))))
                                        (np_axis (lenZ (np_indices (fst Nps) (snd Nps))) it))
          (combine shape0 stored) idx.
Proof. exact remote_axes. Qed.
Print Assumptions C02_remote_axes.

Example C02_ex :
  let N0 := 10 in let ps := mkSlice (Some 1) (Some 10) (Some 2) in     (* opened with ?x[1:2:9] *)
  let it := ISlice (mkSlice (Some (-3)) None None) in                    (* user asks [-3:] *)
  wn ps /\ lenZ (np_indices N0 ps) = 5 /\ item_in_domain 5 it /\
  exists c, fix1 it 5 = Some (ISlice (mkSlice (Some 2) (Some 7) (Some 1))) /\
            c = combine1 ps (mkSlice (Some 2) (Some 7) (Some 1)) /\
            np_indices N0 c = [5; 7; 9] /\ hyperslab [ISlice c] = Some "[5:2:9]"%string.
Proof. cbn zeta. repeat split; try (cbn; lia). eexists. repeat split; reflexivity. Qed.

(* ---- "a sliced grid returns its maps sliced along the matching axes": the index branch of GridType.__getitem__
   (model/GridSel.v).  For every shape and index tuple of numpy's domain (any rank, Ellipsis, short tuples, negative bounds),
   every array whose dimension names are distinct, and every list of maps the grid still lists - all of them, some of them, in
   any order (a grid narrowed by g["a", "m1"]) -: the normalised key selects from the array what numpy selects, and every listed
   map is sliced with the item of the very axis that bears its name. *)
Theorem C02_grid_maps_follow_their_axes : forall shape dims idx maps,
  Forall (fun N => 0 <= N) shape ->
  one_ellipsis idx ->
  Forall2 item_in_domain shape (np_expand idx (List.length shape)) ->
  List.length dims = List.length shape ->
  NoDup (map quote dims) ->
  (forall m, In m maps -> In m (map quote dims)) ->
  exists key prs,
    grid_getitem shape dims idx maps = Some (key, prs) /\
    List.length key = List.length shape /\
    np_select_axes shape key = np_select shape idx /\
    Forall2 (fun m p => fst p = m /\ exists j it, nth_error (map quote dims) j = Some m /\ nth_error key j = Some it /\ snd p = Some it)
            maps prs.
Proof. exact grid_maps_follow_their_axes. Qed.
Print Assumptions C02_grid_maps_follow_their_axes.

(* an array that carries no dimension names: maps and axes are paired by position (all the code can know) *)
Theorem C02_grid_maps_positional_without_names : forall shape idx key maps,
  fix_slice idx shape = Some key ->
  (List.length maps <= List.length key)%nat ->
  grid_getitem shape [] idx maps = Some (key, map (fun p => (fst p, Some (snd p))) (combine maps key)).
Proof. exact grid_maps_positional_without_names. Qed.
Print Assumptions C02_grid_maps_positional_without_names.

(* pairing by position alone - the code before the repair 7b14c4d - gives a narrowed grid's map the item of another axis *)
Theorem C02_positional_pairing_refuted :
  exists (dims : list chars) (key : list item) (maps : list chars),
    NoDup (map quote dims) /\ List.length dims = List.length key /\ (forall m, In m maps -> In m (map quote dims)) /\
    pair_maps [] key 1 maps <> pair_maps (usable_dims dims (List.length key)) key 1 maps.
Proof. exact positional_pairing_refuted. Qed.
Print Assumptions C02_positional_pairing_refuted.

Example C02_ex_grid :
  let shape := [4; 5] in let dims := [s2l "m0"; s2l "lat deg"] in
  let idx := [ISlice (mkSlice (Some 1) (Some 3) None); ISlice (mkSlice None (Some 2) None)] in
  let maps := [s2l "lat%20deg"] in                                         (* g["a", "lat deg"][1:3, :2] *)
  Forall (fun N => 0 <= N) shape /\ List.length dims = List.length shape /\ NoDup (map quote dims) /\
  (forall m, In m maps -> In m (map quote dims)) /\
  option_map snd (grid_getitem shape dims idx maps) =
    Some [(s2l "lat%20deg", Some (ISlice (mkSlice (Some 0) (Some 2) (Some 1))))].
Proof.
  cbn zeta. repeat split.
  - repeat constructor; lia.
  - apply nodupb_NoDup. vm_compute. reflexivity.
  - intros m [<-|[]]. vm_compute. right; left; reflexivity.
Qed.
