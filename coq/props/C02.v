(* C02 - Remote subsetting selects exactly what numpy indexing selects.
   Per axis: N0 = extent of the source axis, ps = the slice stored in the proxy (the hyperslab of the
   URL the dataset was opened with - any stride - or slice(None)), M = extent the client sees,
   it = the user's index item in numpy's domain for M.  The request built by the client
   (fix_slice, combine_slices, hyperslab - the functions of C03) addresses exactly the source
   elements numpy selects from the pre-sliced axis, and its text parses back on the server to the
   same slice whenever the selection is non-empty.  For all extents, strides and bounds. *)
From PydapV Require Import Base Slices SliceArith SliceProofs HyperslabProofs RemoteProofs.
Open Scope Z_scope.

Theorem C02_remote_axis : forall N0 ps it,
  0 <= N0 -> wn ps ->
  let M := lenZ (np_indices N0 ps) in
  item_in_domain M it ->
  exists it' c,
    fix1 it M = Some it' /\ c = combine1 ps (slice_of it') /\
    Some (np_indices N0 c) = option_map (map (nthZ (np_indices N0 ps))) (np_axis M it) /\
    (np_indices N0 c <> [] ->
     exists text, hyperslab [ISlice c] = Some text /\ parse_hyperslab text = Some [ISlice c]).
Proof. exact remote_axis. Qed.
Print Assumptions C02_remote_axis.

(* every axis of an array; a grid's maps are sliced by the same per-axis items, so the same
   statement with the map's extent is the "maps sliced along the matching axes" part *)
Theorem C02_remote_axes : forall shape0 stored idx,
  Forall (fun N => 0 <= N) shape0 ->
  Forall2 (fun N0 ps => wn ps) shape0 stored ->
  Forall2 (fun (Nps : Z * slice) it => item_in_domain (lenZ (np_indices (fst Nps) (snd Nps))) it) (combine shape0 stored) idx ->
  Forall2 (fun (Nps : Z * slice) it =>
             exists it' c, fix1 it (lenZ (np_indices (fst Nps) (snd Nps))) = Some it' /\
                           c = combine1 (snd Nps) (slice_of it') /\
                           Some (np_indices (fst Nps) c) =
                             option_map (map (nthZ (np_indices (fst Nps) (snd Nps))))
                                        (np_axis (lenZ (np_indices (fst Nps) (snd Nps))) it))
          (combine shape0 stored) idx.
Proof. exact remote_axes. Qed.
Print Assumptions C02_remote_axes.

Example C02_ex :
  let N0 := 10 in let ps := mkSlice (Some 1) (Some 10) (Some 2) in     (* opened with ?x[1:2:9] *)
  let it := ISlice (mkSlice (Some (-3)) None None) in                    (* user asks [-3:] *)
  wn ps /\ lenZ (np_indices N0 ps) = 5 /\ item_in_domain 5 it /\
  exists c, fix1 it 5 = Some (ISlice (mkSlice (Some 2) (Some 7) (Some 1))) /\
            c = combine1 ps (mkSlice (Some 2) (Some 7) (Some 1)) /\
            np_indices N0 c = [5; 7; 9] /\ hyperslab [ISlice c] = Some "[5:2:9]"%string.
Proof. cbn zeta. repeat split; try (cbn; lia). eexists. repeat split; reflexivity. Qed.
