(* C09 - Decoding is independent of transport chunking and never accepts a cut stream. *)
From PydapV Require Import Base Readers ReadersProofs Dap4 Dap4Proofs Xdr XdrProofs XdrTrunc.

(* Whatever the chunking of the byte stream (and whatever is already buffered), any sequence of reads
   through StreamReader returns exactly what the strict reader returns on the concatenated bytes,
   and fails exactly when it fails (fewer bytes left than requested). *)
Theorem C09_stream_reader_is_chunking_independent : forall ns r, sreads r ns = breads (sall r) ns.
Proof. exact sreads_breads. Qed.
Print Assumptions C09_stream_reader_is_chunking_independent.

(* The separator search: for EVERY partition of the stream into chunks (splits inside the separator
   included) it succeeds iff the separator occurs, and what remains to be read is exactly the stream
   after its FIRST occurrence. *)
Theorem C09_separator_any_chunking : forall p cs,
  p <> [] ->
  match find_pattern_in_string_iter p cs with
  | Some (rest, cs') => exists e, find_end p (List.concat cs) = Some e /\ rest ++ List.concat cs' = skipn e (List.concat cs)
  | None => find_end p (List.concat cs) = None
  end.
Proof. exact find_pattern_any_chunking. Qed.
Print Assumptions C09_separator_any_chunking.

Theorem C09_data_stream_any_chunking : forall cs1 cs2,
  List.concat cs1 = List.concat cs2 ->
  match data_stream cs1, data_stream cs2 with
  | Some r1, Some r2 => sall r1 = sall r2
  | None, None => True
  | _, _ => False
  end.
Proof. exact data_stream_any_chunking. Qed.
Print Assumptions C09_data_stream_any_chunking.

(* A DAP4 response cut at ANY byte offset either fails to decode or decodes to exactly the result
   of the complete response. *)
Theorem C09_dap4_truncation_safe : forall raw vars k res,
  unpack_dap4 raw vars = Some res ->
  unpack_dap4 (firstn k raw) vars = None \/ unpack_dap4 (firstn k raw) vars = Some res.
Proof. exact dap4_truncation_safe. Qed.
Print Assumptions C09_dap4_truncation_safe.

(* The same for DAP2: whatever the declaration (arrays, strings, structures, grids, sequences nested to any
   depth, with the fixed-width fast path or the per-column path) and whatever stream the decoder accepts, the
   decoder on ANY prefix of that stream either fails or returns the very same value. *)
Theorem C09_dap2_truncation_safe : forall d s v r k,
  unpack d s = Some (v, r) ->
  unpack d (firstn k s) = None \/ exists r', unpack d (firstn k s) = Some (v, r').
Proof. exact dap2_truncation_safe. Qed.
Print Assumptions C09_dap2_truncation_safe.

(* ... and every strict prefix of the reference encoding of a well-formed value is rejected: a cut inside
   the data can never pass for a (shorter) complete answer. *)
Theorem C09_dap2_strict_prefix_rejected : forall d v b k,
  wf d v -> xdr d v = Some b -> (k < List.length b)%nat -> unpack d (firstn k b) = None.
Proof. exact dap2_strict_prefix_rejected. Qed.
Print Assumptions C09_dap2_strict_prefix_rejected.

Example C09_ex2 :
  let d := DStruct [DBase TByte (Some 3%nat); DSeq [DBase TInt16 None; DBase TString None]] in
  let v := VStruct [VBase [SInt 1; SInt 2; SInt 255]; VSeq [[VBase [SInt (-2)]; VBase [SStr (s2l "abcde")]]]] in
  exists b, xdr d v = Some b /\ unpack d b = Some (v, []) /\
            forallb (fun k => match unpack d (firstn k b) with None => true | Some _ => false end) (seq 0 (List.length b)) = true.
Proof. cbn zeta. eexists. split; [vm_compute; reflexivity|]. split; vm_compute; reflexivity. Qed.

Example C09_ex :
  let p := s2l "Data:" ++ ["010"%char] in
  let body := s2l "Dataset {} x;" ++ ["010"%char] ++ p ++ s2l "Zpayload" in
  find_pattern_in_string_iter p [firstn 17 body; skipn 17 body] =
  Some (s2l "Zpayload", []) /\
  find_pattern_in_string_iter p (map (fun c => [c]) body) = Some ([], map (fun c => [c]) (s2l "Zpayload")).
Proof. cbn zeta. split; reflexivity. Qed.
