(* C15 - Every request gets a complete HTTP answer: data or a DAP error document.
   call_steps, call_catches_all, ... are extracted from pydap's source on every run
   (gen/GenFacts.v, tools/gen_facts.py). *)
From PydapV Require Import Base Handler HandlerProofs GenFacts.

(* General theorem: if every statement that may raise sits inside a try that catches everything,
   no behaviour of the statements (no request, no dataset) makes the call raise. *)
Theorem C15_contained_never_raises : forall steps,
  contained steps = true -> forall raises i, run steps true raises i <> Raised.
Proof. exact contained_never_raises. Qed.
Print Assumptions C15_contained_never_raises.

(* ... and it is sharp: one raising statement outside the try lets an exception out. *)
Theorem C15_uncontained_can_raise : forall steps,
  contained steps = false -> exists raises, run steps true raises 0 = Raised.
Proof. exact uncontained_can_raise. Qed.
Print Assumptions C15_uncontained_can_raise.

(* The obligation on THIS source tree: the statements of BaseHandler.__call__ as they are now. *)
Theorem C15_call_is_contained :
  handler_facts_extracted = true /\ call_catches_all = true /\ call_handler_builds_error = true /\
  contained call_steps = true /\
  forall raises, run call_steps call_catches_all raises 0 <> Raised.
Proof.
  repeat split; try reflexivity. intros raises. apply contained_never_raises. reflexivity.
Qed.
Print Assumptions C15_call_is_contained.

(* The error response is a DAP2 error document marked as such (literals taken from the source). *)
Theorem C15_error_document : forall code message,
  pyformat error_template code message = error_doc code message /\
  error_description = "OPeNDAP_error"%string /\ String.prefix "500" error_status = true.
Proof. intros. repeat split; reflexivity. Qed.
Print Assumptions C15_error_document.

Example C15_ex : existsb (fun s => may_raise s && in_try s) call_steps = true /\ (3 <= List.length call_steps)%nat.
Proof. split; [reflexivity|cbn; lia]. Qed.
