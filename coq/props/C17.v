(* C17 - Lazy row streams obey the constraint normal form and are never consumed.
   MODEL = IterData.__getitem__/__iter__ on flat tables; SPEC = spec_nf (by column NAME). *)
From PydapV Require Import Base Slices IterData IterDataProofs.

(* Any chain (any length, order, repetition) of filters, column selections, child selections, record
   indices and slices applied to a lazy stream iterates to: the source rows filtered with ALL the
   filters, restricted to the finally selected columns (by name, in request order), then sliced in
   order.  wf_ops: each selection names columns that are visible at that point. *)
Theorem C17_normal_form : forall hd rows ops d,
  NoDup hd -> Forall (ok hd) rows ->
  wf_ops hd false ops -> apply_ops (fresh hd rows) ops = Some d ->
  iter d = spec_nf hd rows ops.
Proof. exact normal_form. Qed.
Print Assumptions C17_normal_form.

(* A step builds a new stream over the same untouched source. *)
Theorem C17_step_leaves_source : forall d o d', apply_op d o = Some d' -> src d' = src d /\ header d' = header d.
Proof. exact step_leaves_source. Qed.
Print Assumptions C17_step_leaves_source.

Example C17_ex :
  let hd := ["a"; "b"; "c"]%string in
  let rows := [[1; 20; 300]; [2; 10; 100]; [3; 30; 200]] in
  let ops := [OCols ["c"; "a"]%string; OFilter "b"%string RGt (OConst 15); OCol "a"%string; OSlice (mkSlice None None (Some 2))] in
  NoDup hd /\ Forall (ok hd) rows /\ wf_ops hd false ops /\
  option_map iter (apply_ops (fresh hd rows) ops) = Some [[1]] /\ spec_nf hd rows ops = [[1]].
Proof.
  cbn zeta. repeat split; try reflexivity.
  - repeat constructor; cbn; intuition discriminate.
  - repeat constructor.
  - intros x [<-|[<-|[]]]; cbn; tauto.
  - cbn; tauto.
Qed.

(* The same on a table with one nested sequence level (model/Nested.v: values are trees, a sequence cell holds its inner rows).
   For every such table, every list of well-shaped source rows and every chain - any length, order and repetition - of
   outer-column filters, inner-column filters, column selections, child selections (the inner sequence, then its own columns or
   one of them), record indices and slices: iterating the stream gives the normal form BY NAME - the source rows that pass all
   the outer filters, the inner rows of every record that pass all the inner filters, seen through the selections in order, then
   sliced in order.  wf_nops: a selection names columns visible at that point. *)
From PydapV Require Import Nested NestedProofs.
Theorem C17_nested_normal_form : forall t spos rows ops d,
  index_of (sq t) (ohd t) = Some spos -> NoDup (ohd t) -> NoDup (ihd t) ->
  Forall (okrow t spos) rows ->
  wf_nops t (MOuter (ohd t)) ops -> napply_ops t (nfresh t rows) ops = Some d ->
  niter spos d = nspec t spos rows ops.
Proof. intros t spos rows ops d H1 H2 H3. exact (nested_normal_form t spos H1 H2 H3 rows ops d). Qed.
Print Assumptions C17_nested_normal_form.

(* ... and every step of such a chain builds a new stream over the same untouched source rows *)
Theorem C17_nested_step_leaves_source : forall t d o d', napply t d o = Some d' -> nsrc d' = nsrc d.
Proof. exact nested_step_leaves_source. Qed.
Print Assumptions C17_nested_step_leaves_source.

Example C17_nested_ex :
  let t := mkTable ["id"; "in"; "z"]%string "in"%string ["x"; "y"]%string in
  let rows := [TN [TL 1; TN [TN [TL 10; TL 11]; TN [TL 20; TL 21]]; TL 7]; TN [TL 2; TN []; TL 8]; TN [TL 3; TN [TN [TL 30; TL 31]]; TL 9]] in
  let ops := [NChild "in"%string; NIFilt "x"%string RGt (OConst 15); NCols ["y"]%string; NOFilt "id"%string RLt (OConst 3)] in
  index_of (sq t) (ohd t) = Some 1%nat /\ NoDup (ohd t) /\ NoDup (ihd t) /\ Forall (okrow t 1) rows /\
  wf_nops t (MOuter (ohd t)) ops /\
  option_map (niter 1) (napply_ops t (nfresh t rows) ops) = Some [TN [TN [TL 21]]; TN []] /\
  nspec t 1 rows ops = [TN [TN [TL 21]]; TN []].
Proof.
  cbn zeta. split; [reflexivity|]. split; [repeat constructor; cbn; intuition discriminate|].
  split; [repeat constructor; cbn; intuition discriminate|].
  split; [repeat constructor|]. split; [|split; vm_compute; reflexivity].
  cbn. repeat split; try (left; reflexivity); try (right; left; reflexivity); intros x [<-|[]]; cbn; tauto.
Qed.
