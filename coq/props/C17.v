(* C17 - Lazy row streams obey the constraint normal form and are never consumed.
   MODEL = IterData.__getitem__/__iter__ on flat tables; SPEC = spec_nf (by column NAME). *)
From PydapV Require Import Base Slices IterData IterDataProofs.

(* Any chain (any length, order, repetition) of filters, column selections, child selections, record
   indices and slices applied to a lazy stream iterates to: the source rows filtered with ALL the
   filters, restricted to the finally selected columns (by name, in request order), then sliced in
   order.  wf_ops: each selection names columns that are visible at that point. *)
Theorem C17_normal_form : forall hd rows ops d,
  NoDup hd -> Forall (ok hd) rows ->
  wf_ops hd false ops -> apply_ops (fresh hd rows) ops = Some d ->
  iter d = spec_nf hd rows ops.
Proof. exact normal_form. Qed.
Print Assumptions C17_normal_form.

(* A step builds a new stream over the same untouched source. *)
Theorem C17_step_leaves_source : forall d o d', apply_op d o = Some d' -> src d' = src d /\ header d' = header d.
Proof. exact step_leaves_source. Qed.
Print Assumptions C17_step_leaves_source.

Example C17_ex :
  let hd := ["a"; "b"; "c"]%string in
  let rows := [[1; 20; 300]; [2; 10; 100]; [3; 30; 200]] in
  let ops := [OCols ["c"; "a"]%string; OFilter "b"%string RGt (OConst 15); OCol "a"%string; OSlice (mkSlice None None (Some 2))] in
  NoDup hd /\ Forall (ok hd) rows /\ wf_ops hd false ops /\
  option_map iter (apply_ops (fresh hd rows) ops) = Some [[1]] /\ spec_nf hd rows ops = [[1]].
Proof.
  cbn zeta. repeat split; try reflexivity.
  - repeat constructor; cbn; intuition discriminate.
  - repeat constructor.
  - intros x [<-|[<-|[]]]; cbn; tauto.
  - cbn; tauto.
Qed.
