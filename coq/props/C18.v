(* C18 - All traffic of a dataset uses its session; caching never changes results. *)
From PydapV Require Import Base Slices IterData Proxy ProxyProofs Handler GenFacts.
Open Scope Z_scope.

(* every object derived from a sequence of an opened dataset - through any chain of operations -
   sends its requests through the session of the object it was derived from *)
Theorem C18_session_invariant : forall ops p p',
  papply_ops p ops = Some p' -> rvia (request_of p') = psession p.
Proof. intros. now apply (every_request_uses_the_session ops). Qed.
Print Assumptions C18_session_invariant.

(* on THIS source tree: every construction of a proxy / function proxy and every GET made on behalf of
   a dataset passes a session on (extracted from the source on every run) *)
Theorem C18_session_is_forwarded_everywhere :
  forallb snd session_forwarding = true /\ (10 <= List.length session_forwarding)%nat.
Proof. split; [reflexivity|cbn; lia]. Qed.
Print Assumptions C18_session_is_forwarded_everywhere.

(* two requests get the same cache key only if they are the same request, or both carry the same
   declared shared constraint and lie under the declared common base (by path component) on the
   same host *)
Theorem C18_cache_key_sound : forall shared base u1 u2,
  cache_key shared base u1 = cache_key shared base u2 ->
  u1 = u2 \/
  (exists b ce, base = Some b /\ uce u1 = Some ce /\ uce u2 = Some ce /\ In ce shared /\
                under b (upath u1) = true /\ under b (upath u2) = true /\ uhost u1 = uhost u2).
Proof. exact cache_key_sound. Qed.
Print Assumptions C18_cache_key_sound.

Example C18_ex :
  let b := ["data"; "coll"]%string in
  cache_key ["/time"]%string (Some b) (mkUrl "h" ["data"; "coll"; "a.nc.dap"] (Some "/time") [])%string =
  cache_key ["/time"]%string (Some b) (mkUrl "h" ["data"; "coll"; "sub"; "b.nc.dap"] (Some "/time") [])%string /\
  cache_key ["/time"]%string (Some b) (mkUrl "h" ["data"; "coll2"; "a.nc.dap"] (Some "/time") [])%string <>
  cache_key ["/time"]%string (Some b) (mkUrl "h" ["data"; "coll"; "a.nc.dap"] (Some "/time") [])%string.
Proof. cbn zeta. split; [reflexivity|discriminate]. Qed.
