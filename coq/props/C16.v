(* C16 - The file server never leaves its data directory and routes by what is on disk.
   MODEL = route (DapServer.__call__ + index) over an abstract file system. *)
From PydapV Require Import Base Paths PathsProofs.

Theorem C16_confined : forall exts fs root path_info,
  isdir fs root = true ->
  Forall (inside root) (snd (route exts fs root path_info)).
Proof. exact confined. Qed.
Print Assumptions C16_confined.

Theorem C16_outside_is_forbidden : forall exts fs root path_info,
  is_prefix root (resolve root path_info) = false -> route exts fs root path_info = (Forbidden, []).
Proof. exact outside_is_forbidden. Qed.
Print Assumptions C16_outside_is_forbidden.

Theorem C16_refusal_discloses_nothing : forall exts fs root path_info,
  match fst (route exts fs root path_info) with
  | Forbidden | NotFound | Unsupported _ =>
      Forall (fun a => match a with Stat _ => True | _ => False end) (snd (route exts fs root path_info))
  | _ => True
  end.
Proof. exact refusal_discloses_nothing. Qed.
Print Assumptions C16_refusal_discloses_nothing.

Theorem C16_routing_table : forall exts fs root path_info,
  let p := resolve root path_info in
  is_prefix root p = true -> chars_eqb (last p []) catalog_xml = false ->
  (isfile fs p = true -> fst (route exts fs root path_info) = FileVerbatim p) /\
  (isdir fs p = true -> fst (route exts fs root path_info) = Listing p (listdir fs p)) /\
  (exists_ fs p = false ->
     let '(base, ext) := splitext p in
     fst (route exts fs root path_info) =
       if isfile fs base then (if supported exts base then Dap base ext else Unsupported base) else NotFound).
Proof. exact routing_table. Qed.
Print Assumptions C16_routing_table.

(* the pre-fix check (string prefix) is refuted by a sibling directory sharing the name prefix *)
Theorem C16_string_prefix_check_refuted :
  exists root p, string_startswith root p = true /\ is_prefix root p = false.
Proof. exact string_prefix_check_refuted. Qed.
Print Assumptions C16_string_prefix_check_refuted.

Example C16_ex :
  let root := [s2l "srv"; s2l "data"] in
  let fs := [(root, Dir); (root ++ [s2l "t.csv"], File 1); ([s2l "srv"; s2l "data2"], Dir);
             ([s2l "srv"; s2l "data2"; s2l "s.txt"], File 2)] in
  isdir fs root = true /\
  route [s2l ".csv"] fs root (s2l "/../data2/s.txt") = (Forbidden, []) /\
  fst (route [s2l ".csv"] fs root (s2l "/sub/../t.csv.dds")) = Dap (root ++ [s2l "t.csv"]) (s2l ".dds").
Proof. cbn zeta. repeat split; reflexivity. Qed.
