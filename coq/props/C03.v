(* C03 - Slice algebra: normalise, compose and print/parse preserve the selection.
   Only statements; proofs live in proofs/.  np_indices / np_select are the numpy SPEC
   (validated against numpy itself by the check), fix_slice / combine_slices / hyperslab /
   parse_hyperslab are the MODEL of pydap (validated against pydap by the check). *)
From PydapV Require Import Base Slices SliceArith SliceProofs HyperslabProofs.
Open Scope Z_scope.

(* Law 1.  For every shape (any rank, any extents >= 0), every index tuple with at most one
   Ellipsis whose expanded items are in the property's domain (ints in [-N,N), slice bounds
   >= -N or None, step >= 1 or None): fix_slice succeeds, its result has the rank of the shape,
   contains no None / negative value, and selects exactly the numpy selection. *)
Theorem C03_fix_slice_preserves : forall shape sl,
  Forall (fun N => 0 <= N) shape ->
  one_ellipsis sl ->
  Forall2 item_in_domain shape (np_expand sl (List.length shape)) ->
  exists out, fix_slice sl shape = Some out /\ Forall item_normalised out /\
              List.length out = List.length shape /\
              np_select_axes shape out = np_select shape sl.
Proof. exact fix_slice_preserves_tuple. Qed.
Print Assumptions C03_fix_slice_preserves.

(* Law 2.  For tuples of any (unequal) lengths and ANY strides: per axis, the combined slice
   selects, from an axis of any length N, element number j of the first selection for every j
   the second slice selects from that first selection  (x[combine(s1,s2)] == x[s1][s2]). *)
Theorem C03_combine_law : forall s1 s2,
  Forall item_wn s1 -> Forall item_wn s2 ->
  exists out,
    combine_slices s1 s2 = Some (map ISlice out) /\
    Forall2 (fun p c => forall N, 0 <= N ->
               np_indices N c =
               map (nthZ (np_indices N (slice_of (fst p))))
                   (np_indices (lenZ (np_indices N (slice_of (fst p)))) (slice_of (snd p))))
            (zip_longest full s1 s2) out.
Proof. exact combine_slices_law. Qed.
Print Assumptions C03_combine_law.

(* Law 3.  The hyperslab text of normalised slices with non-zero stop (every normalised slice
   that selects something, see C03_nonempty_is_printable) parses back to the very same slices. *)
Theorem C03_hyperslab_roundtrip : forall sl,
  Forall printable sl ->
  exists text, hyperslab sl = Some text /\ parse_hyperslab text = Some sl.
Proof. exact hyperslab_roundtrip. Qed.
Print Assumptions C03_hyperslab_roundtrip.

Theorem C03_nonempty_is_printable : forall N s,
  normalised s -> np_indices N s <> [] -> printable (ISlice s).
Proof. exact normalised_nonempty_printable. Qed.
Print Assumptions C03_nonempty_is_printable.

(* ---- non-vacuity: concrete non-trivial instances meet the hypotheses ---- *)
Example C03_ex_fix :
  let shape := [5; 4; 3] in
  let sl := [ISlice (mkSlice (Some (-3)) None (Some 2)); IEllipsis; IInt (-1)] in
  Forall (fun N => 0 <= N) shape /\ one_ellipsis sl /\
  Forall2 item_in_domain shape (np_expand sl (List.length shape)) /\
  np_select shape sl = Some [[2; 4]; [0; 1; 2; 3]; [2]].
Proof.
  cbn zeta. repeat split.
  - repeat constructor; lia.
  - apply (OE_one [ISlice (mkSlice (Some (-3)) None (Some 2))] [IInt (-1)]); repeat constructor.
  - cbn. repeat constructor; cbn; lia.
Qed.

Example C03_ex_combine :
  let s1 := [ISlice (mkSlice (Some 1) (Some 11) (Some 2))] in
  let s2 := [ISlice (mkSlice (Some 1) (Some 3) (Some 1)); IInt 2] in
  Forall item_wn s1 /\ Forall item_wn s2 /\
  combine_slices s1 s2 = Some [ISlice (mkSlice (Some 3) (Some 7) (Some 2));
                               ISlice (mkSlice (Some 2) (Some 3) (Some 1))] /\
  np_indices 10 (mkSlice (Some 3) (Some 7) (Some 2)) = [3; 5].
Proof. cbn zeta. repeat split; repeat constructor; cbn; try lia; exact I. Qed.

Example C03_ex_hyperslab :
  let sl := [ISlice (mkSlice (Some 3) (Some 7) (Some 2)); ISlice (mkSlice (Some 0) (Some 4) (Some 1))] in
  Forall printable sl /\ hyperslab sl = Some "[3:2:6][0:1:3]"%string.
Proof.
  cbn zeta. split; [|reflexivity].
  repeat constructor; do 3 eexists; (split; [reflexivity|]); split; discriminate.
Qed.
