(* C10 - DAP4 responses decode to the served values for any chunking and byte order.
   SPEC = response/data_chunks/payload (the wire format), MODEL = unpack_dap4 (pydap's client). *)
From PydapV Require Import Base Words Dap4 Dap4Proofs.
Definition B4 : list Ascii.ascii := [Ascii.zero; Ascii.zero; Ascii.zero; Ascii.zero].

(* For every byte order, every DMR text shorter than 2^24 bytes, every list of variables (declaration
   order) with in-range values of every atomic numeric type, and EVERY partition of the serialized
   payload into chunks (each shorter than 2^24 bytes): the client decodes exactly the served values. *)
Theorem C10_decode_any_chunking : forall little dmr parts vars,
  small dmr -> parts <> [] -> Forall small parts -> Forall var_ok vars ->
  List.concat parts = payload little vars ->
  unpack_dap4 (response little dmr parts) (map (fun x => fst (fst x)) vars) =
  Some (little, dmr, map (fun x => snd (fst x)) vars).
Proof. exact decode_dap4. Qed.
Print Assumptions C10_decode_any_chunking.

(* Chunk reassembly alone: any partition of any payload is put back together. *)
Theorem C10_reassemble : forall little parts,
  parts <> [] -> Forall small parts -> stream2bytearray (data_chunks little parts) = Some (List.concat parts).
Proof. exact reassemble. Qed.
Print Assumptions C10_reassemble.

(* Element codec: every in-range value of every type survives encode/decode in both byte orders. *)
Theorem C10_element_roundtrip : forall little t v, in_range t v -> dec_elem little t (enc_elem little t v) = v.
Proof. exact dec_enc_elem. Qed.
Print Assumptions C10_element_roundtrip.

Example C10_ex :
  let vars := [(mkVar T_I16 2, [VInt (-2); VInt 513], B4)%list; (mkVar T_F32 1, [VBits 1065353216], B4)] in
  Forall var_ok vars /\
  exists p1 p2, p1 <> [] /\ List.concat [p1; p2] = payload true vars /\
  unpack_dap4 (response true (s2l "<Dataset/>") [p1; p2]) [mkVar T_I16 2; mkVar T_F32 1] =
  Some (true, s2l "<Dataset/>", [[VInt (-2); VInt 513]; [VBits 1065353216]]).
Proof.
  cbn zeta. split.
  - repeat constructor; cbn; lia.
  - exists (firstn 3 (payload true [(mkVar T_I16 2, [VInt (-2); VInt 513], B4); (mkVar T_F32 1, [VBits 1065353216], B4)])),
           (skipn 3 (payload true [(mkVar T_I16 2, [VInt (-2); VInt 513], B4); (mkVar T_F32 1, [VBits 1065353216], B4)])).
    split; [discriminate|]. split; [cbn [List.concat]; rewrite app_nil_r; apply firstn_skipn|]. reflexivity.
Qed.
