(* C13 - Serving a request never changes what any other request returns.
   Statements only; proofs in proofs/IsolationProofs.v.  PARTIAL: what is proved is the consequence of the shape
   "every step of a request reads the shared dataset and writes only request-owned state" - for every number of requests, every
   script and EVERY interleaving.  That pydap's handler has that shape is tied down by (a) the structural facts below,
   re-extracted from the source on every run, and (b) the dynamic check of harness/c13.py (request histories and controlled
   thread schedules against one application object, deep snapshots of the served dataset).  Memory visibility, the GIL and
   C-level races inside numpy are runtime behaviour this model cannot exhibit. *)
From PydapV Require Import Base Isolation IsolationProofs Handler GenFacts.
Open Scope nat_scope.

(* (a) BaseHandler.parse starts from copy.copy(self.dataset) and nothing in the handler assigns into self.dataset; the request
   path keeps no module-level mutable state; StructureType.__copy__ clones its children, BaseType.__copy__ builds a new object *)
Theorem C13_source_facts :
  parse_copies_first && fact_no_self_dataset_writes && fact_no_module_state && fact_copy_clones = true.
Proof. reflexivity. Qed.
Print Assumptions C13_source_facts.

(* any schedule (list of thread indices, any length, any unfairness) that lets every request finish leaves each request with
   exactly the result it computes when it runs alone against the same dataset *)
Theorem C13_interleaving_irrelevant : forall (Sh L : Type) (s : Sh) (c : config Sh L) (sched : list nat),
  finished (run_sched s c sched) -> map snd (run_sched s c sched) = alone s c.
Proof. exact interleaving_irrelevant. Qed.
Print Assumptions C13_interleaving_irrelevant.

(* at every moment of every schedule, a request's state is that of a prefix of its own script run alone *)
Theorem C13_prefix_invariant : forall (Sh L : Type) (s : Sh) (sched : list nat) (c : config Sh L),
  Forall2 (fun x0 x => exists done, fst x0 = (done ++ fst x)%list /\ snd x = run_script s done (snd x0)) c (run_sched s c sched).
Proof. exact prefix_invariant. Qed.
Print Assumptions C13_prefix_invariant.

(* a sequence of requests leaves the dataset as it was and answers each request as a fresh server would *)
Theorem C13_history_irrelevant : forall (Sh L : Type) (s : Sh) (init : L) (ts : list (script Sh L)),
  serve_all s init ts = (s, map (fun t => run_script s t init) ts).
Proof. exact history_irrelevant. Qed.
Print Assumptions C13_history_irrelevant.

(* non-vacuity: three scripts over a shared number, a schedule that interleaves them *)
Example C13_ex :
  let c : config nat (list nat) := [([fun s l => s :: l; fun s l => (s + 1) :: l], []); ([fun s l => (2 * s) :: l], [7]); ([], [])] in
  let r := run_sched 5 c [1; 0; 2; 0; 1] in
  finished r /\ map snd r = [[6; 5]; [10; 7]; []] /\ alone 5 c = [[6; 5]; [10; 7]; []].
Proof. cbn. repeat split; repeat constructor. Qed.
