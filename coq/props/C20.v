(* C20 - File handlers expose exactly the file: NetCDF and CSV contents, unscaled.
   PARTIAL.  What is proved is the naming logic of the NetCDF handler (model/NcScope.v): the fully qualified dimension names it
   gives a variable are those of the nearest enclosing declarations.  Reading the file (netCDF4 / csv libraries), block-wise
   hyperslab reads (numpy Arrayterator) and value fidelity are outside the model: harness/c20.py compares the handler's dataset
   and the decoded responses for generated files with what the libraries read. *)
From PydapV Require Import Base Quote DMR NcScope NcScopeProofs.
Open Scope nat_scope.

(* for every scope chain (any nesting depth) and every name declared somewhere up the chain: the walk stops at the NEAREST
   group that declares the name, and that declaration gives the size *)
Theorem C20_nearest_enclosing_declaration : forall sc d n,
  resolve_size sc d = Some n ->
  exists before p dims after,
    sc = (before ++ (p, dims) :: after)%list /\ Forall (fun s => aget d (snd s) = None) before /\
    aget d dims = Some n /\ resolve sc d = p.
Proof. exact resolve_nearest. Qed.
Print Assumptions C20_nearest_enclosing_declaration.

(* the rule the handler used before the repair (last registered dimension of that short name) is refuted by a root dimension x
   re-declared in /g1 and used by a variable of the sibling group /g2; the walk gives /x *)
Theorem C20_last_registered_name_refuted :
  option_map l2s (last_match (registered [] true shadow_tree) (s2l "x")) = Some "/g1/x"%string /\
  map (fun v => (l2s (fst v), map l2s (snd v))) (vars_of [] [] shadow_tree) =
    [("/g1/w", ["/g1/x"]); ("/g2/u", ["/x"])]%string.
Proof. exact last_match_refuted. Qed.
Print Assumptions C20_last_registered_name_refuted.
