(* C20 - File handlers expose exactly the file: NetCDF and CSV contents, unscaled.
   PARTIAL.  What is proved is the naming logic of the NetCDF handler (model/NcScope.v): the fully qualified dimension names it
   gives a variable are those of the nearest enclosing declarations.  Reading the file (netCDF4 / csv libraries), block-wise
   hyperslab reads (numpy Arrayterator) and value fidelity are outside the model: harness/c20.py compares the handler's dataset
   and the decoded responses for generated files with what the libraries read. *)
From PydapV Require Import Base Quote DMR DMRProofs NcScope NcScopeProofs NcUniq.
Open Scope nat_scope.

(* for every scope chain (any nesting depth) and every name declared somewhere up the chain: the walk stops at the NEAREST
   group that declares the name, and that declaration gives the size *)
Theorem C20_nearest_enclosing_declaration : forall sc d n,
  resolve_size sc d = Some n ->
  exists before p dims after,
    sc = (before ++ (p, dims) :: after)%list /\ Forall (fun s => aget d (snd s) = None) before /\
    aget d dims = Some n /\ resolve sc d = p.
Proof. exact resolve_nearest. Qed.
Print Assumptions C20_nearest_enclosing_declaration.

(* the rule the handler used before the repair (last registered dimension of that short name) is refuted by a root dimension x
   re-declared in /g1 and used by a variable of the sibling group /g2; the walk gives /x *)
Theorem C20_last_registered_name_refuted :
  option_map l2s (last_match (registered [] true shadow_tree) (s2l "x")) = Some "/g1/x"%string /\
  map (fun v => (l2s (fst v), map l2s (snd v))) (vars_of [] [] shadow_tree) =
    [("/g1/w", ["/g1/x"]); ("/g2/u", ["/x"])]%string.
Proof. exact last_match_refuted. Qed.
Print Assumptions C20_last_registered_name_refuted.

(* one dataset variable per file variable: for every group tree a NetCDF file can hold (any depth; names without a slash,
   variable names unique within their group, sub-group names unique within their group; the same names may be reused in different
   groups) the fully qualified names the handler uses as keys are pairwise distinct, and there are exactly as many as the file
   has variables - nothing is overwritten, dropped or invented *)
Theorem C20_one_variable_per_file_variable : forall g,
  wf_grp g ->
  NoDup (map fst (vars_of [] [] g)) /\ List.length (vars_of [] [] g) = List.length (file_vars g).
Proof. exact vars_unique. Qed.
Print Assumptions C20_one_variable_per_file_variable.

Example C20_ex_wf : wf_grp shadow_tree /\ List.length (file_vars shadow_tree) = 2.
Proof.
  split; [|reflexivity]. cbn. repeat split; repeat constructor; cbn; try tauto;
    try (intros [H|H]; [discriminate H|exact H]).
Qed.

(* the dimension names are references to declarations of the file: [vars_sized] lists, next to every fully qualified dimension
   name the handler writes (its first projection IS vars_of), the extent NetCDF's scoping rule gives that axis; whenever the short
   name is declared somewhere up the chain, the fully qualified name is the name of a declaration of the file with exactly that
   size - for every tree, any depth, any shadowing *)
Theorem C20_dimension_names_are_declarations : forall g,
  map (fun v => (fst v, map fst (snd v))) (vars_sized [] [] g) = vars_of [] [] g /\
  forall v, In v (vars_sized [] [] g) ->
    Forall (fun r => forall n, snd r = Some n -> In (fst r, n) (decls_of [] true g)) (snd v).
Proof. intros g. split; [apply vars_sized_names|apply dims_declared]. Qed.
Print Assumptions C20_dimension_names_are_declarations.

Example C20_ex_sized :
  map (fun v => (l2s (fst v), map (fun r => (l2s (fst r), snd r)) (snd v))) (vars_sized [] [] shadow_tree) =
  [("/g1/w", [("/g1/x", Some 5)]); ("/g2/u", [("/x", Some 3)])]%string.
Proof. vm_compute. reflexivity. Qed.
