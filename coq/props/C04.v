(* C04 - Sequence constraints return exactly the selected records and columns.
   The server applies the selection clauses, the column projection and the record range through the
   lazy-stream operations of C17; the result is the reference filter. *)
From PydapV Require Import Base Slices IterData IterDataProofs.

Theorem C04_constraint_expression : forall hd rows clauses cols range d,
  NoDup hd -> Forall (ok hd) rows -> incl cols hd ->
  let ops := map (fun c => OFilter (fst (fst c)) (snd (fst c)) (snd c)) clauses ++ [OCols cols; OSlice range] in
  apply_ops (fresh hd rows) ops = Some d ->
  iter d = islice range (map (fun r => map (lookup hd r) cols)
                             (filter (fun r => forallb (fun c => filt_by_name hd (fst (fst c)) (snd (fst c)) (snd c) r) clauses) rows)).
Proof. exact constraint_expression. Qed.
Print Assumptions C04_constraint_expression.

(* and it does not matter in which order a client builds the constraint with the lazy operators *)
Theorem C04_operator_order_irrelevant : forall hd rows ops d,
  NoDup hd -> Forall (ok hd) rows -> wf_ops hd false ops -> apply_ops (fresh hd rows) ops = Some d ->
  iter d = spec_nf hd rows ops.
Proof. exact normal_form. Qed.
Print Assumptions C04_operator_order_irrelevant.

Example C04_ex :
  let hd := ["i"; "t"]%string in
  let rows := [[10; 152]; [11; 131]; [12; 133]; [13; 121]] in
  exists d, apply_ops (fresh hd rows) [OFilter "i"%string RGt (OConst 10); OCols ["t"]%string; OSlice (mkSlice (Some 0) (Some 2) (Some 1))] = Some d
            /\ iter d = [[131]; [133]].
Proof. cbn zeta. eexists. split; reflexivity. Qed.
