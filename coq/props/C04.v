(* C04 - Sequence constraints return exactly the selected records and columns.
   The server applies the selection clauses, the column projection and the record range through the
   lazy-stream operations of C17; the result is the reference filter. *)
From PydapV Require Import Base Slices IterData IterDataProofs Projection ProjectionProofs.

Theorem C04_constraint_expression : forall hd rows clauses cols range d,
  NoDup hd -> Forall (ok hd) rows -> incl cols hd ->
  let ops := map (fun c => OFilter (fst (fst c)) (snd (fst c)) (snd c)) clauses ++ [OCols cols; OSlice range] in
  apply_ops (fresh hd rows) ops = Some d ->
  iter d = islice range (map (fun r => map (lookup hd r) cols)
                             (filter (fun r => forallb (fun c => filt_by_name hd (fst (fst c)) (snd (fst c)) (snd c) r) clauses) rows)).
Proof. exact constraint_expression. Qed.
Print Assumptions C04_constraint_expression.

(* and it does not matter in which order a client builds the constraint with the lazy operators *)
Theorem C04_operator_order_irrelevant : forall hd rows ops d,
  NoDup hd -> Forall (ok hd) rows -> wf_ops hd false ops -> apply_ops (fresh hd rows) ops = Some d ->
  iter d = spec_nf hd rows ops.
Proof. exact normal_form. Qed.
Print Assumptions C04_operator_order_irrelevant.

Example C04_ex :
  let hd := ["i"; "t"]%string in
  let rows := [[10; 152]; [11; 131]; [12; 133]; [13; 121]] in
  exists d, apply_ops (fresh hd rows) [OFilter "i"%string RGt (OConst 10); OCols ["t"]%string; OSlice (mkSlice (Some 0) (Some 2) (Some 1))] = Some d
            /\ iter d = [[131]; [133]].
Proof. cbn zeta. eexists. split; reflexivity. Qed.

(* The hyperslabs of a projection (the loop of apply_projection, model/Projection.v; one sliced axis per variable: a rank-1 array or
   the record axis of a sequence).  A mention that repeats an earlier (variable, hyperslab) pair changes nothing - whatever stands
   between and after the two, acceptance and refusal included ... *)
Theorem C04_repeated_mention_is_noop : forall bounded st pre v s post,
  In (v, Some s) pre ->
  run bounded [] st (pre ++ (v, Some s) :: post) = run bounded [] st (pre ++ post).
Proof. exact repeated_mention_is_noop. Qed.
Print Assumptions C04_repeated_mention_is_noop.

(* ... so a variable written with ONE hyperslab, however often and wherever in the list (q[1:1:3].c,q[1:1:3].a), holds exactly
   that hyperslab of its source, and a variable written without any holds all of it *)
Theorem C04_one_hyperslab_however_often : forall bounded st items fin v s src,
  plookup v st = Some src -> only_slab v s items -> In (v, Some s) items ->
  run bounded [] st items = Some fin ->
  plookup v fin = Some (take_slab s src).
Proof. exact one_hyperslab_however_often. Qed.
Print Assumptions C04_one_hyperslab_however_often.

Theorem C04_unsliced_variable_is_whole : forall bounded st items fin v src,
  plookup v st = Some src -> (forall t, ~ In (v, Some t) items) ->
  run bounded [] st items = Some fin ->
  plookup v fin = Some src.
Proof. exact unsliced_variable_is_whole. Qed.
Print Assumptions C04_unsliced_variable_is_whole.

Example C04_projection_ex :
  let st := [("q"%string, [0; 1; 2; 3; 4; 5]); ("x"%string, [0; 1; 2])] in
  let s := mkSlab 1 4 1 in
  run (fun v => String.eqb v "x") [] st [("q"%string, Some s); ("x"%string, None); ("q"%string, Some s)]
    = Some [("q"%string, [1; 2; 3]); ("x"%string, [0; 1; 2])]
  /\ run (fun v => String.eqb v "x") [] st [("x"%string, Some (mkSlab 3 4 1))] = None.
Proof. cbn zeta. split; reflexivity. Qed.
