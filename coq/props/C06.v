(* C06 - All response kinds describe the same constrained dataset.
   Statements only.  (a) structural facts re-extracted from the source on every run (coq/gen/GenFacts.v): each data-bearing
   response renders dds(self.dataset) first and its own part from the SAME self.dataset; BaseHandler.__call__ builds one dataset
   from the query and hands it to the response; the DAS request clears the query.  (b) the handler model built on those facts.
   (c) layout laws of the ASCII response (model/AsciiResp.v, proofs/AsciiProofs.v). *)
From PydapV Require Import Base DDS DAS AsciiResp AsciiProofs Handler GenFacts.
Open Scope nat_scope.
Open Scope list_scope.

(* (a) the facts hold on the current source: this is the obligation a change of the response classes breaks *)
Theorem C06_source_facts :
  fact_dds_iter && fact_dods_iter && fact_ascii_iter && fact_call_one_dataset && das_clears_query = true.
Proof. reflexivity. Qed.
Print Assumptions C06_source_facts.

(* (b) the handler under those facts: one constrained dataset per request, every body derived from it *)
Section Responses.
  Variable D : Type.                                   (* constrained datasets *)
  Variable constrain : chars -> option D.              (* parse_ce + BaseHandler.parse; None = error document *)
  Variables dds_text dods_data ascii_text das_text : D -> chars.
  Inductive kind := KDds | KDods | KAscii | KDas.
  Definition body (k : kind) (q : chars) : option chars :=
    let q' := match k with KDas => if das_clears_query then [] else q | _ => q end in
    option_map (fun d => match k with
                         | KDds => dds_text d
                         | KDods => dds_text d ++ s2l "Data:" ++ DDS.nl :: dods_data d
                         | KAscii => dds_text d ++ dashes ++ DDS.nl :: ascii_text d
                         | KDas => das_text d
                         end) (constrain q').

  (* the DDS, the data response and the ASCII response of one query carry the same DDS text, hence (C07) the same
     variables, order, types and shapes; all three succeed or fail together *)
  Theorem C06_same_dds : forall q t, body KDds q = Some t ->
    exists r1 r2, body KDods q = Some (t ++ s2l "Data:" ++ DDS.nl :: r1) /\ body KAscii q = Some (t ++ dashes ++ DDS.nl :: r2).
  Proof.
    unfold body. intros q t H. destruct (constrain q) as [d|]; [|discriminate]. cbn [option_map] in *.
    injection H as <-. eexists _, _. split; reflexivity.
  Qed.
  Theorem C06_fail_together : forall q, body KDds q = None -> body KDods q = None /\ body KAscii q = None.
  Proof. unfold body. intros q H. destruct (constrain q); [discriminate|]. split; reflexivity. Qed.

  (* the DAS does not depend on the constraint *)
  Theorem C06_das_independent : forall q1 q2, body KDas q1 = body KDas q2.
  Proof. intros q1 q2. unfold body. change das_clears_query with true. reflexivity. Qed.
End Responses.
Print Assumptions C06_same_dds.
Print Assumptions C06_fail_together.
Print Assumptions C06_das_independent.

(* (c) an array of shape s with prod s values is printed as prod s lines; line k carries value k and the multi-index whose
   C-order offset is k (so every value of the data response appears once, in the order of the data response) *)
Theorem C06_ascii_array : forall shape toks,
  List.length toks = prod shape ->
  elem_lines (ndindex shape) toks = flat_map (line_of (ndindex shape) toks) (seq 0 (prod shape)).
Proof. exact ascii_array_lines. Qed.
Print Assumptions C06_ascii_array.

Theorem C06_index_labels : forall shape k, k < prod shape ->
  in_range shape (nth k (ndindex shape) []) /\ ravel shape (nth k (ndindex shape) []) = k.
Proof. exact ndindex_nth. Qed.
Print Assumptions C06_index_labels.

Theorem C06_ascii_sequence : forall ids rows,
  print_avar true (VSeq ids rows) =
  cjoin (s2l ", ") ids ++ [DDS.nl] ++ flat_map (fun row => cjoin (s2l ", ") row ++ [DDS.nl]) rows.
Proof. exact ascii_sequence. Qed.
Print Assumptions C06_ascii_sequence.

Example C06_ex :
  l2s (print_avar true (VStruct [VArr (s2l "x") [2; 2] [s2l "1.5"; s2l "2"; s2l "1e-07"; s2l "3"]; VArr (s2l "b") [] [s2l "7"]]))
  = "x
[0][0] 1.5
[0][1] 2
[1][0] 1e-07
[1][1] 3

b
7
"%string /\ prod [2; 2] = 4.
Proof. split; vm_compute; reflexivity. Qed.
