(* C05 - Data responses are byte-exact DAP2/XDR; the client decodes any conforming stream.
   SPEC  xdr    : the DAP2/XDR encoding (widths, big-endian, doubled array length, 4-byte padding of
                  bytes and strings, sequence start/end markers at every nesting level);
   MODEL dods   : pydap's encoder (responses/dods.py), with its packed fast path for flat sequences;
   MODEL unpack : pydap's decoder (handlers/dap.py), with its fixed-width fast path. *)
From PydapV Require Import Base Words Xdr XdrProofs.

(* The encoder writes exactly the XDR encoding, for every declaration and value (no hypothesis). *)
Theorem C05_encoder_is_xdr : forall d v, dods d v = xdr d v.
Proof. exact dods_is_xdr. Qed.
Print Assumptions C05_encoder_is_xdr.

(* The decoder reads ANY conforming stream back: for every declaration (any nesting of structures,
   grids and sequences, any number of records, empty inner sequences included) and every
   well-formed value, decoding the reference bytes - followed by anything - returns the value and
   leaves exactly what followed. *)
Theorem C05_decoder_inverts_xdr : forall d v rest,
  wf d v -> exists b, xdr d v = Some b /\ unpack d (b ++ rest) = Some (v, rest).
Proof. exact unpack_xdr. Qed.
Print Assumptions C05_decoder_inverts_xdr.

(* The advertised Content-Length arithmetic (calculate_size, defined without sequences and strings)
   is the real length of the encoded data. *)
Theorem C05_content_length_exact : forall d v n b,
  wf d v -> calc_size d = Some n -> xdr d v = Some b -> List.length b = n.
Proof. exact content_length_exact. Qed.
Print Assumptions C05_content_length_exact.

Example C05_ex :
  let d := DStruct [DBase TByte (Some 3); DSeq [DBase TInt16 None; DBase TString None; DSeq [DBase TByte None]]] in
  let v := VStruct [VBase [SInt 1; SInt 2; SInt 255];
                    VSeq [[VBase [SInt (-2)]; VBase [SStr (s2l "abcde")]; VSeq [[VBase [SInt 7]]]];
                          [VBase [SInt 5]; VBase [SStr []]; VSeq []]]] in
  wf d v /\ exists b, xdr d v = Some b /\ unpack d b = Some (v, []).
Proof.
  cbn zeta. split.
  - cbn. repeat split; try lia; repeat constructor; try lia; eexists; (split; [reflexivity|]); cbn; lia.
  - eexists. split; [vm_compute; reflexivity|vm_compute; reflexivity].
Qed.
