(* C19 - Server-side functions compute what they name and are transparent otherwise.
   Statements only; proofs in proofs/CallsProofs.v.  Model: model/Calls.v - the text of a call as the client proxy builds it
   (ServerFunction.__call__), the FUNCTION regexp / tokenize / recursive parse of eval_function, the detection of calls in
   ServerSideFunctions.__call__, the index bookkeeping of mean() and the record filter of bounds().
   Outside the model: numpy.mean itself (floating point), the decoding of the responses - compared by the harness against exact
   rational means and a reference filter. *)
From PydapV Require Import Base DDS Calls CallsProofs.
Open Scope nat_scope.

(* wf_cexp: function names are identifiers, calls have at least one argument, leaf arguments (variable ids, encoded constants)
   contain no parenthesis and no comma.  For EVERY call tree (any nesting depth, any number of arguments) the server
   reads the text the client proxy sends as exactly that tree. *)
Theorem C19_proxy_call_is_read_back : forall e fuel,
  wf_cexp e = true -> csize e <= fuel -> parse_cexp fuel (print_cexp e) = Some e.
Proof. exact parse_print_cexp. Qed.
Print Assumptions C19_proxy_call_is_read_back.

(* the argument list of a call is split exactly at its top-level commas *)
Theorem C19_arguments : forall args,
  args <> [] -> forallb wf_cexp args = true -> tokenize (cjoin1 ","%char (map print_cexp args)) = map print_cexp args.
Proof. exact tokenize_print. Qed.
Print Assumptions C19_arguments.

(* transparency: a request without an opening parenthesis is never intercepted ... *)
Theorem C19_function_free_requests_pass : forall projection selection,
  existsb (Ascii.eqb "("%char) projection = false ->
  forallb (fun s => negb (existsb (Ascii.eqb "("%char) s)) selection = true ->
  called projection selection = false.
Proof. exact no_paren_not_called. Qed.
Print Assumptions C19_function_free_requests_pass.

(* ... and a relational clause on a variable is not taken for a call whatever its right-hand side contains *)
Theorem C19_relational_clause_is_not_a_call : forall id rest c,
  forallb is_name_char id = true -> is_name_char c = false -> Ascii.eqb c "("%char = false ->
  function_match (id ++ c :: rest) = None.
Proof. exact relational_clause_not_call. Qed.
Print Assumptions C19_relational_clause_is_not_a_call.

(* mean(v, axis): exactly the axis is removed from shape / dimensions / maps, the others keep their order *)
Theorem C19_mean_axes : forall (X : Type) (axis : nat) (l : list X) d i,
  axis < List.length l ->
  List.length (drop_index axis l) = List.length l - 1 /\
  nth i (drop_index axis l) d = if i <? axis then nth i l d else nth (S i) l d.
Proof. intros X axis l d i H. rewrite drop_index_spec. split; [apply remove_nth_length, H|apply remove_nth_nth, H]. Qed.
Print Assumptions C19_mean_axes.

(* bounds(): the records kept are exactly those inside every interval (min = max meaning equality), in their order *)
Theorem C19_bounds : forall axes rows,
  bounds_filter axes rows =
  filter (fun r => forallb (fun ax => let '(col, lo, hi) := ax in in_bounds lo hi (nth col r 0%Z)) axes) rows.
Proof. exact bounds_filter_spec. Qed.
Print Assumptions C19_bounds.
Theorem C19_bounds_closed_interval : forall lo hi x, (lo <= hi)%Z -> in_bounds lo hi x = ((lo <=? x)%Z && (x <=? hi)%Z).
Proof. exact in_bounds_closed. Qed.
Print Assumptions C19_bounds_closed_interval.

Example C19_ex :
  let e := CCall (s2l "mean") [CCall (s2l "mean") [CLeaf (s2l "g.a"); CLeaf (s2l "0")]; CLeaf (s2l "1")] in
  wf_cexp e = true /\ l2s (print_cexp e) = "mean(mean(g.a,0),1)"%string /\ parse_cexp 5 (print_cexp e) = Some e /\
  called (s2l "x,mean(f,1)") [] = true /\ called (s2l "q") [s2l "q.c=""(u)"""] = false /\
  bounds_filter [(0, 0%Z, 25%Z); (2, 15%Z, 15%Z)] [[10; 1; 5]; [20; 2; 15]; [30; 3; 15]]%Z = [[20; 2; 15]]%Z.
Proof. cbn zeta. repeat split; vm_compute; reflexivity. Qed.
