(* C07 - Dataset structure survives the DDS: print, parse, print is a fixpoint.
   Statements only; proofs in proofs/DDSProofs.v.  Model: model/DDS.v (printer of responses/dds.py, DDSParser of
   parsers/dds.py over SimpleParser.peek/consume with IGNORECASE and lstrip after every token). *)
From PydapV Require Import Base Quote QuoteProofs DDS DDSProofs DDSForeign.
Open Scope nat_scope.

(* wfb t: every variable / container name is non-empty and made of the characters _quote leaves (every pydap name is
          stored quoted), every dimension name is non-empty and quotes to such a string, Grid members are base variables.
   declared seq t: what the DDS text declares for t below `seq` enclosing Sequences - element type,
          name, and per variable the dimensions as printed (see C07_declared_* below).
   For EVERY dataset (any depth, width, rank, name length): the parser returns exactly the declared tree. *)
Theorem C07_parse_print : forall name kids,
  wf_nameb name = true -> forallb wfb kids = true ->
  parse_dataset (print_dataset name kids) = Some (name, map (declared 0) kids).
Proof. exact parse_print_dataset. Qed.
Print Assumptions C07_parse_print.

(* the declared variable: kinds, names, order, element types are kept; shapes and dimension names are the printed ones.
   Dimension names are printed when they COVER the shape (as many names as axes); a variable whose names do not cover its shape
   (a foreign DDS that names only some of the dimensions parses to one) is declared like a variable without names. *)
Theorem C07_declared_named : forall seq ty n dims shape,
  dims <> [] -> List.length dims = List.length (skipn seq shape) ->
  let z := combine (map quote dims) (skipn seq shape) in
  declared seq (TBase ty n dims shape) = TBase ty n (map fst z) (map snd z).
Proof. exact declared_base_named. Qed.
Print Assumptions C07_declared_named.
Theorem C07_declared_rank1 : forall seq ty n dims shape m,
  dims_cover dims (skipn seq shape) = false ->
  skipn seq shape = [m] -> declared seq (TBase ty n dims shape) = TBase ty n [n] [m].
Proof. exact declared_base_rank1. Qed.
Print Assumptions C07_declared_rank1.
Theorem C07_declared_anonymous : forall seq ty n dims shape,
  dims_cover dims (skipn seq shape) = false ->
  List.length (skipn seq shape) <> 1 -> declared seq (TBase ty n dims shape) = TBase ty n [] (skipn seq shape).
Proof. exact declared_base_anon. Qed.
Print Assumptions C07_declared_anonymous.
(* whatever the dimension names a variable carries (none, as many as axes, fewer, more): the text declares its WHOLE shape
   (below the enclosing Sequences) - no axis is lost in print + parse - and either no names or one per axis *)
Theorem C07_declared_shape_whole : forall seq ty n dims shape,
  exists dims', declared seq (TBase ty n dims shape) = TBase ty n dims' (skipn seq shape) /\
                (dims' = [] \/ List.length dims' = List.length (skipn seq shape)).
Proof. exact declared_shape_whole. Qed.
Print Assumptions C07_declared_shape_whole.

(* Printing the parsed dataset reproduces the text exactly - for datasets whose Sequence members are scalars
   (flatb: below k > 0 Sequences a variable has at most the k record axes). *)
Theorem C07_print_parse_print : forall name kids,
  wf_nameb name = true -> forallb wfb kids = true -> forallb (flatb 0) kids = true ->
  exists name' kids', parse_dataset (print_dataset name kids) = Some (name', kids') /\
                      print_dataset name' kids' = print_dataset name kids.
Proof. exact print_parse_print. Qed.
Print Assumptions C07_print_parse_print.

(* ... and the restriction is necessary: with an array-valued Sequence member the reprint drops its dimensions
   (known finding C07-array-in-sequence). *)
Theorem C07_print_parse_print_refuted_for_arrays_in_sequences :
  forallb wfb seq_with_array = true /\
  exists name' kids', parse_dataset (print_dataset (s2l "d") seq_with_array) = Some (name', kids') /\
                      print_dataset name' kids' <> print_dataset (s2l "d") seq_with_array.
Proof. exact print_parse_print_refuted. Qed.
Print Assumptions C07_print_parse_print_refuted_for_arrays_in_sequences.

(* every quoted name satisfies the hypothesis on names (names starting with the literal dap4 keep 8 raw characters) *)
Theorem C07_quoted_names_are_wf : forall s, s <> [] -> prefixb (s2l "dap4") s = false -> wf_nameb (quote s) = true.
Proof. exact quoted_name_wf. Qed.
Print Assumptions C07_quoted_names_are_wf.

(* the dimension list of a declaration in ANY style (named, anonymous, mixed) parses to the shape and names it shows *)
Theorem C07_any_dimension_list : forall pds f R,
  Forall wf_pd pds -> List.length pds < f ->
  parse_dims f (flat_map render_pd pds ++ ";"%char :: R) = Some (map snd pds, flat_map pd_names pds, ";"%char :: R).
Proof. exact parse_dims_pd. Qed.
Print Assumptions C07_any_dimension_list.

(* A DDS written in the style of other servers.  An ftree describes a DDS TEXT: besides the declarations it carries the white space
   after every token (any run of blanks, tabs, CR, LF - possibly empty where the grammar allows), the spelling of every keyword and
   type word (any letter case; Url, Int, UInt included) and for every dimension whether it is named or anonymous and how its size
   is written (leading zeros allowed).  ftext writes the text, fdecl reads off what it declares.  For EVERY such text (any depth,
   width, rank, layout) the parser returns exactly the declared dataset. *)
Theorem C07_any_layout : forall kw g1 g2 kids g3 name g4 trailing ks,
  word kw = true -> spells kw "dataset" = true -> gap g1 = true -> gap g2 = true -> forallb wf_ftree kids = true ->
  gap g3 = true -> contname_ok name = true -> gap g4 = true ->
  omapl fdecl kids = Some ks ->
  parse_dataset (fdataset_text kw g1 g2 kids g3 name g4 trailing) = Some (quote name, ks).
Proof. exact parse_fdataset. Qed.
Print Assumptions C07_any_layout.

Definition ex_foreign_kids : list ftree :=
  [FBase (s2l "url") (s2l "  ") (s2l "u") [] (s2l "  ");
   FBase (s2l "INT") (s2l " ") (s2l "A")
         [mkFdim [] None (s2l "3") [] (s2l " "); mkFdim (s2l " ") None (s2l "007") (s2l " ") []] [DDS.nl];
   FGrid (s2l "GRID") (s2l " ") (s2l " ") (s2l "ARRAY") [] (s2l " ")
         (FBase (s2l "Float32") (s2l " ") (s2l "g") [mkFdim [] (Some (s2l "x", [], [])) (s2l "2") [] []] (s2l " "))
         (s2l "MAPS") [] (s2l " ")
         [FBase (s2l "Float64") (s2l " ") (s2l "x") [mkFdim (s2l " ") (Some (s2l "x", s2l " ", s2l " ")) (s2l "2") (s2l " ") []] (s2l " ")]
         (s2l " ") (s2l "g") [];
   FCont true (s2l "sEqUeNcE") [] [] [FBase (s2l "String") (s2l " ") (s2l "s") [] []] [] (s2l "q") []].
Example C07_ex_any_layout :
  forallb wf_ftree ex_foreign_kids = true /\
  l2s (fdataset_text (s2l "dataset") (s2l " ") (s2l " ") ex_foreign_kids (s2l " ") (s2l "my name") [] []) =
    ("dataset { url  u;  INT A[3] [ 007 ];" ++ String DDS.nl
     "GRID { ARRAY: Float32 g[x=2]; MAPS: Float64 x[ x = 2 ]; } g;sEqUeNcE{String s;}q;} my name;")%string /\
  omapl fdecl ex_foreign_kids =
    Some [TBase String_ (s2l "u") [] []; TBase Int32 (s2l "A") [] [3; 7];
          TGrid (s2l "g") (TBase Float32 (s2l "g") [s2l "x"] [2]) [TBase Float64 (s2l "x") [s2l "x"] [2]];
          TSeq (s2l "q") [TBase String_ (s2l "s") [] []]].
Proof. repeat split; vm_compute; reflexivity. Qed.

(* non-vacuity: a dataset with every kind, quoted names, named / self-named / anonymous dimensions meets the hypotheses *)
Definition ex_kids : list dtree :=
  [TBase Int32 (s2l "x/y") [] [3];
   TBase Float32 (s2l "z%20z") [s2l "d/1"; s2l "e e"] [2; 3];
   TSeq (s2l "s") [TBase Int16 (s2l "a") [] [5]; TStruct (s2l "st") [TBase String_ (s2l "u") [] [5]]];
   TStruct (s2l "t") [TBase UInt16 (s2l "k") [] [2; 2; 2]];
   TGrid (s2l "g") (TBase Float64 (s2l "g") [s2l "x"] [2]) [TBase Float64 (s2l "x") [s2l "x"] [2]]].
Example C07_ex : wf_nameb (s2l "a%20b") = true /\ forallb wfb ex_kids = true /\ forallb (flatb 0) ex_kids = true /\
  parse_dataset (print_dataset (s2l "a%20b") ex_kids) = Some (s2l "a%20b", map (declared 0) ex_kids).
Proof. repeat split; vm_compute; reflexivity. Qed.

(* a DDS in the style of other servers: anonymous dimensions, Url, mixed-case keywords, free layout *)
Example C07_ex_foreign :
  parse_dataset (s2l "dataset { url  u;  INT A[3] [ 007 ];
 GRID { ARRAY: Float32 g[x=2]; MAPS: Float64 x [ x = 2 ]; } g; sEqUeNcE{String s;}q;} my name;") =
  Some (s2l "my%20name",
        [TBase String_ (s2l "u") [] []; TBase Int32 (s2l "A") [] [3; 7];
         TGrid (s2l "g") (TBase Float32 (s2l "g") [s2l "x"] [2]) [TBase Float64 (s2l "x%20") [s2l "x"] [2]];
         TSeq (s2l "q") [TBase String_ (s2l "s") [] []]]).
Proof. vm_compute. reflexivity. Qed.
