(* C12 - The dataset tree stays consistent under any history of edits and copies; quoting laws.
   Statements only; proofs in proofs/QuoteProofs.v and proofs/TreeProofs.v. *)
From PydapV Require Import Base Quote QuoteProofs.

(* Quoting is idempotent: for every byte string (names are UTF-8 bytes), including 'dap4...' names. *)
Theorem C12_quote_idempotent : forall s, quote (quote s) = quote s.
Proof. exact quote_idempotent. Qed.
Print Assumptions C12_quote_idempotent.

(* Quoting is reversible for names free of literal percent-escapes ('%' followed by two hex digits). *)
Theorem C12_unquote_quote : forall s, nleb s = true -> unquote (quote s) = s.
Proof. exact unquote_quote. Qed.
Print Assumptions C12_unquote_quote.

(* A quoted name not starting with the literal 'dap4' contains only letters, digits and the characters  _ - ~ % ! * ' double-quote / . *)
Theorem C12_quote_legal : forall s, prefixb (s2l "dap4") s = false -> forallb legal (quote s) = true.
Proof. exact quote_legal. Qed.
Print Assumptions C12_quote_legal.

Example C12_ex_quote :
  let s := s2l "White sp.ace[1]&%" in
  nleb s = true /\ prefixb (s2l "dap4") s = false /\ quote s = s2l "White%20sp%2Eace%5B1%5D%26%" /\
  unquote (quote s) = s.
Proof. cbn zeta. repeat split; reflexivity. Qed.

(* ------------------------------------------------------------------ the tree *)
From PydapV Require Import Tree TreeProofs.

(* Inv n  =  wfb n = true /\ ids_okb n = true :
   wfb    : in every container (recursively, hidden children included) the dictionary keys are
            pairwise distinct, the visible keys are pairwise distinct and all present;
   ids_okb: every visible child's id is its parent's id followed by its own name (its name alone
            directly below the dataset), recursively.
   For EVERY history of operations (no length bound) over {set fresh variable, insert a copy,
   delete, copy, select-by-tuple, set attribute, assign data, move a whole object into another tree} on any number of handles, starting
   from handles that satisfy the invariant, every handle satisfies it afterwards. *)
Theorem C12_tree_invariant : forall ops st, Forall Inv st -> Forall Inv (run st ops).
Proof. exact run_inv. Qed.
Print Assumptions C12_tree_invariant.

(* Below a dataset, the id of every variable reached through listed (visible) children is the chain
   of quoted names leading to it, and looking that id up from the dataset returns that variable. *)
Theorem C12_id_lookup : forall ds path v,
  Inv ds -> is_ds ds = true -> path <> [] -> vpath path ds = Some v ->
  nid v = path /\ lookup (nid v) ds = Some v.
Proof. exact id_is_path_and_lookup. Qed.
Print Assumptions C12_id_lookup.

(* Separation: an operation changes at most the handle it edits (copy / select only add a handle). *)
Theorem C12_separation : forall st o j r,
  nth_error st j = Some r -> ~ In j (op_targets o) -> nth_error (step st o) j = Some r.
Proof. exact step_separation. Qed.
Print Assumptions C12_separation.

(* ... while a copy refers to the very same data tokens as its source. *)
Theorem C12_copy_shares_data : forall n, tokens (copy n) = tokens n.
Proof. exact copy_shares_data. Qed.
Print Assumptions C12_copy_shares_data.

Example C12_ex_tree :
  let ds := NStruct KDataset (s2l "ds") [s2l "ds"] [] [] [] in
  let ops := [OSet 0 [] (FStruct KStructure (s2l "s x")); OSet 0 [s2l "s x"] (FBase (s2l "v[1]") 7%N);
              OCopy 0 []; OSelect 1 [s2l "s x"] [s2l "v[1]"]; ODel 1 [] (s2l "s%20x")] in
  Forall Inv [ds] /\
  List.length (run [ds] ops) = 3%nat /\
  (exists v, vpath [s2l "s%20x"; s2l "v%5B1%5D"] (nth 0 (run [ds] ops) ds) = Some v /\
             nid v = [s2l "s%20x"; s2l "v%5B1%5D"]) /\
  nkids (nth 1 (run [ds] ops) ds) = [].
Proof.
  cbn zeta. split; [repeat constructor|]. split; [reflexivity|]. split; [|reflexivity].
  eexists. split; reflexivity.
Qed.
