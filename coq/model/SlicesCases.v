(* Checkers used by the C03/C02 correspondence: compare model output with the output the
   implementation produced for the same input (the harness writes the cases). *)
From PydapV Require Export Base Slices.
Open Scope Z_scope.

Definition oZ_eqb (a b : option Z) : bool :=
  match a, b with None, None => true | Some x, Some y => x =? y | _, _ => false end.
Definition slice_eqb (a b : slice) : bool :=
  oZ_eqb (start a) (start b) && oZ_eqb (stop a) (stop b) && oZ_eqb (step a) (step b).
Definition item_eqb (a b : item) : bool :=
  match a, b with
  | IInt x, IInt y => x =? y
  | ISlice x, ISlice y => slice_eqb x y
  | IEllipsis, IEllipsis => true
  | _, _ => false
  end.
Fixpoint list_eqb {A} (f : A -> A -> bool) (a b : list A) : bool :=
  match a, b with
  | [], [] => true
  | x :: a', y :: b' => f x y && list_eqb f a' b'
  | _, _ => false
  end.
Definition opt_eqb {A} (f : A -> A -> bool) (a b : option A) : bool :=
  match a, b with None, None => true | Some x, Some y => f x y | _, _ => false end.

Definition items_eqb := opt_eqb (list_eqb item_eqb).

(* (slice tuple, shape, implementation result) *)
Definition chk_fix (c : list item * list Z * option (list item)) : bool :=
  let '(sl, shape, r) := c in items_eqb (fix_slice sl shape) r.
Definition chk_combine (c : list item * list item * option (list item)) : bool :=
  let '(a, b, r) := c in items_eqb (combine_slices a b) r.
Definition chk_hyperslab (c : list item * option string) : bool :=
  let '(sl, r) := c in opt_eqb String.eqb (hyperslab sl) r.
Definition chk_parse (c : string * option (list item)) : bool :=
  let '(h, r) := c in items_eqb (parse_hyperslab h) r.
(* SPEC validation against numpy: (N, slice, numpy's list(range(N))[slice]) *)
Definition chk_np (c : Z * slice * list Z) : bool :=
  let '(N, s, r) := c in list_eqb Z.eqb (np_indices N s) r.
(* (shape, index tuple, per-axis index lists selected by numpy) *)
Definition chk_np_select (c : list Z * list item * option (list (list Z))) : bool :=
  let '(shape, sl, r) := c in opt_eqb (list_eqb (list_eqb Z.eqb)) (np_select shape sl) r.
