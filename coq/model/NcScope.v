(* L3: dimension names in the NetCDF handler (pydap.handlers.netcdf.group_fqn).  A variable in a group lists short dimension
   names; the handler turns each into a fully qualified name.  NetCDF's rule: a name refers to the declaration in the nearest
   enclosing group.  [resolve] is the handler's walk (scope.parent until the name is declared); [last_match] is what the handler
   did before the repair (the most recently registered dimension of that short name, whatever group it belongs to). *)
From PydapV Require Export Base Quote DMR.
Open Scope nat_scope.

(* a group: name, declared dimensions (short name, size), variables (name, short dimension names), sub-groups *)
Inductive grp := Grp (name : chars) (dims : list (chars * nat)) (vars : list (chars * list chars)) (subs : list grp).
Definition g_name (g : grp) := match g with Grp n _ _ _ => n end.
Definition g_dims (g : grp) := match g with Grp _ d _ _ => d end.
Definition g_vars (g : grp) := match g with Grp _ _ v _ => v end.
Definition g_subs (g : grp) := match g with Grp _ _ _ s => s end.

(* the path text of a group given the names from the root (root itself: "/") *)
Definition path_text (p : list chars) : chars := flat_map (fun n => slash :: n) p.
Definition fq (p : list chars) (d : chars) : chars := path_text p ++ slash :: d.

(* scope chain of a group: (path, declared dims) from the group itself up to the root *)
Definition scope := list (list chars * list (chars * nat)).

(* the handler's walk: the first scope that declares the name; the root if none does *)
Fixpoint resolve (sc : scope) (d : chars) : list chars :=
  match sc with
  | [] => []
  | [(p, _)] => p
  | (p, dims) :: rest => match aget d dims with Some _ => p | None => resolve rest d end
  end.
Fixpoint resolve_size (sc : scope) (d : chars) : option nat :=
  match sc with
  | [] => None
  | (p, dims) :: rest => match aget d dims with Some n => Some n | None => resolve_size rest d end
  end.

(* every variable of the tree with the fully qualified names the handler gives its dimensions, in traversal order *)
Fixpoint vars_of (p : list chars) (sc : scope) (g : grp) : list (chars * list chars) :=
  match g with
  | Grp n dims vars subs =>
      let p' := match sc with [] => [] | _ => p ++ [n] end in      (* the root group has the empty path *)
      let sc' := (p', dims) :: sc in
      map (fun v => (fq p' (fst v), map (fun d => fq (resolve sc' d) d) (snd v))) vars ++
      flat_map (vars_of p' sc') subs
  end.

(* all declarations with their fully qualified names *)
Fixpoint decls_of (p : list chars) (root : bool) (g : grp) : list (chars * nat) :=
  match g with
  | Grp n dims _ subs =>
      let p' := if root then [] else p ++ [n] in
      map (fun d => (fq p' (fst d), snd d)) dims ++ flat_map (decls_of p' false) subs
  end.

(* before the repair: registered names in traversal order (root, then each group depth-first), last match wins *)
Fixpoint registered (p : list chars) (root : bool) (g : grp) : list (chars * chars) :=
  match g with
  | Grp n dims _ subs =>
      let p' := if root then [] else p ++ [n] in
      map (fun d => (fq p' (fst d), fst d)) dims ++ flat_map (registered p' false) subs
  end.
Definition last_match (reg : list (chars * chars)) (d : chars) : option chars :=
  fold_left (fun acc kv => if ceq d (snd kv) then Some (fst kv) else acc) reg None.

(* the variables with, for every axis, the fully qualified dimension name the handler writes AND the extent NetCDF's scoping
   rule gives that axis (the size of the nearest enclosing declaration of the short name) *)
Fixpoint vars_sized (p : list chars) (sc : scope) (g : grp) : list (chars * list (chars * option nat)) :=
  match g with
  | Grp n dims vars subs =>
      let p' := match sc with [] => [] | _ => p ++ [n] end in
      let sc' := (p', dims) :: sc in
      map (fun v => (fq p' (fst v), map (fun d => (fq (resolve sc' d) d, resolve_size sc' d)) (snd v))) vars ++
      flat_map (vars_sized p' sc') subs
  end.

