(* L4c: pydap.handlers.dap.unpack_enclosed - reading, on its own, a variable that sits inside one or more sequences
   (ds["outer"]["inner"], ds["outer"]["inner"]["col"]).  The response to such a request nests the variable in the records of the
   enclosing sequences: the declaration on the wire is  wrap k d  (k single-column sequences around d).

       def unpack_enclosed(stream, template, depth):
           marker = stream.read(4)
           while marker == START_OF_SEQUENCE:
               if depth > 1:                          rec = IterData(list(unpack_enclosed(stream, template, depth - 1)), template)
               elif isinstance(template, SequenceType): rec = IterData(list(unpack_sequence(stream, template)), template)
               else:                                  rec = unpack_children(stream, template) ...
               yield rec
               marker = stream.read(4)

   At depth 1 the item of a record is decoded by the decoder of the template itself (Xdr.unpack); one item per record. *)
From PydapV Require Export Base Words Xdr.

Fixpoint wrap (k : nat) (d : decl) : decl :=
  match k with O => d | S k' => DSeq [wrap k' d] end.

(* the marker loop of one level; [item] decodes what one record holds.  Fuel: the number of bytes left + 1 (every record
   consumes its 4-byte marker); a short read is a failure (StreamReader.read raises) *)
Fixpoint enc_loop (item : bytes -> option (val * bytes)) (n : nat) (s : bytes) : option (list (list val) * bytes) :=
  match n with
  | O => None
  | S n' =>
      do m <- take 4 s;
      if beqb (fst m) START then
        do a <- item (snd m);
        do rest <- enc_loop item n' (snd a);
        Some ([fst a] :: fst rest, snd rest)
      else Some ([], snd m)
  end.

Fixpoint unpack_enclosed (k : nat) (d : decl) (s : bytes) : option (val * bytes) :=
  match k with
  | O => unpack d s
  | S k' => do p <- enc_loop (unpack_enclosed k' d) (S (List.length s)) s; Some (VSeq (fst p), snd p)
  end.

(* what the client hands out: one item per record of the outermost sequence *)
Definition items (v : val) : option (list val) :=
  match v with
  | VSeq rows => omap (fun r => match r with [x] => Some x | _ => None end) rows
  | _ => None
  end.
