From PydapV Require Export Base Slices IterData.
Open Scope Z_scope.
Fixpoint rows_eqb (a b : list row) : bool :=
  match a, b with
  | [], [] => true
  | x :: a', y :: b' => (fix e (p q : row) := match p, q with [], [] => true | u :: p', v :: q' => (u =? v) && e p' q' | _, _ => false end) x y && rows_eqb a' b'
  | _, _ => false
  end.
(* (header, source rows, operation chain, rows the implementation produced or None if it raised) *)
Definition chk_iter (c : list cname * list row * list op * option (list row)) : bool :=
  let '(hd, rows, ops, obs) := c in
  match option_map iter (apply_ops (fresh hd rows) ops), obs with
  | Some a, Some b => rows_eqb a b
  | None, None => true
  | _, _ => false
  end.
(* the SPEC by name on the same chain (validates spec_nf against the harness's reference) *)
Definition chk_spec (c : list cname * list row * list op * list row) : bool :=
  let '(hd, rows, ops, want) := c in rows_eqb (spec_nf hd rows ops) want.
(* C04: the constraint pipeline on integer tables equals the rows the harness's reference filter gives
   (and the implementation returned) *)
Definition chk_pipeline (c : list cname * list row * list op * list row) : bool :=
  let '(hd, rows, ops, want) := c in
  match option_map iter (apply_ops (fresh hd rows) ops) with Some a => rows_eqb a want | None => false end.
