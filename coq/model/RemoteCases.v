(* C02 correspondence: the query text BaseProxyDap2.__getitem__ sends. *)
From PydapV Require Export Base Slices.
Open Scope Z_scope.
(* (shape the client sees, stored slice of the proxy, index given by the user, QUERY_STRING observed) *)
Definition remote_query (shape : list Z) (stored idx : list item) : option string :=
  do f <- fix_slice idx shape; do c <- combine_slices stored f; do h <- hyperslab c; Some ("x" ++ h)%string.
Definition chk_query (c : list Z * list item * list item * string) : bool :=
  let '(shape, stored, idx, q) := c in
  match remote_query shape stored idx with Some t => String.eqb t q | None => false end.
