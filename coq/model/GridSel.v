(* L2b: the index branch of pydap.model.GridType.__getitem__ (output_grid on): which index item every child of a grid is
   sliced with.

       key = fix_slice(key, self.shape)                      # one item per axis of the array
       dims = [_quote(str(dim)) for dim in (self.array.dims or ())]
       if len(dims) != len(key) or len(set(dims)) != len(dims): dims = []
       for i, var in enumerate(out.children()):
           if i == 0:               slice_ = key             # the array
           elif var.name in dims:   slice_ = key[dims.index(var.name)]
           elif i <= len(key):      slice_ = key[i - 1]
           else:                    break
           var.data = self[var.name].data[slice_]

   The children after the array are the maps the grid still lists (a sub-selection g["a", "m1"] may have left some out, or
   re-ordered them); their names are stored quoted.  The result of the model: for every listed map, the index item it is
   sliced with ([None] = left as it was: the loop had stopped). *)
From PydapV Require Export Base Slices Quote.
Open Scope Z_scope.

Fixpoint chars_eqb (a b : chars) : bool :=
  match a, b with
  | [], [] => true
  | x :: a', y :: b' => ascii_eqb x y && chars_eqb a' b'
  | _, _ => false
  end.

Fixpoint index_of (x : chars) (l : list chars) : option nat :=
  match l with
  | [] => None
  | y :: r => if chars_eqb x y then Some O else option_map S (index_of x r)
  end.

Fixpoint nodupb (l : list chars) : bool :=
  match l with
  | [] => true
  | x :: r => negb (existsb (chars_eqb x) r) && nodupb r
  end.

(* the dimension names the loop works with: quoted, and only when they line up with the key and do not repeat *)
Definition usable_dims (dims : list chars) (nkey : nat) : list chars :=
  let q := map quote dims in
  if Nat.eqb (List.length q) nkey && nodupb q then q else [].

(* the loop over the maps; [i] = position of the child among the children (the array is child 0) *)
Fixpoint pair_maps (dims : list chars) (key : list item) (i : nat) (maps : list chars) : list (chars * option item) :=
  match maps with
  | [] => []
  | m :: r =>
      match index_of m dims with
      | Some j => (m, nth_error key j) :: pair_maps dims key (S i) r
      | None => if Nat.leb i (List.length key)
                then (m, nth_error key (i - 1)) :: pair_maps dims key (S i) r
                else map (fun m' => (m', None)) maps          (* break *)
      end
  end.

(* shape and (raw) dimension names of the array, the user's index, the names of the listed maps
   -> normalised key (what the array is sliced with) and the item of every map *)
Definition grid_getitem (shape : list Z) (dims : list chars) (idx : list item) (maps : list chars)
  : option (list item * list (chars * option item)) :=
  do key <- fix_slice idx shape;
  Some (key, pair_maps (usable_dims dims (List.length key)) key 1 maps).

(* what a map of extent N holds after being sliced with an item: source positions (numpy SPEC of Slices.v) *)
Definition map_positions (N : Z) (it : option item) : option (list Z) :=
  match it with
  | Some i => np_axis N i
  | None => Some (prog (Z.to_nat N) 0 1)
  end.
