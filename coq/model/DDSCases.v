(* Checkers evaluated by the C07 correspondence run (harness/c07.py). *)
From PydapV Require Export Base Quote DDS.
Open Scope nat_scope.

Definition dty_eqb (a b : dty) : bool :=
  match a, b with
  | Byte, Byte | Int16, Int16 | UInt16, UInt16 | Int32, Int32 | UInt32, UInt32
  | Float32, Float32 | Float64, Float64 | String_, String_ => true
  | _, _ => false
  end.
Definition chars_eqb (a b : chars) : bool := String.eqb (l2s a) (l2s b).
Fixpoint list_eqb {A} (e : A -> A -> bool) (a b : list A) : bool :=
  match a, b with
  | [], [] => true
  | x :: a', y :: b' => e x y && list_eqb e a' b'
  | _, _ => false
  end.

Fixpoint dtree_eqb (a b : dtree) : bool :=
  let kids_eqb := (fix go (l1 l2 : list dtree) : bool :=
                     match l1, l2 with
                     | [], [] => true
                     | x :: r, y :: s => dtree_eqb x y && go r s
                     | _, _ => false
                     end) in
  match a, b with
  | TBase t1 n1 d1 s1, TBase t2 n2 d2 s2 =>
      dty_eqb t1 t2 && chars_eqb n1 n2 && list_eqb chars_eqb d1 d2 && list_eqb Nat.eqb s1 s2
  | TStruct n1 k1, TStruct n2 k2 => chars_eqb n1 n2 && kids_eqb k1 k2
  | TSeq n1 k1, TSeq n2 k2 => chars_eqb n1 n2 && kids_eqb k1 k2
  | TGrid n1 a1 m1, TGrid n2 a2 m2 => chars_eqb n1 n2 && dtree_eqb a1 a2 && kids_eqb m1 m2
  | _, _ => false
  end.

(* the printer: model text = text produced by pydap.responses.dds.dds *)
Definition chk_print (c : string * list dtree * string) : bool :=
  let '(name, kids, text) := c in String.eqb (l2s (print_dataset (s2l name) kids)) text.

(* the parser: model result = tree built by pydap.parsers.dds.dds_to_dataset (None = it raised) *)
Definition chk_parse (c : string * option (string * list dtree)) : bool :=
  let '(text, want) := c in
  match parse_dataset (s2l text), want with
  | None, None => true
  | Some (n, ks), Some (n', ks') => String.eqb (l2s n) n' && list_eqb dtree_eqb ks ks'
  | _, _ => false
  end.

(* success / failure only (texts whose observed tree is not comparable, e.g. duplicate sibling names) *)
Definition chk_parse_ok (c : string * bool) : bool :=
  let '(text, ok) := c in
  Bool.eqb (match parse_dataset (s2l text) with Some _ => true | None => false end) ok.
