(* L3: server-side function calls as text.  Client: ServerFunction.__call__ builds  name(arg,...)  from ids, nested results and
   encoded constants (pydap.client).  Server: FUNCTION regexp, tokenize at top-level commas, recursive parse (wsgi/ssf.py:
   eval_function), detection of calls in a request (ServerSideFunctions.__call__). *)
From PydapV Require Export Base DDS.
Open Scope nat_scope.

Inductive cexp := CLeaf (tok : chars) | CCall (name : chars) (args : list cexp).

(* ---- client side: ServerFunction.__call__ / ServerFunctionResult.id *)
Fixpoint cjoin1 (sep : ascii) (l : list chars) : chars :=
  match l with [] => [] | [x] => x | x :: r => x ++ sep :: cjoin1 sep r end.
Fixpoint print_cexp (e : cexp) : chars :=
  match e with
  | CLeaf t => t
  | CCall n args => n ++ "("%char :: cjoin1 ","%char (map print_cexp args) ++ [")"%char]
  end.

(* ---- server side *)
(* the FUNCTION regexp with re.match: a name (letter or underscore, then word characters and dots), an opening parenthesis,
   then everything up to the LAST closing parenthesis *)
Definition is_name_start (c : ascii) : bool := is_word c && negb (is_digit c).
Definition is_name_char (c : ascii) : bool := is_word c || Ascii.eqb c "."%char.
(* position of the last ")" : returns the text before it *)
Fixpoint before_last_close (s : chars) : option chars :=
  match s with
  | [] => None
  | c :: r => match before_last_close r with
              | Some x => Some (c :: x)
              | None => if Ascii.eqb c ")"%char then Some [] else None
              end
  end.
Definition function_match (s : chars) : option (chars * chars) :=
  match s with
  | c :: r =>
      if is_name_start c then
        let '(nm, rest) := span is_name_char r in
        match rest with
        | p :: body => if Ascii.eqb p "("%char then option_map (fun a => (c :: nm, a)) (before_last_close body) else None
        | [] => None
        end
      else None
  | [] => None
  end.

(* tokenize(): split at commas outside parentheses *)
Fixpoint tok_go (depth : Z) (cur : chars) (s : chars) : list chars :=
  match s with
  | [] => [rev cur]
  | c :: r =>
      if Ascii.eqb c "("%char then tok_go (depth + 1) (c :: cur) r
      else if Ascii.eqb c ")"%char then tok_go (depth - 1) (c :: cur) r
      else if Ascii.eqb c ","%char && (depth =? 0)%Z then rev cur :: tok_go depth [] r
      else tok_go depth (c :: cur) r
  end.
Definition tokenize (s : chars) : list chars := tok_go 0 [] s.

(* parse(): a token that looks like a call is evaluated recursively, anything else is a variable id or a constant *)
Fixpoint parse_cexp (fuel : nat) (s : chars) : option cexp :=
  match fuel with
  | O => None
  | S f =>
      match function_match s with
      | Some (n, a) => option_map (CCall n) (omap (parse_cexp f) (tokenize a))
      | None => Some (CLeaf s)
      end
  end.

(* ---- ServerSideFunctions.__call__: is there a function call in the request?
   projection items come from parse_projection (same top-level-comma tokenizer; an item containing a parenthesis stays a string),
   selection clauses are tested with FUNCTION.match *)
Definition has_paren (t : chars) : bool := existsb (Ascii.eqb "("%char) t.
Definition called (projection : chars) (selection : list chars) : bool :=
  existsb has_paren (match projection with [] => [] | _ => tokenize projection end) ||
  existsb (fun s => match function_match s with Some _ => true | None => false end) selection.

(* ---- mean(): the axis is removed from shape, dims and (for a Grid) maps:
   tuple(dim for i, dim in enumerate(var.dims) if i != axis) *)
Definition drop_index {A} (axis : nat) (l : list A) : list A :=
  map snd (filter (fun p => negb (Nat.eqb (fst p) axis)) (combine (seq 0 (List.length l)) l)).

(* ---- bounds(): successive filters on the X, Y, Z axis columns, in the order of the columns; min == max means equality *)
Definition in_bounds (lo hi x : Z) : bool := if (lo =? hi)%Z then (x =? lo)%Z else ((lo <=? x)%Z && (x <=? hi)%Z).
(* a row is a list of cells; axes: for each axis column its index and bounds, in column order *)
Definition bounds_step (rows : list (list Z)) (ax : nat * Z * Z) : list (list Z) :=
  let '(col, lo, hi) := ax in filter (fun r => in_bounds lo hi (nth col r 0%Z)) rows.
Definition bounds_filter (axes : list (nat * Z * Z)) (rows : list (list Z)) : list (list Z) := fold_left bounds_step axes rows.
