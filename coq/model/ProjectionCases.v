From PydapV Require Export Base Slices IterData Projection.
Open Scope Z_scope.
Fixpoint zs_eqb (a b : list Z) : bool :=
  match a, b with [], [] => true | x :: a', y :: b' => (x =? y) && zs_eqb a' b' | _, _ => false end.
(* (variables: name, bounded?, extent), mentions, what the implementation answered: None (error document) or, for every
   variable of the response, the source positions it holds *)
Definition chk_projection (c : list (cname * bool * nat) * list mention * option (list (cname * list Z))) : bool :=
  let '(vars, items, obs) := c in
  let st0 := map (fun v => (fst (fst v), map Z.of_nat (seq 0 (snd v)))) vars in
  let bounded := fun v => match find (fun x => String.eqb v (fst (fst x))) vars with Some x => snd (fst x) | None => false end in
  match run bounded [] st0 items, obs with
  | None, None => true
  | Some fin, Some got => forallb (fun g => match plookup (fst g) fin with Some l => zs_eqb l (snd g) | None => false end) got
  | _, _ => false
  end.
