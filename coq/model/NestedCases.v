(* Checkers for the nested part of the C17 correspondence. *)
From PydapV Require Export Base Slices IterData Nested.
Open Scope Z_scope.

Fixpoint tree_eqb (a b : tree) {struct a} : bool :=
  match a, b with
  | TL x, TL y => x =? y
  | TN xs, TN ys =>
      (fix go (l1 l2 : list tree) : bool :=
         match l1, l2 with
         | [], [] => true
         | x :: r1, y :: r2 => tree_eqb x y && go r1 r2
         | _, _ => false
         end) xs ys
  | _, _ => false
  end.
Fixpoint trees_eqb (a b : list tree) : bool :=
  match a, b with [], [] => true | x :: r, y :: s => tree_eqb x y && trees_eqb r s | _, _ => false end.

Definition spos_of (t : ntable) : nat := match index_of (sq t) (ohd t) with Some i => i | None => O end.

(* (table, source rows, chain, what iterating the implementation's stream gave - None if a step or the iteration raised) *)
Definition chk_niter (c : ntable * list tree * list nop * option (list tree)) : bool :=
  let '(t, rows, ops, obs) := c in
  match napply_ops t (nfresh t rows) ops, obs with
  | Some d, Some o => trees_eqb (niter (spos_of t) d) o
  | None, None => true
  | _, _ => false
  end.
(* SPEC validation: the Gallina normal form vs the harness's by-name reference *)
Definition chk_nspec (c : ntable * list tree * list nop * list tree) : bool :=
  let '(t, rows, ops, want) := c in trees_eqb (nspec t (spos_of t) rows ops) want.
