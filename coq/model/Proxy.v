(* L6: the client's lazy sequence proxy (pydap.handlers.dap.SequenceProxy) and the cache-key function
   of pydap.client.patch_session_for_shared_dap_cache.
   A request is kept structured: (columns requested, record range, selection clauses, session). *)
From PydapV Require Export Base Slices IterData.
Open Scope Z_scope.

Record proxy := mkProxy {
  pall : list cname;            (* columns of the sequence as the dataset declares them *)
  pcols : list cname;           (* visible columns of this proxy's own template *)
  psub : bool;                  (* sub_children: only some columns are requested *)
  psel : list (cname * relop * operand);   (* selection, in the order it was added *)
  pslice : slice;               (* the (single) record slice *)
  psingle : bool;               (* a child column was selected *)
  psession : N                  (* identity of the session object *)
}.

Inductive pop :=
| PCols (ks : list cname)             (* seq[[k1, k2]] *)
| PChild (k : cname)                  (* seq[k] *)
| PCond (c : cname) (o : relop) (r : operand)     (* seq[seq.c OP r] *)
| PSlice (s : slice)
| PInt (i : Z).

(* SequenceProxy.__getitem__ : copy (all fields forwarded, template copied), then modify the copy *)
Definition papply (p : proxy) (o : pop) : option proxy :=
  match o with
  | PCols ks =>
      if psingle p then None else
      if forallb (fun k => existsb (String.eqb k) (pcols p)) ks
      then Some (mkProxy (pall p) ks true (psel p) (pslice p) false (psession p)) else None
  | PChild k =>
      if psingle p then None else
      if existsb (String.eqb k) (pcols p)
      then Some (mkProxy (pall p) [k] (psub p) (psel p) (pslice p) true (psession p)) else None
  | PCond c o r =>
      Some (mkProxy (pall p) (pcols p) (psub p) (psel p ++ [(c, o, r)]) (pslice p) (psingle p) (psession p))
  | PSlice s =>
      Some (mkProxy (pall p) (pcols p) (psub p) (psel p) (combine1 (pslice p) s) (psingle p) (psession p))
  | PInt i =>
      Some (mkProxy (pall p) (pcols p) (psub p) (psel p)
                    (combine1 (pslice p) (mkSlice (Some i) (Some (i + 1)) None)) (psingle p) (psession p))
  end.

Fixpoint papply_ops (p : proxy) (ops : list pop) : option proxy :=
  match ops with
  | [] => Some p
  | o :: r => do p' <- papply p o; papply_ops p' r
  end.

(* the request a read of the proxy sends: what the server is asked for, and through which session *)
Record request := mkReq { rcols : list cname; rrange : slice; rclauses : list (cname * relop * operand); rvia : N }.
Definition request_of (p : proxy) : request := mkReq (pcols p) (pslice p) (psel p) (psession p).

(* the server's answer to a request on a table (C04's reference filter) *)
Definition serve (hd : list cname) (rows : list row) (q : request) : list row :=
  islice (rrange q)
         (map (fun r => map (lookup hd r) (rcols q))
              (filter (fun r => forallb (fun c => filt_by_name hd (fst (fst c)) (snd (fst c)) (snd c) r) (rclauses q)) rows)).

Definition fresh_proxy (hd : list cname) (session : N) : proxy :=
  mkProxy hd hd false [] full_slice false session.

(* the same operations on a lazy stream (C17) *)
Definition to_op (o : pop) : op :=
  match o with
  | PCols ks => OCols ks | PChild k => OCol k | PCond c o r => OFilter c o r | PSlice s => OSlice s | PInt i => OInt i
  end.

(* ------------------------------------------------------------------ cache keys *)
(* a request URL, parsed: scheme+host, path components, the dap4.ce parameter, the other parameters
   (requests-cache sorts them, so they are kept as a sorted list by the harness) *)
Record url := mkUrl { uhost : string; upath : list string; uce : option string; uother : list string }.
Inductive ckey := KUrl (u : url) | KShared (host : string) (base : list string) (ce : string).

Fixpoint is_prefix (a b : list string) : bool :=
  match a, b with
  | [], _ => true
  | x :: a', y :: b' => String.eqb x y && is_prefix a' b'
  | _ :: _, [] => false
  end.
(* path.startswith(base_path + "/"): base is a proper component-wise prefix *)
Definition under (base path : list string) : bool :=
  is_prefix base path && (List.length base <? List.length path)%nat.

Definition cache_key (shared : list string) (base : option (list string)) (u : url) : ckey :=
  match uce u, base with
  | Some ce, Some b =>
      if existsb (String.eqb ce) shared && under b (upath u) then KShared (uhost u) b ce else KUrl u
  | _, _ => KUrl u
  end.
