(* Checkers evaluated by the C06 correspondence run (harness/c06.py). *)
From PydapV Require Export Base DDS DAS AsciiResp.
Open Scope nat_scope.

(* ASCII body produced by pydap = layout model applied to (DDS text of the same request, value tokens of the data response) *)
Definition chk_ascii (c : string * list avar * string) : bool :=
  let '(dds_text, kids, body) := c in String.eqb (l2s (ascii_body (s2l dds_text) kids)) body.
Definition A1 (id : string) (shape : list nat) (toks : list string) : avar := VArr (s2l id) shape (map s2l toks).
Definition AS (ids : list string) (rows : list (list string)) : avar := VSeq (map s2l ids) (map (map s2l) rows).
