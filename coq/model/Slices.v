(* L1: slice algebra.  SPEC = numpy/CPython basic-index semantics;
   MODEL = pydap.lib.fix_slice / combine_slices / hyperslab and
   pydap.parsers.parse_hyperslab, statement by statement.  No proofs here. *)
From PydapV Require Export Base.
Open Scope Z_scope.

Record slice := mkSlice { start : option Z; stop : option Z; step : option Z }.
Inductive item := IInt (i : Z) | ISlice (s : slice) | IEllipsis.

Definition full_slice := mkSlice None None None.
Definition full := ISlice full_slice.

(* ------------------------------------------------------------------ SPEC *)
(* Arithmetic progression: n elements a, a+k, a+2k, ... *)
Fixpoint prog (n : nat) (a k : Z) : list Z :=
  match n with O => [] | S n' => a :: prog n' (a + k) k end.

(* ceil((b-a)/k) clipped at 0, k >= 1 *)
Definition cnt (a b k : Z) : Z := if b <=? a then 0 else (b - a + k - 1) / k.

(* CPython PySlice_AdjustIndices for step > 0, length N *)
Definition clamp_start (N : Z) (s : option Z) : Z :=
  match s with
  | None => 0
  | Some v => if v <? 0 then (if v + N <? 0 then 0 else v + N)
              else (if v >=? N then N else v)
  end.
Definition clamp_stop (N : Z) (s : option Z) : Z :=
  match s with
  | None => N
  | Some v => if v <? 0 then (if v + N <? 0 then 0 else v + N)
              else (if v >=? N then N else v)
  end.
Definition step_of (s : option Z) : Z := match s with None => 1 | Some k => k end.

(* indices numpy selects from an axis of length N with slice s (step None or >= 1) *)
Definition np_indices (N : Z) (s : slice) : list Z :=
  let a := clamp_start N (start s) in
  let b := clamp_stop N (stop s) in
  let k := step_of (step s) in
  prog (Z.to_nat (cnt a b k)) a k.

(* integer index: the (single) element selected, for -N <= i < N *)
Definition np_int (N i : Z) : Z := if i <? 0 then i + N else i.

(* per-axis selection for an item; pydap keeps integer axes as length-1 axes *)
Definition np_axis (N : Z) (it : item) : option (list Z) :=
  match it with
  | IInt i => if (-N <=? i) && (i <? N) then Some [np_int N i] else None
  | ISlice s => Some (np_indices N s)
  | IEllipsis => None
  end.

(* numpy's expansion of an index tuple to rank r: one Ellipsis is replaced by
   as many full slices as needed, a short tuple is right-padded. *)
Definition is_ellipsis (it : item) : bool := match it with IEllipsis => true | _ => false end.
Fixpoint np_expand (sl : list item) (r : nat) : list item :=
  match sl with
  | [] => repeat full r
  | IEllipsis :: rest => repeat full (r - List.length rest) ++ rest
  | it :: rest => it :: np_expand rest (r - 1)
  end.

(* per-axis index lists selected by an index tuple on an array of given shape *)
Fixpoint np_select_axes (shape : list Z) (sl : list item) : option (list (list Z)) :=
  match shape, sl with
  | [], [] => Some []
  | N :: shape', it :: sl' =>
      do a <- np_axis N it; do r <- np_select_axes shape' sl'; Some (a :: r)
  | _, _ => None
  end.
Definition np_select (shape : list Z) (sl : list item) : option (list (list Z)) :=
  np_select_axes shape (np_expand sl (List.length shape)).

(* ----------------------------------------------------------------- MODEL *)
(* Python `x or d` on an int-or-None *)
Definition or_default (x : option Z) (d : Z) : Z :=
  match x with None => d | Some v => if v =? 0 then d else v end.

(* lib.py fix_slice, first loop: expand Ellipsis *)
Fixpoint fs_expand (sl : list item) (expand : Z) (out : list item) : list item * Z :=
  match sl with
  | [] => (out, expand)
  | IEllipsis :: rest => fs_expand rest 0 (out ++ repeat full (Z.to_nat (expand + 1)))
  | s :: rest => fs_expand rest expand (out ++ [s])
  end.

(* lib.py fix_slice, body of the second loop *)
Definition fix1 (s : item) (N : Z) : option item :=
  match s with
  | IInt v => Some (IInt (if v <? 0 then v + N else v))
  | ISlice s =>
      let k := or_default (step s) 1 in
      let i := match start s with None => 0 | Some i0 => if i0 <? 0 then i0 + N else i0 end in
      let j := match stop s with
               | None => N + i
               | Some j0 => if j0 >=? N + i then N + i else if j0 <? 0 then j0 + N else j0
               end in
      Some (ISlice (mkSlice (Some i) (Some j) (Some k)))
  | IEllipsis => None   (* AttributeError in Python; unreachable after fs_expand *)
  end.

Fixpoint fix_zip (sl : list item) (shape : list Z) : option (list item) :=
  match sl, shape with
  | s :: sl', N :: shape' => do x <- fix1 s N; do r <- fix_zip sl' shape'; Some (x :: r)
  | _, _ => Some []
  end.

Definition fix_slice (sl : list item) (shape : list Z) : option (list item) :=
  let expand := Z.of_nat (List.length shape) - Z.of_nat (List.length sl) in
  let '(out, expand') := fs_expand sl expand [] in
  fix_zip (out ++ repeat full (Z.to_nat expand')) shape.

(* lib.py combine_slices (after the stride fix) *)
Definition as_slice (it : item) : option slice :=
  match it with
  | IInt v => Some (mkSlice (Some v) (Some (v + 1)) None)
  | ISlice s => Some s
  | IEllipsis => None
  end.

Definition combine1 (e1 e2 : slice) : slice :=
  let start1 := or_default (start e1) 0 in
  let step1 := or_default (step e1) 1 in
  let st := start1 + or_default (start e2) 0 * step1 in
  let k := step1 * or_default (step e2) 1 in
  let sp := match stop e1, stop e2 with
            | None, None => None
            | None, Some b2 => Some (start1 + b2 * step1)
            | Some b1, None => Some b1
            | Some b1, Some b2 => Some (Z.min b1 (start1 + b2 * step1))
            end in
  mkSlice (Some st) sp (Some k).

Definition combine_slices (s1 s2 : list item) : option (list item) :=
  omap (fun '(e1, e2) => do a <- as_slice e1; do b <- as_slice e2; Some (ISlice (combine1 a b)))
       (zip_longest full s1 s2).

(* lib.py hyperslab *)
Definition MAXSIZE : Z := 9223372036854775807.

Definition slice_eqb_full (it : item) : bool :=
  match it with
  | ISlice (mkSlice None None None) => true
  | _ => false
  end.

(* while slice_ and slice_[-1] == slice(None): slice_.pop(-1) *)
Fixpoint drop_trailing_full (sl : list item) : list item :=
  match sl with
  | [] => []
  | it :: rest =>
      match drop_trailing_full rest with
      | [] => if slice_eqb_full it then [] else [it]
      | r => it :: r
      end
  end.

Definition hyperslab1 (it : item) : option string :=
  match it with
  | ISlice s =>
      Some ("[" ++ print_dec (or_default (start s) 0) ++ ":" ++ print_dec (or_default (step s) 1)
            ++ ":" ++ print_dec (or_default (stop s) MAXSIZE - 1) ++ "]")%string
  | _ => None                       (* int / Ellipsis have no .start: AttributeError *)
  end.

Definition hyperslab (sl : list item) : option string :=
  do parts <- omap hyperslab1 (drop_trailing_full sl); Some (str_concat parts).

(* parsers/__init__.py parse_hyperslab *)
Definition parse_expr (expr : chars) : option item :=
  do tokens <- omap (fun t => parse_dec (l2s t)) (split_on [":"%char] expr);
  match tokens with
  | [a] => Some (ISlice (mkSlice (Some a) (Some (a + 1)) (Some 1)))
  | [a; b] => Some (ISlice (mkSlice (Some a) (Some (b + 1)) (Some 1)))
  | [a; k; b] => Some (ISlice (mkSlice (Some a) (Some (b + 1)) (Some k)))
  | _ => None
  end.

Definition nonempty (c : chars) : bool := match c with [] => false | _ => true end.

Definition parse_hyperslab (h : string) : option (list item) :=
  let exprs := filter nonempty (split_on ["]"%char; "["%char] (strip_ends (s2l h))) in
  omap parse_expr exprs.
