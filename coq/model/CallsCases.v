(* Checkers evaluated by the C19 correspondence run (harness/c19.py). *)
From PydapV Require Export Base DDS Calls.
Open Scope nat_scope.

Fixpoint cexp_eqb (a b : cexp) : bool :=
  match a, b with
  | CLeaf x, CLeaf y => String.eqb (l2s x) (l2s y)
  | CCall n1 a1, CCall n2 a2 =>
      String.eqb (l2s n1) (l2s n2) &&
      (fix go (l1 l2 : list cexp) : bool :=
         match l1, l2 with
         | [], [] => true
         | x :: r, y :: s => cexp_eqb x y && go r s
         | _, _ => false
         end) a1 a2
  | _, _ => false
  end.
Definition L (t : string) : cexp := CLeaf (s2l t).
Definition C (n : string) (args : list cexp) : cexp := CCall (s2l n) args.

(* the id the client proxy builds for a call tree *)
Definition chk_call_id (c : cexp * string) : bool := String.eqb (l2s (print_cexp (fst c))) (snd c).
(* the call tree the server evaluates for a call text (None: it is not read as a call / evaluation failed before the functions ran) *)
Definition chk_parse_call (c : string * option cexp) : bool :=
  let '(text, want) := c in
  match parse_cexp (S (String.length text)) (s2l text), want with
  | Some (CCall n a), Some w => cexp_eqb (CCall n a) w
  | Some (CLeaf _), None => true
  | None, None => true
  | _, _ => false
  end.
(* does the middleware intercept the request? *)
Definition chk_called (c : string * list string * bool) : bool :=
  let '(proj, sel, obs) := c in Bool.eqb (called (s2l proj) (map s2l sel)) obs.
(* bounds(): rows kept *)
Fixpoint zrows_eqb (a b : list (list Z)) : bool :=
  match a, b with
  | [], [] => true
  | x :: r, y :: s => (fix go (l1 l2 : list Z) : bool :=
                         match l1, l2 with [], [] => true | p :: q, u :: v => (p =? u)%Z && go q v | _, _ => false end) x y
                      && zrows_eqb r s
  | _, _ => false
  end.
Definition chk_bounds (c : list (nat * Z * Z) * list (list Z) * list (list Z)) : bool :=
  let '(axes, rows, kept) := c in zrows_eqb (bounds_filter axes rows) kept.
(* mean(): remaining dims *)
Definition chk_drop (c : nat * list string * list string) : bool :=
  let '(axis, dims, rest) := c in
  (fix go (l1 l2 : list string) : bool :=
     match l1, l2 with [], [] => true | p :: q, u :: v => String.eqb p u && go q v | _, _ => false end) (drop_index axis dims) rest.
