(* Checkers evaluated by the C11 correspondence run (harness/c11.py). *)
From PydapV Require Export Base Quote DMR.
Open Scope nat_scope.

Fixpoint lsteqb {X Y} (e : X -> Y -> bool) (a : list X) (b : list Y) : bool :=
  match a, b with
  | [], [] => true
  | x :: a', y :: b' => e x y && lsteqb e a' b'
  | _, _ => false
  end.
Definition opteqb {X Y} (e : X -> Y -> bool) (a : option X) (b : option Y) : bool :=
  match a, b with Some x, Some y => e x y | None, None => true | _, _ => false end.
Definition cseq (a : chars) (b : string) : bool := String.eqb (l2s a) b.

(* what the harness reads off the parsed dataset for one variable:
   name, DAP4 type, shape, dims, Maps, path, (attribute name, number of values) *)
Definition obs := (string * string * list nat * list string * list (option string) * option string * list (string * nat))%type.

Definition obs_eqb (v : varrec) (o : obs) : bool :=
  let '(name, tag, shape, dims, maps, path, attrs) := o in
  cseq (v_name v) name && cseq (v_tag v) tag && lsteqb Nat.eqb (v_shape v) shape && lsteqb cseq (v_dims v) dims &&
  lsteqb (opteqb cseq) (v_maps v) maps && opteqb cseq (v_path v) path &&
  lsteqb (fun a b => cseq (fst a) (fst b) && Nat.eqb (List.length (snd (snd a))) (snd b)) (v_attrs v) attrs.

Definition chk_dmr (c : xml * option (list obs)) : bool :=
  let '(doc, want) := c in opteqb (lsteqb obs_eqb) (parse_dmr doc) want.

(* xml literal helper: X "tag" [("k","v")] (Some "text") kids *)
Definition X (tag : string) (attrs : list (string * string)) (text : option string) (kids : list xml) : xml :=
  XNode (s2l tag) (map (fun kv => (s2l (fst kv), s2l (snd kv))) attrs) (option_map s2l text) kids.
