(* L5: lazy row streams (pydap.handlers.lib.IterData) over a flat table.
   A stream is (source rows, header = all keys of the template, visible keys, filters, maps, slices);
   iteration applies ALL filters to the source rows, then the maps in order, then the slices in
   order (IterData.__iter__).  Cells are integers; a column stream (after seq['col']) is kept as
   rows of one cell with [single = true].  Nested sequences are exercised by the check only. *)
From PydapV Require Export Base Slices.
Open Scope Z_scope.

Definition cname := string.
Definition row := list Z.

Inductive relop := REq | RNe | RLt | RLe | RGt | RGe.
(* build_filter: column positions are taken in the SOURCE rows (template._all_keys()) *)
Record filt := mkFilt { fcol : nat; fop : relop; frhs : Z + nat }.

Record stream := mkStream {
  src : list row; header : list cname;
  vis : list cname;                 (* visible keys of the (copied) template, in row order *)
  filters : list filt;
  maps : list (list nat);           (* each: the positions kept, in order *)
  slices : list slice;
  single : bool                     (* a child (one column) was selected *)
}.

Fixpoint index_of (k : cname) (l : list cname) : option nat :=
  match l with
  | [] => None
  | x :: r => if String.eqb k x then Some O else option_map S (index_of k r)
  end.

Definition cmp (o : relop) (a b : Z) : bool :=
  match o with
  | REq => a =? b | RNe => negb (a =? b) | RLt => a <? b | RLe => a <=? b | RGt => a >? b | RGe => a >=? b
  end.
Definition eval_filt (f : filt) (r : row) : bool :=
  let a := nth (fcol f) r 0 in
  let b := match frhs f with inl z => z | inr c => nth c r 0 end in
  cmp (fop f) a b.

(* itertools.islice(data, start, stop, step), start/stop >= 0 or None, step >= 1 or None *)
Definition islice {A} (s : slice) (l : list A) : list A :=
  flat_map (fun i => match nth_error l (Z.to_nat i) with Some x => [x] | None => [] end)
           (np_indices (Z.of_nat (List.length l)) s).

Definition apply_map (cols : list nat) (r : row) : row := map (fun i => nth i r 0) cols.

(* IterData.__iter__ *)
Definition iter (d : stream) : list row :=
  let rows := filter (fun r => forallb (fun f => eval_filt f r) (filters d)) (src d) in
  let rows := fold_left (fun rs cols => map (apply_map cols) rs) (maps d) rows in
  fold_left (fun rs s => islice s rs) (slices d) rows.

(* operations: IterData.__getitem__ *)
Inductive operand := OConst (z : Z) | OColumn (c : cname).
Inductive op :=
| OCols (ks : list cname)                       (* data[[k1, k2, ...]] *)
| OCol (k : cname)                              (* data[k] *)
| OFilter (c : cname) (o : relop) (r : operand) (* data[ConstraintExpression "seq.c OP r"] *)
| OSlice (s : slice)
| OInt (i : Z).

Fixpoint omap_index (ks : list cname) (l : list cname) : option (list nat) :=
  match ks with
  | [] => Some []
  | k :: r => do i <- index_of k l; do is <- omap_index r l; Some (i :: is)
  end.

Definition apply_op (d : stream) (o : op) : option stream :=
  match o with
  | OCols ks =>
      if single d then None
      else do cols <- omap_index ks (vis d);                       (* list(template.keys()).index(k) *)
           Some (mkStream (src d) (header d) ks (filters d) (maps d ++ [cols]) (slices d) false)
  | OCol k =>
      if single d then None
      else do col <- (match index_of k (vis d) with
                      | Some i => Some i
                      | None => index_of k (header d)              (* hidden child: source position *)
                      end);
           Some (mkStream (src d) (header d) [k] (filters d) (maps d ++ [[col]]) (slices d) true)
  | OFilter c o r =>
      (* also on a column stream (seq['col'].data[ce]): the clause is resolved in the SOURCE template *)
      do col <- index_of c (header d);                              (* source template, _all_keys() *)
      do rhs <- (match r with
                 | OConst z => Some (inl z)
                 | OColumn c2 => option_map inr (index_of c2 (header d))
                 end);
      Some (mkStream (src d) (header d) (vis d) (filters d ++ [mkFilt col o rhs]) (maps d) (slices d) (single d))
  | OSlice s => Some (mkStream (src d) (header d) (vis d) (filters d) (maps d) (slices d ++ [s]) (single d))
  | OInt i => Some (mkStream (src d) (header d) (vis d) (filters d) (maps d)
                              (slices d ++ [mkSlice (Some i) (Some (i + 1)) None]) (single d))
  end.

Fixpoint apply_ops (d : stream) (ops : list op) : option stream :=
  match ops with
  | [] => Some d
  | o :: r => do d' <- apply_op d o; apply_ops d' r
  end.

Definition fresh (hd : list cname) (rows : list row) : stream := mkStream rows hd hd [] [] [] false.

(* ------------------------------------------------------------------ SPEC: the constraint normal form,
   by NAME: filter the source rows with all filters, keep the named columns, then slice in order *)
Definition lookup (hd : list cname) (r : row) (k : cname) : Z :=
  match index_of k hd with Some i => nth i r 0 | None => 0 end.

Definition filt_by_name (hd : list cname) (c : cname) (o : relop) (rhs : operand) (r : row) : bool :=
  cmp o (lookup hd r c) (match rhs with OConst z => z | OColumn c2 => lookup hd r c2 end).

Fixpoint spec_filters (hd : list cname) (ops : list op) (r : row) : bool :=
  match ops with
  | [] => true
  | OFilter c o rhs :: rest => filt_by_name hd c o rhs r && spec_filters hd rest r
  | _ :: rest => spec_filters hd rest r
  end.
(* the columns finally visible: the last column/child selection wins *)
Fixpoint spec_columns (cur : list cname) (ops : list op) : list cname :=
  match ops with
  | [] => cur
  | OCols ks :: rest => spec_columns ks rest
  | OCol k :: rest => spec_columns [k] rest
  | _ :: rest => spec_columns cur rest
  end.
Fixpoint spec_slices (ops : list op) : list slice :=
  match ops with
  | [] => []
  | OSlice s :: rest => s :: spec_slices rest
  | OInt i :: rest => mkSlice (Some i) (Some (i + 1)) None :: spec_slices rest
  | _ :: rest => spec_slices rest
  end.

Definition spec_nf (hd : list cname) (rows : list row) (ops : list op) : list row :=
  let kept := filter (spec_filters hd ops) rows in
  let cols := spec_columns hd ops in
  fold_left (fun rs s => islice s rs) (spec_slices ops) (map (fun r => map (lookup hd r) cols) kept).
