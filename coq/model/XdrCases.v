(* Checkers for the C05 / C01 correspondence. *)
From PydapV Require Export Base Words Xdr.
Open Scope nat_scope.

Definition B (l : list N) : bytes := map ascii_of_N l.

Definition scalar_eqb (a b : scalar) : bool :=
  match a, b with
  | SInt x, SInt y => Z.eqb x y
  | SBits x, SBits y => N.eqb x y
  | SStr x, SStr y => beqb x y
  | _, _ => false
  end.
Section L.
  Context {A : Type} (f : A -> A -> bool).
  Fixpoint leqb (a b : list A) : bool :=
    match a, b with [], [] => true | x :: a', y :: b' => f x y && leqb a' b' | _, _ => false end.
End L.
Fixpoint val_eqb (a b : val) {struct a} : bool :=
  match a, b with
  | VBase x, VBase y => leqb scalar_eqb x y
  | VStruct x, VStruct y => leqb val_eqb x y
  | VSeq x, VSeq y => leqb (leqb val_eqb) x y
  | _, _ => false
  end.
Definition obytes_eqb (a : option bytes) (b : option (list N)) : bool :=
  match a, b with None, None => true | Some x, Some y => beqb x (B y) | _, _ => false end.

(* strings are written as byte lists by the harness *)
Definition S_ (l : list N) : scalar := SStr (B l).

(* encoder: (declaration, value, implementation's bytes after "Data:\n" or None if it raised) *)
Definition chk_dods (c : decl * val * option (list N)) : bool :=
  let '(d, v, r) := c in obytes_eqb (dods d v) r.
(* SPEC validation: Gallina xdr = the harness's independent reference encoder *)
Definition chk_xdr (c : decl * val * option (list N)) : bool :=
  let '(d, v, r) := c in obytes_eqb (xdr d v) r.
(* decoder: (declaration, bytes, implementation's decoded value or None if it raised) *)
Definition chk_unpack (c : decl * list N * option val) : bool :=
  let '(d, b, r) := c in
  match unpack d (B b), r with
  | None, None => true
  | Some (v, _), Some w => val_eqb v w
  | _, _ => false
  end.
