(* L3: the DAS printer (pydap.responses.das: das / build_attributes), the DAS parser (pydap.parsers.das.DASParser over
   SimpleParser with IGNORECASE|VERBOSE|DOTALL and lstrip after every token) and add_attributes (placement on the client). *)
From PydapV Require Export Base Quote DDS.
Open Scope nat_scope.

(* an attribute value as it appears in the DAS: a string, or the token of a number (percent-.6g of x, nan, inf, -inf) *)
Inductive aitem := IStr (s : chars) | INum (t : chars).
(* a leaf attribute (DAP type word, values) or a container (nested dict / the attributes and members of a variable) *)
Inductive aval := ALeaf (ty : chars) (vals : list aitem) | ADict (kids : list (chars * aval)).

Definition dq : ascii := """"%char.
Definition bs : ascii := "\"%char.

(* ------------------------------------------------------------------ printer *)
Definition enc (i : aitem) : chars := match i with IStr s => dq :: s ++ [dq] | INum t => t end.
Fixpoint cjoin (sep : chars) (l : list chars) : chars :=
  match l with [] => [] | [x] => x | x :: r => x ++ sep ++ cjoin sep r end.

(* build_attributes: indent type attr values; newline, with attr quoted - or: indent attr open-brace ... indent close-brace *)
Fixpoint print_attr (lvl : nat) (name : chars) (v : aval) : chars :=
  match v with
  | ALeaf ty vals =>
      indent lvl ++ ty ++ sp :: quote name ++ sp :: cjoin (s2l ", ") (map enc vals) ++ [";"%char; nl]
  | ADict kids =>
      indent lvl ++ name ++ sp :: "{"%char :: nl ::
      flat_map (fun p => match p with (n, x) => print_attr (S lvl) n x end) kids ++ indent lvl ++ ["}"%char; nl]
  end.

Definition print_entries (lvl : nat) (kids : list (chars * aval)) : chars :=
  flat_map (fun p => match p with (n, x) => print_attr lvl n x end) kids.

Definition print_das (kids : list (chars * aval)) : chars :=
  s2l "Attributes {" ++ nl :: print_entries 1 kids ++ ["}"%char; nl].

(* ------------------------------------------------------------------ parser *)
Definition nonspace (c : ascii) : bool := negb (is_space c).

(* peek of the regexp  [^\s]+\s+{  *)
Definition peek_container (s : chars) : bool :=
  match span nonspace s with
  | ([], _) => false
  | (_, r) => match span is_space r with
              | ([], _) => false
              | (_, c :: _) => Ascii.eqb c "{"%char
              | (_, []) => false
              end
  end.

(* second alternative of the value regexp, after the opening quote: up to the first quote that follows a character
   other than a backslash *)
Fixpoint scan_str (s : chars) : option (chars * chars) :=
  match s with
  | c :: r =>
      match r with
      | d :: r' =>
          if Ascii.eqb d dq && negb (Ascii.eqb c bs) then Some ([c], r')
          else option_map (fun p => (c :: fst p, snd p)) (scan_str r)
      | [] => None
      end
  | [] => None
  end.

Definition not_semi_comma (c : ascii) : bool := negb (Ascii.eqb c ";"%char || Ascii.eqb c ","%char).

(* the three alternatives of the value regexp, in order; returns (token, rest) *)
Definition value_token (s : chars) : option (chars * chars) :=
  match s with
  | a :: b :: r =>
      if Ascii.eqb a dq && Ascii.eqb b dq then Some ([dq; dq], r)
      else if Ascii.eqb a dq then
        match scan_str (b :: r) with
        | Some (body, rest) => Some (dq :: body ++ [dq], rest)
        | None => match span not_semi_comma s with ([], _) => None | p => Some p end
        end
      else match span not_semi_comma s with ([], _) => None | p => Some p end
  | _ => match span not_semi_comma s with ([], _) => None | p => Some p end
  end.

(* str.strip of the double quote *)
Fixpoint lstrip_dq (s : chars) : chars :=
  match s with c :: r => if Ascii.eqb c dq then lstrip_dq r else s | [] => [] end.
Definition strip_dq (s : chars) : chars := rev (lstrip_dq (rev (lstrip_dq s))).

Definition is_string_type (ty : chars) : bool :=
  let l := l2s (map lower ty) in String.eqb l "string" || String.eqb l "url".

(* while not peek(semicolon): value, optional comma *)
Fixpoint parse_values (fuel : nat) (ty : chars) (s : chars) : option (list aitem * chars) :=
  match fuel with
  | O => None
  | S f =>
      if peek_lit [";"%char] s then Some ([], s)
      else
        do p <- value_token s;
        let v := if is_string_type ty then IStr (strip_dq (fst p)) else INum (fst p) in
        let s1 := lstrip (snd p) in
        do s2 <- (if peek_lit [","%char] s1 then consume_lit [","%char] s1 else Some s1);
        do r <- parse_values f ty s2;
        Some (v :: fst r, snd r)
  end.

(* attribute() *)
Definition parse_attribute (fuel : nat) (s : chars) : option (chars * aval * chars) :=
  do t <- consume_class nonspace s;
  do n <- consume_class nonspace (snd t);
  do vs <- parse_values fuel (fst t) (snd n);
  do s' <- consume_lit [";"%char] (snd vs);
  Some (fst n, ALeaf (fst t) (fst vs), s').

(* "while not self.peek(close brace): <entry>" *)
Fixpoint until_close {E} (p : chars -> option (E * chars)) (n : nat) (s : chars) : option (list E * chars) :=
  match n with
  | O => None
  | S n' =>
      if peek_lit ["}"%char] s then Some ([], s)
      else do d <- p s; do r <- until_close p n' (snd d); Some (fst d :: fst r, snd r)
  end.

(* one iteration of the loop in container(): a nested container or an attribute *)
Definition parse_entry (pc : chars -> option (list (chars * aval) * chars))
                       (pa : chars -> option (chars * aval * chars)) (s : chars) : option (chars * aval * chars) :=
  if peek_container s then
    do nm <- consume_class nonspace s;
    do c <- pc (snd nm);
    Some (fst nm, ADict (fst c), snd c)
  else pa s.

(* container(): open brace, entries until a close brace, close brace *)
Fixpoint parse_container (fuel : nat) (s : chars) : option (list (chars * aval) * chars) :=
  match fuel with
  | O => None
  | S f =>
      do s1 <- consume_lit ["{"%char] s;
      do es <- until_close (parse_entry (parse_container f) (parse_attribute f)) f s1;
      do s2 <- consume_lit ["}"%char] (snd es);
      Some (fst es, s2)
  end.

Definition parse_das_fuel (fuel : nat) (s : chars) : option (list (chars * aval)) :=
  do s1 <- consume_lit (s2l "attributes") s;
  do c <- parse_container fuel s1;
  Some (fst c).
Definition parse_das (s : chars) : option (list (chars * aval)) := parse_das_fuel (S (List.length s)) s.

(* ------------------------------------------------------------------ the server side: das() over a dataset *)
Inductive vkind := KBase | KStruct | KGrid.       (* KStruct: Structure or Sequence *)
(* a variable: kind, (quoted) name, attributes in insertion order, members (for a Grid: array and maps) *)
Inductive vtree := VNode (kind : vkind) (name : chars) (attrs : list (chars * aval)) (kids : list vtree).

Fixpoint chars_leb (a b : chars) : bool :=
  match a, b with
  | [], _ => true
  | _ :: _, [] => false
  | x :: a', y :: b' =>
      if (N_of_ascii x <? N_of_ascii y)%N then true
      else if (N_of_ascii y <? N_of_ascii x)%N then false else chars_leb a' b'
  end.
Fixpoint insert_sorted {V} (kv : chars * V) (l : list (chars * V)) : list (chars * V) :=
  match l with
  | [] => [kv]
  | x :: r => if chars_leb (fst kv) (fst x) then kv :: l else x :: insert_sorted kv r
  end.
(* sorted(var.attributes.keys()) *)
Definition sort_attrs {V} (l : list (chars * V)) : list (chars * V) := fold_right insert_sorted [] l.

(* _datasettype / _structuretype / _basetypegridtype: attributes in sorted order, then (not for Base / Grid) the members *)
Fixpoint das_entry (t : vtree) : chars * aval :=
  match t with
  | VNode k n attrs kids =>
      (n, ADict (sort_attrs attrs ++ match k with KStruct => map das_entry kids | _ => [] end))
  end.
Definition das_of (ds_attrs : list (chars * aval)) (kids : list vtree) : list (chars * aval) :=
  sort_attrs ds_attrs ++ map das_entry kids.

(* ------------------------------------------------------------------ the client side: add_attributes *)
Definition adict := list (chars * aval).
Definition keqb (a b : chars) : bool := String.eqb (l2s a) (l2s b).

Fixpoint dget (k : chars) (d : adict) : option aval :=
  match d with [] => None | (k', v) :: r => if keqb k k' then Some v else dget k r end.
Fixpoint drem (k : chars) (d : adict) : adict :=
  match d with [] => [] | (k', v) :: r => if keqb k k' then r else (k', v) :: drem k r end.
(* d[k] = v : in place when the key exists, appended otherwise *)
Fixpoint dset (k : chars) (v : aval) (d : adict) : adict :=
  match d with
  | [] => [(k, v)]
  | (k', v') :: r => if keqb k k' then (k', v) :: r else (k', v') :: dset k v r
  end.
Definition dupdate (d v : adict) : adict := fold_left (fun acc kv => dset (fst kv) (snd kv) acc) v d.

(* reduce(operator.getitem, [attributes] + path): KeyError / TypeError (a leaf is indexed) / the nested dict *)
Inductive lookup := LOk (d : adict) | LKey | LCrash.
Fixpoint getpath (p : list chars) (d : adict) : lookup :=
  match p with
  | [] => LOk d
  | k :: p' => match dget k d with
               | None => LKey
               | Some (ADict d') => getpath p' d'
               | Some (ALeaf _ _) => LCrash
               end
  end.
(* apply f to the nested dict at path p *)
Fixpoint modpath (p : list chars) (f : adict -> adict) (d : adict) : adict :=
  match p with
  | [] => f d
  | k :: p' =>
      (fix go (d : adict) : adict :=
         match d with
         | [] => []
         | (k', v) :: r =>
             if keqb k k' then (k', match v with ADict d' => ADict (modpath p' f d') | _ => v end) :: r
             else (k', v) :: go r
         end) d
  end.

Definition dot : chars := ["."%char].
(* one iteration of "for var in list(walk(dataset))[::-1]" for the variable with id path idp and current attributes own *)
Definition var_step (idp : list chars) (own : adict) (st : adict) : option (adict * adict) :=
  (* flat id *)
  let key := cjoin dot idp in
  do r1 <- (match dget key st with
            | Some (ADict v) => Some (dupdate own v, drem key st)
            | Some (ALeaf _ _) => None              (* dict.update(<str or number>) outside the try: the exception escapes *)
            | None => Some (own, st)
            end);
  let '(own1, st1) := r1 in
  (* nested id *)
  let par := removelast idp in
  let k := last idp [] in
  match getpath par st1 with
  | LCrash => None
  | LKey => Some (own1, st1)
  | LOk nd =>
      match dget k nd with
      | None => Some (own1, st1)
      | Some (ADict v) => Some (dupdate own1 v, modpath par (drem k) st1)
      | Some (ALeaf t vs) => Some (own1, modpath par (fun d => drem k d ++ [(k, ALeaf t vs)]) st1)   (* handed back to the parent *)
      end
  end.

(* walk(dataset) without the dataset itself: pre-order id paths (Grid members included) *)
Fixpoint walk_paths (prefix : list chars) (t : vtree) : list (list chars) :=
  match t with
  | VNode _ n _ kids => (prefix ++ [n]) :: flat_map (walk_paths (prefix ++ [n])) kids
  end.

Definition is_global_name (k : chars) : bool := keqb k (s2l "NC_GLOBAL") || keqb k (s2l "DODS_EXTRA").
Definition is_dict (v : aval) : bool := match v with ADict _ => true | _ => false end.

(* global_dict_attrs = merge of the NC_GLOBAL / DODS_EXTRA containers, in the order of the parsed DAS *)
Definition global_dicts (attrs : adict) : adict :=
  fold_left (fun g kv => match kv with
                         | (k, ADict d) => if is_global_name k then dupdate g d else g
                         | _ => g
                         end) attrs [].
Definition without_global_dicts (attrs : adict) : adict :=
  filter (fun kv => negb (is_dict (snd kv) && is_global_name (fst kv))) attrs.

Fixpoint run_vars (vars : list (list chars)) (st : adict) : option (list (list chars * adict) * adict) :=
  match vars with
  | [] => Some ([], st)
  | idp :: rest =>
      do r <- var_step idp [] st;
      do q <- run_vars rest (snd r);
      Some ((idp, fst r) :: fst q, snd q)
  end.

(* add_attributes(dataset, attributes): result = (dataset attributes, attributes of every variable in walk order) *)
Definition add_attributes (dsname : chars) (kids : list vtree) (attrs : adict)
  : option (adict * list (list chars * adict)) :=
  let g := global_dicts attrs in
  let st0 := without_global_dicts attrs in
  let paths := flat_map (walk_paths []) kids in
  do r <- run_vars (rev paths) st0;
  do d <- var_step [dsname] g (snd r);
  Some (fold_left (fun acc kv => dset (fst kv) (snd kv) acc) (snd d) (fst d), rev (fst r)).
