(* Checkers evaluated by the C20 correspondence run (harness/c20.py). *)
From PydapV Require Export Base Quote DMR NcScope.
Open Scope nat_scope.

Definition G (name : string) (dims : list (string * nat)) (vars : list (string * list string)) (subs : list grp) : grp :=
  Grp (s2l name) (map (fun d => (s2l (fst d), snd d)) dims) (map (fun v => (s2l (fst v), map s2l (snd v))) vars) subs.

Fixpoint str_list_eqb (a : list chars) (b : list string) : bool :=
  match a, b with
  | [], [] => true
  | x :: r, y :: s => String.eqb (l2s x) y && str_list_eqb r s
  | _, _ => false
  end.

(* the dimension names the handler gave every variable (looked up by fully qualified variable name) *)
Definition chk_scope (c : grp * list (string * list string)) : bool :=
  let '(tree, observed) := c in
  let model := vars_of [] [] tree in
  Nat.eqb (List.length model) (List.length observed) &&
  forallb (fun o => match aget (s2l (fst o)) model with
                    | Some dims => str_list_eqb dims (snd o)
                    | None => false
                    end) observed.

(* ... and the shape of every variable: the sizes of the declarations its fully qualified dimension names refer to *)
Fixpoint sized_eqb (a : list (chars * option nat)) (b : list (string * nat)) : bool :=
  match a, b with
  | [], [] => true
  | (x, Some n) :: r, (y, m) :: s => String.eqb (l2s x) y && Nat.eqb n m && sized_eqb r s
  | _, _ => false
  end.
Definition chk_sized (c : grp * list (string * list (string * nat))) : bool :=
  let '(tree, observed) := c in
  let model := vars_sized [] [] tree in
  Nat.eqb (List.length model) (List.length observed) &&
  forallb (fun o => match aget (s2l (fst o)) model with
                    | Some dims => sized_eqb dims (snd o)
                    | None => false
                    end) observed.
