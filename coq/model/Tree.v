(* L2: the dataset tree of pydap.model (DapType / BaseType / StructureType and subclasses)
   at value level: every handle owns its tree; data and attribute values are opaque tokens.
   Ids are kept as the list of (quoted) name components; the implementation joins them with ".".
   Mirrors: __setitem__, __delitem__, __copy__/__shallowcopy__, __getitem__(tuple), _set_id,
   attribute and data assignment.  No proofs here. *)
From PydapV Require Export Base Quote.
Open Scope nat_scope.

Inductive kind := KStructure | KSequence | KGrid | KDataset.
Definition name_t := chars.
Definition id_t := list name_t.

Inductive node :=
| NBase (name : name_t) (id : id_t) (attrs : list (chars * N)) (data : N)
| NStruct (k : kind) (name : name_t) (id : id_t) (attrs : list (chars * N))
          (kids : list node) (visible : list name_t).

Definition nname (n : node) : name_t := match n with NBase nm _ _ _ => nm | NStruct _ nm _ _ _ _ => nm end.
Definition nid (n : node) : id_t := match n with NBase _ i _ _ => i | NStruct _ _ i _ _ _ => i end.
Definition nkids (n : node) : list node := match n with NBase _ _ _ _ => [] | NStruct _ _ _ _ ks _ => ks end.
Definition nvisible (n : node) : list name_t := match n with NBase _ _ _ _ => [] | NStruct _ _ _ _ _ v => v end.

Definition chars_eqb (a b : chars) : bool := String.eqb (l2s a) (l2s b).
Fixpoint chars_eqb' (a b : chars) : bool :=
  match a, b with
  | [], [] => true
  | x :: a', y :: b' => ascii_eqb x y && chars_eqb' a' b'
  | _, _ => false
  end.
Definition memn (x : name_t) (l : list name_t) : bool := existsb (chars_eqb' x) l.

Fixpoint nodupb (l : list name_t) : bool :=
  match l with [] => true | x :: r => negb (memn x r) && nodupb r end.

Fixpoint find_kid (key : name_t) (ks : list node) : option node :=
  match ks with
  | [] => None
  | k :: r => if chars_eqb' key (nname k) then Some k else find_kid key r
  end.

(* child id below a parent: the dataset's own name is not part of it *)
Definition child_id (k : kind) (pid : id_t) (cname : name_t) : id_t :=
  match k with KDataset => [cname] | _ => pid ++ [cname] end.

(* DapType._set_id / DatasetType._set_id: set the id and propagate to the VISIBLE children.
   children() looks every visible key up in _dict: a missing one is a KeyError (None). *)
Fixpoint set_id (i : id_t) (n : node) : option node :=
  match n with
  | NBase nm _ at_ d => Some (NBase nm i at_ d)
  | NStruct k nm _ at_ ks vis =>
    if forallb (fun v => match find_kid v ks with Some _ => true | None => false end) vis then
      do ks' <- omap (fun c => if memn (nname c) vis
                               then set_id (child_id k i (nname c)) c else Some c) ks;
      Some (NStruct k nm i at_ ks' vis)
    else None
  end.
Definition set_id' := set_id.

Fixpoint depth (n : node) : nat :=
  match n with
  | NBase _ _ _ _ => 1
  | NStruct _ _ _ _ ks _ => S (fold_right (fun c m => Nat.max (depth c) m) 0 ks)
  end.

Fixpoint remove_first (x : name_t) (l : list name_t) : list name_t :=
  match l with [] => [] | y :: r => if chars_eqb' x y then r else y :: remove_first x r end.

Fixpoint replace_kid (item : node) (ks : list node) : list node :=
  match ks with
  | [] => [item]
  | k :: r => if chars_eqb' (nname item) (nname k) then item :: r else k :: replace_kid item r
  end.
Fixpoint remove_kid (key : name_t) (ks : list node) : list node :=
  match ks with [] => [] | k :: r => if chars_eqb' key (nname k) then r else k :: remove_kid key r end.

(* StructureType.__delitem__(key): raw key *)
Definition delitem (n : node) (key : name_t) : option node :=
  match n with
  | NBase _ _ _ _ => None
  | NStruct k nm i at_ ks vis =>
      match find_kid key ks with
      | None => None                                          (* KeyError *)
      | Some _ => Some (NStruct k nm i at_ (remove_kid key ks) (remove_first key vis))
      end
  end.

(* StructureType.__setitem__(key, item) (and the single-component path of DatasetType.__setitem__) *)
Definition setitem (n : node) (key : name_t) (item : node) : option node :=
  match n with
  | NBase _ _ _ _ => None
  | NStruct k nm i at_ ks vis =>
      let key' := quote key in
      if negb (chars_eqb' key' (nname item)) then None          (* KeyError: key differs from name *)
      else
        do n1 <- (if memn key' vis then delitem n key' else Some n);
        match n1 with
        | NBase _ _ _ _ => None
        | NStruct _ _ _ _ ks1 vis1 =>
            do item' <- set_id' (child_id k i (nname item)) item;
            Some (NStruct k nm i at_ (replace_kid item' ks1) (vis1 ++ [key']))
        end
  end.

(* BaseType.__copy__ / StructureType.__copy__ : clone the structure, share data tokens.
   All children (hidden ones too) are re-inserted, which re-derives every id; the copy then keeps
   the visible keys of its source. *)
Fixpoint copy_ids (i : id_t) (n : node) : node :=
  match n with
  | NBase nm _ at_ d => NBase nm i at_ d
  | NStruct k nm _ at_ ks vis =>
      NStruct k nm i at_ (map (fun c => copy_ids (child_id k i (nname c)) c) ks) vis
  end.
Definition copy (n : node) : node := copy_ids (nid n) n.

(* StructureType.__getitem__(tuple of names) *)
Definition select (n : node) (keys : list name_t) : option node :=
  match copy n with
  | NBase _ _ _ _ => None
  | NStruct k nm i at_ ks _ =>
      let qs := map quote keys in
      if forallb (fun q => match find_kid q ks with Some _ => true | None => false end) qs && nodupb qs
      then Some (NStruct k nm i at_ ks qs) else None
  end.

Fixpoint set_assoc (k : chars) (v : N) (l : list (chars * N)) : list (chars * N) :=
  match l with
  | [] => [(k, v)]
  | (k', v') :: r => if chars_eqb' k k' then (k, v) :: r else (k', v') :: set_assoc k v r
  end.
Definition set_attr (n : node) (k : chars) (v : N) : option node :=
  Some match n with
       | NBase nm i at_ d => NBase nm i (set_assoc k v at_) d
       | NStruct kd nm i at_ ks vis => NStruct kd nm i (set_assoc k v at_) ks vis
       end.
Definition set_data (n : node) (d : N) : option node :=
  match n with NBase nm i at_ _ => Some (NBase nm i at_ d) | _ => None end.

(* apply f at the node reached from n through the raw keys of path (obj[k1][k2]...) *)
Fixpoint map_kid (key : name_t) (f : node -> option node) (ks : list node) : option (list node) :=
  match ks with
  | [] => None
  | k :: r => if chars_eqb' key (nname k) then do k' <- f k; Some (k' :: r)
              else do r' <- map_kid key f r; Some (k :: r')
  end.
Fixpoint update_at (path : list name_t) (f : node -> option node) (n : node) : option node :=
  match path with
  | [] => f n
  | key :: rest =>
    match n with
    | NBase _ _ _ _ => None
    | NStruct k nm i at_ ks vis =>
        do ks' <- map_kid (quote key) (update_at rest f) ks;
        Some (NStruct k nm i at_ ks' vis)
    end
  end.
Fixpoint node_at (path : list name_t) (n : node) : option node :=
  match path with
  | [] => Some n
  | key :: rest => do c <- find_kid (quote key) (nkids n); node_at rest c
  end.

(* operations of the property's histories; handles are indices into the list of roots *)
Inductive fresh := FBase (name : name_t) (data : N) | FStruct (k : kind) (name : name_t).
Definition mk_fresh (f : fresh) : node :=
  match f with
  | FBase nm d => NBase (quote nm) [quote nm] [] d
  | FStruct k nm => NStruct k (quote nm) [quote nm] [] [] []
  end.
Definition fresh_name (f : fresh) : name_t := match f with FBase nm _ => nm | FStruct _ nm => nm end.

Inductive op :=
| OSet (h : nat) (path : list name_t) (f : fresh)             (* node[name] = fresh variable *)
| OInsertCopy (h : nat) (path : list name_t) (h2 : nat) (path2 : list name_t)  (* node[src.name] = copy(src) *)
| ODel (h : nat) (path : list name_t) (key : name_t)
| OCopy (h : nat) (path : list name_t)                        (* new handle = copy.copy(node) *)
| OSelect (h : nat) (path : list name_t) (keys : list name_t) (* new handle = node[tuple] *)
| OAttr (h : nat) (path : list name_t) (k : chars) (v : N)
| OData (h : nat) (path : list name_t) (d : N)
| OMove (h : nat) (path : list name_t) (h2 : nat).           (* node[root2.name] = root2 itself; the handle is given up *)

(* what a handle holds after its object was moved into another tree *)
Definition moved : node := NStruct KStructure (s2l "moved") [s2l "moved"] [] [] [].

Fixpoint set_nth {A} (i : nat) (x : A) (l : list A) : list A :=
  match l, i with
  | [], _ => []
  | _ :: r, O => x :: r
  | y :: r, S i' => y :: set_nth i' x r
  end.

Definition upd_root (st : list node) (h : nat) (path : list name_t) (f : node -> option node) : option (list node) :=
  do r <- nth_error st h; do r' <- update_at path f r; Some (set_nth h r' st).

(* a failing operation (KeyError) leaves the state unchanged, like the Python statement *)
Definition step (st : list node) (o : op) : list node :=
  let res :=
    match o with
    | OSet h p f => upd_root st h p (fun n => setitem n (fresh_name f) (mk_fresh f))
    | OInsertCopy h p h2 p2 =>
        do r2 <- nth_error st h2; do src <- node_at p2 r2;
        upd_root st h p (fun n => setitem n (nname src) (copy src))
    | ODel h p key => upd_root st h p (fun n => delitem n key)
    | OCopy h p => do r <- nth_error st h; do n <- node_at p r; Some (st ++ [copy n])
    | OSelect h p keys => do r <- nth_error st h; do n <- node_at p r; do s <- select n keys; Some (st ++ [s])
    | OAttr h p k v => upd_root st h p (fun n => set_attr n k v)
    | OData h p d => upd_root st h p (fun n => set_data n d)
    | OMove h p h2 =>
        if Nat.eqb h h2 then None
        else do src <- nth_error st h2;
             do st1 <- upd_root st h p (fun n => setitem n (nname src) src);
             Some (set_nth h2 moved st1)
    end in
  match res with Some st' => st' | None => st end.

Definition run (init : list node) (ops : list op) : list node := fold_left step ops init.
