(* L4: byte readers and the separator search of the DAP2 client.
   Mirrors pydap.lib.StreamReader.read / BytesReader.read and
   pydap.handlers.dap.find_pattern_in_string_iter (for a literal pattern).  bytes = list ascii. *)
From PydapV Require Export Base.
Open Scope nat_scope.

Definition bytes := chars.

(* ---- BytesReader.read: a short read raises EOFError (None) ---- *)
Definition bread (data : bytes) (n : nat) : option (bytes * bytes) :=
  if n <=? List.length data then Some (firstn n data, skipn n data) else None.

(* ---- StreamReader: buffer + iterator of chunks; next() on an exhausted iterator is an error ---- *)
Record sreader := mkS { sbuf : bytes; schunks : list bytes }.

(* while len(self.buf) < n: self.buf.extend(next(self.stream)) *)
Fixpoint sfill (n : nat) (buf : bytes) (chunks : list bytes) : option (bytes * list bytes) :=
  if n <=? List.length buf then Some (buf, chunks)
  else match chunks with
       | [] => None                              (* StopIteration *)
       | c :: cs => sfill n (buf ++ c) cs
       end.

Definition sread (r : sreader) (n : nat) : option (bytes * sreader) :=
  match sfill n (sbuf r) (schunks r) with
  | None => None
  | Some (buf, cs) => Some (firstn n buf, mkS (skipn n buf) cs)
  end.

(* a sequence of reads *)
Fixpoint sreads (r : sreader) (ns : list nat) : option (list bytes) :=
  match ns with
  | [] => Some []
  | n :: ns' => match sread r n with
                | None => None
                | Some (b, r') => match sreads r' ns' with None => None | Some bs => Some (b :: bs) end
                end
  end.
Fixpoint breads (data : bytes) (ns : list nat) : option (list bytes) :=
  match ns with
  | [] => Some []
  | n :: ns' => match bread data n with
                | None => None
                | Some (b, d') => match breads d' ns' with None => None | Some bs => Some (b :: bs) end
                end
  end.

(* ---- re.search(literal, buffer): index just after the leftmost occurrence ---- *)
Fixpoint find_end (p s : bytes) : option nat :=
  if prefixb p s then Some (List.length p)
  else match s with
       | [] => None
       | _ :: t => option_map S (find_end p t)
       end.

(* last_chunk[-length:] *)
Definition lastn (n : nat) (l : bytes) : bytes := skipn (List.length l - n) l.

(* find_pattern_in_string_iter: returns the rest of the current chunk and the unconsumed chunks *)
Fixpoint find_pattern (p : bytes) (last : bytes) (chunks : list bytes) : option (bytes * list bytes) :=
  match chunks with
  | [] => None
  | c :: cs =>
      let buf := last ++ c in
      match find_end p buf with
      | Some e => Some (skipn e buf, cs)
      | None => find_pattern p (lastn (List.length p) buf) cs
      end
  end.
Definition find_pattern_in_string_iter (p : bytes) (chunks : list bytes) := find_pattern p [] chunks.

(* the client: StreamReader(chain([rest_of_chunk], remaining_chunks)) *)
Definition data_stream (chunks : list bytes) : option sreader :=
  match find_pattern_in_string_iter (s2l "Data:" ++ ["010"%char]) chunks with
  | None => None
  | Some (rest, cs) => Some (mkS [] (rest :: cs))
  end.
