(* L3: the DDS printer (pydap.responses.dds) and parser (pydap.parsers.dds.DDSParser over
   SimpleParser.peek/consume with re.IGNORECASE and lstrip after every consumed token). *)
From PydapV Require Export Base Quote.
Open Scope nat_scope.

(* DAP2 element types of a pydap variable (a Url declaration is read as a String: LOWER_DAP2_TO_NUMPY_PARSER_TYPEMAP) *)
Inductive dty := Byte | Int16 | UInt16 | Int32 | UInt32 | Float32 | Float64 | String_.

(* BaseType: element type, name, dimension names (possibly none), shape (for a live member of a Sequence the
   leading axes are the record axes) *)
Inductive dtree :=
| TBase (t : dty) (name : chars) (dims : list chars) (shape : list nat)
| TStruct (name : chars) (kids : list dtree)
| TSeq (name : chars) (kids : list dtree)
| TGrid (name : chars) (array : dtree) (maps : list dtree).

(* ------------------------------------------------------------------ printer *)
Definition type_name (t : dty) : chars :=
  s2l match t with
      | Byte => "Byte" | Int16 => "Int16" | UInt16 => "UInt16" | Int32 => "Int32" | UInt32 => "UInt32"
      | Float32 => "Float32" | Float64 => "Float64" | String_ => "String"
      end.

Definition nl : ascii := "010"%char.
Definition sp : ascii := " "%char.
Definition indent (lvl : nat) : chars := repeat sp (4 * lvl).
Definition dec (n : nat) : chars := s2l (print_dec (Z.of_nat n)).

Definition named_dim (p : chars * nat) : chars := "["%char :: fst p ++ s2l " = " ++ dec (snd p) ++ ["]"%char].
Definition anon_dim (n : nat) : chars := "["%char :: dec n ++ ["]"%char].

(* _basetype: shape = var.shape[sequence:]; dimension names that cover the shape (as many names as axes) ->
   zip(map(_quote, dims), shape); otherwise one axis -> [varname = n], any other rank -> [n]...  (a variable whose names do not
   cover its shape - a foreign DDS that names only some dimensions parses to one - is declared with its whole shape) *)
Definition dims_cover (dims : list chars) (sh : list nat) : bool :=
  match dims with [] => false | _ :: _ => Nat.eqb (List.length dims) (List.length sh) end.
Definition print_dims (seq : nat) (name : chars) (dims : list chars) (shape : list nat) : chars :=
  let sh := skipn seq shape in
  if dims_cover dims sh then flat_map named_dim (combine (map quote dims) sh)
  else match sh with
       | [n] => named_dim (name, n)
       | _ => flat_map anon_dim sh
       end.

Fixpoint print_decl (lvl seq : nat) (t : dtree) : chars :=
  match t with
  | TBase ty name dims shape =>
      indent lvl ++ type_name ty ++ sp :: name ++ print_dims seq name dims shape ++ [";"%char; nl]
  | TStruct name kids =>
      indent lvl ++ s2l "Structure {" ++ nl :: flat_map (print_decl (S lvl) seq) kids ++
      indent lvl ++ "}"%char :: sp :: name ++ [";"%char; nl]
  | TSeq name kids =>
      indent lvl ++ s2l "Sequence {" ++ nl :: flat_map (print_decl (S lvl) (S seq)) kids ++
      indent lvl ++ "}"%char :: sp :: name ++ [";"%char; nl]
  | TGrid name array maps =>
      indent lvl ++ s2l "Grid {" ++ nl ::
      indent (S lvl) ++ s2l "Array:" ++ nl :: print_decl (S (S lvl)) seq array ++
      indent (S lvl) ++ s2l "Maps:" ++ nl :: flat_map (print_decl (S (S lvl)) seq) maps ++
      indent lvl ++ "}"%char :: sp :: name ++ [";"%char; nl]
  end.

Definition print_dataset (name : chars) (kids : list dtree) : chars :=
  s2l "Dataset {" ++ nl :: flat_map (print_decl 1 0) kids ++ "}"%char :: sp :: name ++ [";"%char; nl].

(* ------------------------------------------------------------------ parser *)
Definition is_space (c : ascii) : bool :=
  let n := N_of_ascii c in (N.eqb n 32 || ((9 <=? n)%N && (n <=? 13)%N) || ((28 <=? n)%N && (n <=? 31)%N) || N.eqb n 133 || N.eqb n 160).
Fixpoint lstrip (s : chars) : chars :=
  match s with c :: r => if is_space c then lstrip r else s | [] => [] end.

Definition lower (c : ascii) : ascii :=
  let n := N_of_ascii c in if ((65 <=? n)%N && (n <=? 90)%N) then ascii_of_N (n + 32) else c.
Definition is_word (c : ascii) : bool :=
  let n := N_of_ascii c in
  ((48 <=? n)%N && (n <=? 57)%N) || ((65 <=? n)%N && (n <=? 90)%N) || ((97 <=? n)%N && (n <=? 122)%N) || N.eqb n 95.
Definition is_digit (c : ascii) : bool := let n := N_of_ascii c in ((48 <=? n)%N && (n <=? 57)%N).
(* name_regexp: word chars plus percent, bang, tilde, both quotes, star, slash, minus *)
Definition is_dimchar (c : ascii) : bool :=
  is_word c || existsb (Ascii.eqb c) (s2l "%!~""'*/-").

Fixpoint span (p : ascii -> bool) (s : chars) : chars * chars :=
  match s with
  | c :: r => if p c then let '(a, b) := span p r in (c :: a, b) else ([], s)
  | [] => ([], [])
  end.

(* consume(regexp) for a character class C+ : the longest non-empty run, then lstrip *)
Definition consume_class (p : ascii -> bool) (s : chars) : option (chars * chars) :=
  match span p s with
  | ([], _) => None
  | (tok, rest) => Some (tok, lstrip rest)
  end.
(* consume(literal) under re.IGNORECASE *)
Fixpoint prefix_ci (lit s : chars) : option chars :=
  match lit, s with
  | [], _ => Some s
  | a :: lit', b :: s' => if Ascii.eqb (lower a) (lower b) then prefix_ci lit' s' else None
  | _ :: _, [] => None
  end.
Definition consume_lit (lit : chars) (s : chars) : option chars := option_map lstrip (prefix_ci lit s).
Definition peek_lit (lit : chars) (s : chars) : bool := match prefix_ci lit s with Some _ => true | None => false end.

Definition type_of (w : chars) : option dty :=
  let l := l2s (map lower w) in
  if String.eqb l "byte" then Some Byte else if String.eqb l "int16" then Some Int16
  else if String.eqb l "uint16" then Some UInt16 else if String.eqb l "int32" then Some Int32
  else if String.eqb l "uint32" then Some UInt32 else if String.eqb l "float32" then Some Float32
  else if String.eqb l "float64" then Some Float64 else if String.eqb l "string" then Some String_
  else if String.eqb l "url" then Some String_ else if String.eqb l "int" then Some Int32
  else if String.eqb l "uint" then Some UInt32 else None.

Definition to_nat_dec (tok : chars) : option nat :=
  if forallb is_digit tok then option_map Z.to_nat (parse_dec (l2s tok)) else None.

(* dimensions(): while not peek(";"); returns (shape, names) *)
Fixpoint parse_dims (fuel : nat) (s : chars) : option (list nat * list chars * chars) :=
  match fuel with
  | O => None
  | S f =>
    if peek_lit [";"%char] s then Some ([], [], s)
    else
      do s1 <- consume_lit ["["%char] s;
      do p <- consume_class is_dimchar s1;
      do q <- (if peek_lit ["="%char] (snd p) then
                 do s3 <- consume_lit ["="%char] (snd p);
                 do d <- consume_class is_digit s3;
                 do n <- to_nat_dec (fst d); Some (n, [fst p], snd d)
               else do n <- to_nat_dec (fst p); Some (n, [], snd p));
      do s4 <- consume_lit ["]"%char] (snd q);
      do r <- parse_dims f s4;
      Some (fst (fst q) :: fst (fst r), snd (fst q) ++ snd (fst r), snd r)
  end.

Definition not_semi_bracket (c : ascii) : bool := negb (Ascii.eqb c ";"%char || Ascii.eqb c "["%char).
Definition not_semi (c : ascii) : bool := negb (Ascii.eqb c ";"%char).

(* base() *)
Definition parse_base (fuel : nat) (s : chars) : option (dtree * chars) :=
  do p <- consume_class is_word s;
  do ty <- type_of (fst p);
  do q <- consume_class not_semi_bracket (snd p);
  do d <- parse_dims fuel (snd q);
  do s' <- consume_lit [";"%char] (snd d);
  Some (TBase ty (quote (fst q)) (snd (fst d)) (fst (fst d)), s').

Definition keyword (s : chars) : string := l2s (map lower (fst (span is_word s))).

(* "while not self.peek('}'): var = <parser>()" *)
Fixpoint until_brace (p : chars -> option (dtree * chars)) (n : nat) (s : chars) : option (list dtree * chars) :=
  match n with
  | O => None
  | S n' =>
      if peek_lit ["}"%char] s then Some ([], s)
      else do d <- p s; do r <- until_brace p n' (snd d); Some (fst d :: fst r, snd r)
  end.

(* "} name;" *)
Definition parse_tail (s : chars) : option (chars * chars) :=
  do s1 <- consume_lit ["}"%char] s;
  do nm <- consume_class not_semi s1;
  do s2 <- consume_lit [";"%char] (snd nm);
  Some (quote (fst nm), s2).

(* declaration(): dispatch on the next word *)
Fixpoint parse_decl (fuel : nat) (s : chars) : option (dtree * chars) :=
  match fuel with
  | O => None
  | S f =>
    let k := keyword s in
    if String.eqb k "structure" || String.eqb k "sequence" then
      do s1 <- consume_lit (s2l k) s;
      do s2 <- consume_lit ["{"%char] s1;
      do ks <- until_brace (parse_decl f) f s2;
      do t <- parse_tail (snd ks);
      Some ((if String.eqb k "structure" then TStruct else TSeq) (fst t) (fst ks), snd t)
    else if String.eqb k "grid" then
      do s1 <- consume_lit (s2l "grid") s;
      do s2 <- consume_lit ["{"%char] s1;
      do s3 <- consume_lit (s2l "array") s2;
      do s4 <- consume_lit [":"%char] s3;
      do a <- parse_base f s4;
      do s5 <- consume_lit (s2l "maps") (snd a);
      do s6 <- consume_lit [":"%char] s5;
      do ms <- until_brace (parse_base f) f s6;
      do t <- parse_tail (snd ms);
      Some (TGrid (fst t) (fst a) (fst ms), snd t)
    else parse_base f s
  end.

(* parse(): dataset; the fuel bounds nesting depth, members per container and dimensions per variable by the text length *)
Definition parse_dataset_fuel (fuel : nat) (s : chars) : option (chars * list dtree) :=
  do s1 <- consume_lit (s2l "dataset") s;
  do s2 <- consume_lit ["{"%char] s1;
  do ks <- until_brace (parse_decl fuel) fuel s2;
  do t <- parse_tail (snd ks);
  Some (fst t, fst ks).
Definition parse_dataset (s : chars) : option (chars * list dtree) := parse_dataset_fuel (S (List.length s)) s.
