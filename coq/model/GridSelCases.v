(* C02 correspondence: a (possibly narrowed / re-ordered) grid sliced with an index - which positions every listed map holds.
   Case: shape of the array, its raw dimension names, the user's index, the listed maps (stored name, extent), and what pydap
   returned: positions held by the array per axis is not compared here (C02's main stream does), only the maps:
   None = pydap raised. *)
From PydapV Require Export Base Slices SlicesCases GridSel.
Open Scope Z_scope.

Definition grid_model (shape : list Z) (dims : list chars) (idx : list item) (maps : list (chars * Z)) : option (list (list Z)) :=
  do r <- grid_getitem shape dims idx (map fst maps);
  omap (fun '((_, N), (_, it)) => map_positions N it) (combine maps (snd r)).

Definition chk_grid (c : list Z * list chars * list item * list (chars * Z) * option (list (list Z))) : bool :=
  let '(shape, dims, idx, maps, obs) := c in
  opt_eqb (list_eqb (list_eqb Z.eqb)) (grid_model shape dims idx maps) obs.

(* the same pairing on the client: add_dap2_proxies gives every map of a grid opened with a hyperslab in the URL the hyperslab of
   the axis it names.  Case: raw dimension names of the array, the URL hyperslab (one slice per axis), the maps in the order the
   DDS declares them, and the slice found on every map's proxy. *)
Definition chk_url_maps (c : list chars * list item * list chars * list (option item)) : bool :=
  let '(dims, key, maps, obs) := c in
  list_eqb (opt_eqb item_eqb) (map snd (pair_maps (usable_dims dims (List.length key)) key 1 maps)) obs.
