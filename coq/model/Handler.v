(* L5: BaseHandler.__call__ as a sequence of statements, some of them inside the try block.
   The statement list itself is GENERATED from the source (gen/GenFacts.v). *)
From PydapV Require Export Base.
Open Scope string_scope.

Definition nl : string := String "010"%char EmptyString.

Record step_info := mkStep { label : string; in_try : bool; may_raise : bool }.

Inductive outcome := Answered | ErrorDoc | Raised.

(* [raises i] : does statement number i raise for the request at hand?  (universally quantified in
   the theorems: nothing is assumed about WHICH inputs make a statement fail) *)
Fixpoint run (steps : list step_info) (catches_all : bool) (raises : nat -> bool) (i : nat) : outcome :=
  match steps with
  | [] => Answered
  | s :: r =>
      if may_raise s && raises i
      then (if in_try s && catches_all then ErrorDoc else Raised)
      else run r catches_all raises (S i)
  end.

Definition contained (steps : list step_info) : bool :=
  forallb (fun s => implb (may_raise s) (in_try s)) steps.

(* Python's str.format for a template using only {{ }} {0} {1} *)
Fixpoint pyformat (tpl : string) (a0 a1 : string) : string :=
  match tpl with
  | EmptyString => EmptyString
  | String "{" (String "{" r) => String "{" (pyformat r a0 a1)
  | String "}" (String "}" r) => String "}" (pyformat r a0 a1)
  | String "{" (String "0" (String "}" r)) => a0 ++ pyformat r a0 a1
  | String "{" (String "1" (String "}" r)) => a1 ++ pyformat r a0 a1
  | String c r => String c (pyformat r a0 a1)
  end.

(* the DAP2 error document *)
Definition error_doc (code message : string) : string :=
  "Error {" ++ nl ++ "    code = " ++ code ++ ";" ++ nl ++ "    message = " ++ message ++ ";" ++ nl ++ "}".
