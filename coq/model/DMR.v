(* L3: pydap.parsers.dmr over an XML element tree (xml.etree.ElementTree is outside the model: the harness hands the same
   element tree to the model that it serialises for pydap).  get_variables / get_named_dimensions / get_dim_names /
   shape resolution / get_maps / get_atomic_attr / the arguments dmr_to_dataset passes to createVariable. *)
From PydapV Require Export Base Quote.
Open Scope nat_scope.

Inductive xml := XNode (tag : chars) (attrs : list (chars * chars)) (text : option chars) (kids : list xml).
Definition xtag (n : xml) := match n with XNode t _ _ _ => t end.
Definition xattrs (n : xml) := match n with XNode _ a _ _ => a end.
Definition xtext (n : xml) := match n with XNode _ _ t _ => t end.
Definition xkids (n : xml) := match n with XNode _ _ _ k => k end.

Definition ceq (a b : chars) : bool := String.eqb (l2s a) (l2s b).
Fixpoint aget {V} (k : chars) (l : list (chars * V)) : option V :=
  match l with [] => None | (k', v) :: r => if ceq k k' then Some v else aget k r end.
Definition xget (k : string) (n : xml) : option chars := aget (s2l k) (xattrs n).
(* dict[k] = v : in place when the key exists, appended otherwise (OrderedDict / dict) *)
Fixpoint aset {V} (k : chars) (v : V) (l : list (chars * V)) : list (chars * V) :=
  match l with
  | [] => [(k, v)]
  | (k', v') :: r => if ceq k k' then (k', v) :: r else (k', v') :: aset k v r
  end.
Definition aupdate {V} (d u : list (chars * V)) : list (chars * V) := fold_left (fun acc kv => aset (fst kv) (snd kv) acc) u d.
Definition findall (t : string) (n : xml) : list xml := filter (fun k => ceq (xtag k) (s2l t)) (xkids n).

Definition atomic_tags : list string :=
  ["Int8"; "UInt8"; "Byte"; "Char"; "Int16"; "UInt16"; "Int32"; "UInt32"; "Int64"; "UInt64"; "Float32"; "Float64"]%string.
Definition is_atomic (t : chars) : bool := existsb (fun a => ceq t (s2l a)) atomic_tags.
Definition is_var_tag (t : chars) : bool := is_atomic t || ceq t (s2l "String").

Definition slash : ascii := "/"%char.

(* get_variables(node, prefix): ordered dict  name -> (element, parent tag) *)
Definition ventry := (chars * (xml * chars))%type.
Section GV.
  Variable rec : xml -> chars -> list ventry.        (* get_variables on a sub-element *)
  Fixpoint gv_go (tag prefix' : chars) (ks : list xml) (acc : list ventry) : list ventry :=
    match ks with
    | [] => acc
    | k :: r =>
        let acc1 :=
          if is_var_tag (xtag k) then
            match xget "name" k with
            | Some vn => aset (match prefix' with [] => vn | _ => prefix' ++ slash :: vn end) (k, tag) acc
            | None => aset [] (k, tag) acc       (* a variable element without a name: not generated *)
            end
          else acc in
        gv_go tag prefix' r (aupdate acc1 (rec k prefix'))
    end.
End GV.
Fixpoint get_variables (node : xml) (prefix : chars) : list ventry :=
  match node with
  | XNode tag attrs _ kids =>
      match aget (s2l "name") attrs with
      | None => []
      | Some nm =>
          let prefix' := if ceq tag (s2l "Dataset") then prefix else prefix ++ slash :: quote nm in
          gv_go get_variables tag prefix' kids []
      end
  end.

(* int(str) for the sizes: canonical decimal strings *)
Definition int_of (s : chars) : option nat :=
  if forallb (fun c => let n := N_of_ascii c in ((48 <=? n)%N && (n <=? 57)%N)) s && negb (match s with [] => true | _ => false end)
  then option_map Z.to_nat (parse_dec (l2s s)) else None.

(* get_named_dimensions(node, prefix): name -> size.  An undecodable size makes the whole parse fail (None). *)
Section GND.
  Variable rec : xml -> chars -> option (list (chars * nat)).
  Fixpoint gnd_go (prefix' : chars) (ks : list xml) (acc : list (chars * nat)) : option (list (chars * nat)) :=
    match ks with
    | [] => Some acc
    | k :: r =>
        do acc1 <- (if ceq (xtag k) (s2l "Dimension") then
                      match xget "name" k, xget "size" k with
                      | Some dn, Some sz =>
                          do n <- int_of sz;
                          Some (aset (match prefix' with [] => dn | _ => prefix' ++ slash :: dn end) n acc)
                      | _, _ => None
                      end
                    else Some acc);
        do sub <- rec k prefix';
        gnd_go prefix' r (aupdate acc1 sub)
    end.
End GND.
Fixpoint get_named_dimensions (node : xml) (prefix : chars) : option (list (chars * nat)) :=
  match node with
  | XNode tag attrs _ kids =>
      match aget (s2l "name") attrs with
      | None => Some []
      | Some nm =>
          let prefix' := if ceq tag (s2l "Dataset") then prefix else prefix ++ slash :: nm in
          gnd_go get_named_dimensions prefix' kids []
      end
  end.

(* name.find("/", 1) == -1  ->  name.replace("/", "") *)
Definition dim_key (name : chars) : chars :=
  if existsb (Ascii.eqb slash) (tl name) then name else filter (fun c => negb (Ascii.eqb c slash)) name.

(* get_dim_names: the named Dim children, in order *)
Definition get_dim_names (e : xml) : list chars :=
  flat_map (fun d => match xget "name" d with Some n => [dim_key n] | None => [] end) (findall "Dim" e).

(* the shape in declaration order (after the repair): the size of an unnamed Dim, the declared size of a named one *)
Fixpoint resolve_shape (named : list (chars * nat)) (ds : list xml) : option (list nat) :=
  match ds with
  | [] => Some []
  | d :: r =>
      do n <- (match xget "name" d with
               | Some nm => aget (dim_key nm) named
               | None => match xget "size" d with Some sz => int_of sz | None => None end
               end);
      do rest <- resolve_shape named r;
      Some (n :: rest)
  end.

Definition get_maps (e : xml) : list (option chars) := map (xget "name") (findall "Map" e).

(* get_atomic_attr: name, type, the value strings in order (inline value first, then each Value's text or value=) *)
Definition attr_values (e : xml) : list (option chars) :=
  (match xget "value" e with Some v => [Some v] | None => [] end) ++
  map (fun v => match xtext v with Some t => Some t | None => xget "value" v end) (findall "Value" e).
Definition get_attributes (e : xml) : list (chars * (option chars * list (option chars))) :=
  fold_left (fun acc a => match xget "name" a with
                          | Some n => aset n (xget "type" a, attr_values a) acc
                          | None => acc
                          end) (findall "Attribute" e) [].

(* does the document have groups (DMRParser.Groups): findall("Group") on the root *)
Definition has_groups (root : xml) : bool := match findall "Group" root with [] => false | _ => true end.

(* split of a dimension / variable name on "/" *)
Definition parts (s : chars) : list chars := split_on [slash] s.

(* the arguments of createVariable for one entry of `variables` *)
Record varrec := mkVar {
  v_name : chars;                 (* _quote(fully qualified name) *)
  v_tag : chars;                  (* element tag = DAP4 type *)
  v_shape : list nat;
  v_dims : list chars;            (* Dims: fully qualified *)
  v_maps : list (option chars);
  v_path : option chars;          (* attributes["path"] *)
  v_attrs : list (chars * (option chars * list (option chars)));
  v_parent : chars }.

Definition join_slash (ps : list chars) : chars :=
  (fix go (l : list chars) : chars := match l with [] => [] | [x] => x | x :: r => x ++ slash :: go r end) ps.

Definition mk_var (groups : bool) (named : list (chars * nat)) (entry : ventry) : option varrec :=
  let '(name, (e, parent)) := entry in
  do shape <- resolve_shape named (findall "Dim" e);
  let dims := get_dim_names e in
  (* without groups split_by is None: str.split() on white space; names are free of white space there *)
  let np := if groups then parts name else [name] in
  let path := match np with _ :: _ :: _ => Some (join_slash (removelast np)) | _ => None end in
  let Dims := map (fun d => match (if groups then parts d else [d]) with [_] => slash :: d | _ => d end) dims in
  Some (mkVar (quote name) (xtag e) shape Dims (get_maps e) path (get_attributes e) parent).

Fixpoint omap_list {A B} (f : A -> option B) (l : list A) : option (list B) :=
  match l with [] => Some [] | x :: r => do y <- f x; do ys <- omap_list f r; Some (y :: ys) end.

(* dmr_to_dataset up to the createVariable / createSequence / createStructure calls *)
Definition parse_dmr (root : xml) : option (list varrec) :=
  do named <- get_named_dimensions root [];
  omap_list (mk_var (has_groups root) named) (get_variables root []).
