(* L4: DAP4 data responses.  SPEC: the chunked wire format (DAP4 vol.1 sec. 6-7) for atomic numeric
   variables; MODEL: UNPACKDAP4DATA.safe_dmr_and_data, decode_chunktype (little-endian host branch),
   stream2bytearray, unpack_dap4_data / decode_variable / get_count of pydap.handlers.dap. *)
From PydapV Require Export Base Words.
Open Scope nat_scope.

Definition bytes := list ascii.

Inductive ty4 := T_I8 | T_U8 | T_I16 | T_U16 | T_I32 | T_U32 | T_I64 | T_U64 | T_F32 | T_F64.
Definition width (t : ty4) : nat :=
  match t with T_I8 | T_U8 => 1 | T_I16 | T_U16 => 2 | T_I32 | T_U32 | T_F32 => 4 | T_I64 | T_U64 | T_F64 => 8 end.
Definition is_float (t : ty4) : bool := match t with T_F32 | T_F64 => true | _ => false end.
Definition is_signed (t : ty4) : bool := match t with T_I8 | T_I16 | T_I32 | T_I64 => true | _ => false end.

(* integers as Z, floating point numbers as their IEEE-754 bit pattern *)
Inductive value := VInt (z : Z) | VBits (n : N).

Definition in_range (t : ty4) (v : value) : Prop :=
  match v with
  | VInt z => is_float t = false /\
              if is_signed t then (- 2 ^ (8 * Z.of_nat (width t) - 1) <= z < 2 ^ (8 * Z.of_nat (width t) - 1))%Z
              else (0 <= z < 2 ^ (8 * Z.of_nat (width t)))%Z
  | VBits n => is_float t = true /\ (n < 256 ^ N.of_nat (width t))%N
  end.

Record var4 := mkVar { vty : ty4; vcount : nat }.     (* vcount = product of the shape *)

(* ------------------------------------------------------------------ SPEC (reference server) *)
Definition enc_elem (little : bool) (t : ty4) (v : value) : bytes :=
  match v with
  | VInt z => enc little (width t) (to_unsigned (width t) z)
  | VBits n => enc little (width t) n
  end.

Definition flags_of (little last : bool) : N := ((if last then 1 else 0) + (if little then 4 else 0))%N.
(* chunk header: one byte of flags, 24-bit big-endian size *)
Definition chunk (flags : N) (payload : bytes) : bytes :=
  byte_of flags :: be_enc 3 (N.of_nat (List.length payload)) ++ payload.

Fixpoint data_chunks (little : bool) (parts : list bytes) : bytes :=
  match parts with
  | [] => []
  | [p] => chunk (flags_of little true) p
  | p :: ps => chunk (flags_of little false) p ++ data_chunks little ps
  end.

(* per variable, in walk order: the elements followed by a 4-byte checksum *)
Fixpoint payload (little : bool) (vars : list (var4 * list value * bytes)) : bytes :=
  match vars with
  | [] => []
  | (v, vals, cks) :: r => flat_map (enc_elem little (vty v)) vals ++ cks ++ payload little r
  end.

Definition response (little : bool) (dmr : bytes) (parts : list bytes) : bytes :=
  chunk (flags_of little false) dmr ++ data_chunks little parts.

(* ------------------------------------------------------------------ MODEL (pydap client) *)
(* chunk_header & 0x00FFFFFF ; (chunk_header >> 24) & 0xFF  of a big-endian u4 *)
Definition header_of (h : bytes) : option (N * nat) :=
  match h with
  | [t; b1; b2; b3] => Some (val_of t, N.to_nat (be_dec [b1; b2; b3]))
  | _ => None                                   (* numpy.frombuffer on fewer than 4 bytes *)
  end.
(* decode_chunktype on a little-endian host: (last, error, little-endian data) *)
Definition chunk_last (t : N) : bool := N.testbit t 0.
Definition chunk_little (t : N) : bool := N.testbit t 2.

(* stream2bytearray: slices are lenient (a short chunk is taken as it is) *)
Fixpoint s2b (fuel : nat) (data : bytes) : option bytes :=
  match fuel with
  | O => Some []
  | S fuel' =>
    match data with
    | [] => Some []                               (* while offset < len(data) *)
    | _ =>
      match header_of (firstn 4 data) with
      | None => None
      | Some (t, size) =>
          let body := skipn 4 data in
          let piece := firstn size body in
          if chunk_last t then Some piece
          else match s2b fuel' (skipn size body) with
               | None => None
               | Some rest => Some (piece ++ rest)
               end
      end
    end
  end.
Definition stream2bytearray (data : bytes) : option bytes := s2b (S (List.length data)) data.

Fixpoint pieces (w n : nat) (l : bytes) : list bytes :=
  match n with O => [] | S n' => firstn w l :: pieces w n' (skipn w l) end.

Definition dec_elem (little : bool) (t : ty4) (b : bytes) : value :=
  let x := dec little b in
  if is_float t then VBits x
  else if is_signed t then VInt (to_signed (width t) x) else VInt (Z.of_N x).

(* unpack_dap4_data: numpy.frombuffer(buffer[start:stop]).reshape(shape) fails unless the slice has
   exactly count bytes; numpy.frombuffer of the checksum slice buffer[stop:stop+4] fails unless it has 0 or 4 bytes *)
Fixpoint decode_vars (little : bool) (buf : bytes) (vars : list var4) : option (list (list value)) :=
  match vars with
  | [] => Some []
  | v :: vs =>
      let cnt := vcount v * width (vty v) in
      let slice := firstn cnt buf in
      let cks := List.length (firstn 4 (skipn cnt buf)) in
      if (List.length slice =? cnt) && ((cks =? 0) || (cks =? 4)) then
        match decode_vars little (skipn (cnt + 4) buf) vs with
        | None => None
        | Some r => Some (map (dec_elem little (vty v)) (pieces (width (vty v)) (vcount v) slice) :: r)
        end
      else None
  end.

(* safe_dmr_and_data + unpack_dap4_data.  A DMR cut short is assumed not to parse (strict take). *)
Definition unpack_dap4 (raw : bytes) (vars : list var4) : option (bool * bytes * list (list value)) :=
  match header_of (firstn 4 raw) with
  | None => None
  | Some (t, dmr_len) =>
      match take dmr_len (skipn 4 raw) with
      | None => None
      | Some (dmr, data) =>
          match stream2bytearray data with
          | None => None
          | Some buf =>
              match decode_vars (chunk_little t) buf vars with
              | None => None
              | Some vals => Some (chunk_little t, dmr, vals)
              end
          end
      end
  end.
