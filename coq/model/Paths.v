(* L5: the directory server (pydap.wsgi.app.DapServer.__call__ / index) over an abstract file system.
   Paths are absolute and kept as lists of components ("/a/b" = [a; b]). *)
From PydapV Require Export Base.
Open Scope nat_scope.

Definition name := chars.
Definition path := list name.

Fixpoint chars_eqb (a b : chars) : bool :=
  match a, b with
  | [], [] => true
  | x :: a', y :: b' => Ascii.eqb x y && chars_eqb a' b'
  | _, _ => false
  end.
Fixpoint path_eqb (a b : path) : bool :=
  match a, b with
  | [], [] => true
  | x :: a', y :: b' => chars_eqb x y && path_eqb a' b'
  | _, _ => false
  end.

(* os.path.abspath(os.path.join(root, *path_info.split("/"))) for an absolute, normalised root:
   empty and "." components vanish, ".." pops (never above "/") *)
Fixpoint norm (stack : path) (comps : list name) : path :=
  match comps with
  | [] => stack
  | c :: r =>
      if chars_eqb c [] || chars_eqb c ["."%char] then norm stack r
      else if chars_eqb c ["."%char; "."%char] then norm (removelast stack) r
      else norm (stack ++ [c]) r
  end.
Definition resolve (root : path) (path_info : chars) : path := norm root (split_on ["/"%char] path_info).

(* os.path.commonpath([root, p]) == root *)
Fixpoint is_prefix (root p : path) : bool :=
  match root, p with
  | [], _ => true
  | r :: root', c :: p' => chars_eqb r c && is_prefix root' p'
  | _ :: _, [] => false
  end.

Definition suffixb (suf s : chars) : bool := prefixb (rev suf) (rev s).
Definition catalog_xml : chars := s2l "catalog.xml".

(* os.path.splitext on the last component: the extension starts at the last dot that is preceded,
   within the component, by at least one character that is not a dot *)
Fixpoint split_last_dot (s : chars) : option (chars * chars) :=
  match s with
  | [] => None
  | c :: t =>
      match split_last_dot t with
      | Some (b, e) => Some (c :: b, e)
      | None => if Ascii.eqb c "."%char then Some ([], s) else None
      end
  end.
Definition all_dots (s : chars) : bool := forallb (fun c => Ascii.eqb c "."%char) s.
Definition splitext_name (s : chars) : chars * chars :=
  match split_last_dot s with
  | Some (b, e) => if all_dots b then (s, []) else (b, e)
  | None => (s, [])
  end.
Definition splitext (p : path) : path * chars :=
  match rev p with
  | [] => ([], [])
  | l :: r => let '(b, e) := splitext_name l in (rev r ++ [b], e)
  end.

(* ---- abstract file system ---- *)
Inductive entry := File (content : N) | Dir.
Definition fsys := list (path * entry).

Fixpoint lookup_fs (fs : fsys) (p : path) : option entry :=
  match fs with
  | [] => None
  | (q, e) :: r => if path_eqb q p then Some e else lookup_fs r p
  end.
Definition exists_ (fs : fsys) p := match lookup_fs fs p with Some _ => true | None => false end.
Definition isdir (fs : fsys) p := match lookup_fs fs p with Some Dir => true | _ => false end.
Definition isfile (fs : fsys) p := match lookup_fs fs p with Some (File _) => true | _ => false end.
(* os.listdir: names of the entries whose parent is dir *)
Definition listdir (fs : fsys) (dir : path) : list name :=
  flat_map (fun qe => match rev (fst qe) with
                      | n :: parent => if path_eqb (rev parent) dir then [n] else []
                      | [] => []
                      end) fs.

Inductive access := Stat (p : path) | ListDir (p : path) | Open (p : path).
Definition access_path (a : access) : path := match a with Stat p | ListDir p | Open p => p end.

Inductive outcome :=
| Forbidden | NotFound
| FileVerbatim (p : path)
| Listing (dir : path) (names : list name)
| Catalog (dir : path) (names : list name)
| Dap (base : path) (ext : chars)
| Unsupported (base : path).

Definition index_accesses (fs : fsys) (dir : path) : list access :=
  ListDir dir :: map (fun n => Stat (dir ++ [n])) (listdir fs dir).

(* supported(filepath): some handler's extension pattern matches *)
Definition supported (exts : list chars) (p : path) : bool :=
  existsb (fun e => suffixb e (last p [])) exts.

Definition route (exts : list chars) (fs : fsys) (root : path) (path_info : chars) : outcome * list access :=
  let p := resolve root path_info in
  if negb (is_prefix root p) then (Forbidden, [])
  else if chars_eqb (last p []) catalog_xml && is_prefix root (removelast p) then    (* (the catalog OF a directory inside) *)
    let dir := removelast p in
    if isdir fs dir then (Catalog dir (listdir fs dir), Stat dir :: index_accesses fs dir)
    else (NotFound, [Stat dir])
  else if exists_ fs p then
    if isdir fs p then (Listing p (listdir fs p), Stat p :: index_accesses fs p)
    else (FileVerbatim p, [Stat p; Open p])
  else
    let '(base, ext) := splitext p in
    if isfile fs base then
      if supported exts base then (Dap base ext, [Stat p; Stat base; Open base])
      else (Unsupported base, [Stat p; Stat base])
    else (NotFound, [Stat p; Stat base]).

(* the check before the fix: string prefix on "/"-joined paths (kept to document the defect) *)
Fixpoint path_string (p : path) : chars :=
  match p with [] => [] | c :: r => "/"%char :: c ++ path_string r end.
Definition string_startswith (root p : path) : bool := prefixb (path_string root) (path_string p).
