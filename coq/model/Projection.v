(* L5c: the hyperslab-application loop of pydap.handlers.lib.apply_projection, on variables with one sliced axis
   (a rank-1 array, or the record axis of a sequence).
   A projection is a list of mentions (variable, optional hyperslab [lo:st:hi], hi exclusive).  The loop walks the mentions in
   order; a hyperslab is checked (check_hyperslab: 0 <= lo < hi, 1 <= step, and lo inside the CURRENT extent for arrays) and applied
   to what the earlier mentions left of the variable - but a (variable, hyperslab) pair that was applied already is skipped:
   the same hyperslab given again for the same variable is one hyperslab.  A variable's state is the list of SOURCE positions
   it still holds. *)
From PydapV Require Export Base Slices IterData.
Open Scope Z_scope.

Record slab := mkSlab { lo : Z; hi : Z; sstep : Z }.
Definition slab_eqb (a b : slab) : bool := (lo a =? lo b) && (hi a =? hi b) && (sstep a =? sstep b).
Definition mention := (cname * option slab)%type.
Definition pair_eqb (a b : cname * slab) : bool := String.eqb (fst a) (fst b) && slab_eqb (snd a) (snd b).
Definition mem (x : cname * slab) (l : list (cname * slab)) : bool := existsb (pair_eqb x) l.

Definition take_slab (s : slab) (l : list Z) : list Z := islice (mkSlice (Some (lo s)) (Some (hi s)) (Some (sstep s))) l.

(* check_hyperslab: [bounded] = the variable has a shape (arrays), so the start must lie inside the current extent *)
Definition slab_ok (bounded : bool) (n : Z) (s : slab) : bool :=
  (0 <=? lo s) && (lo s <? hi s) && (1 <=? sstep s) && (negb bounded || (lo s <? n)).

Definition pstate := list (cname * list Z).
Fixpoint plookup (v : cname) (st : pstate) : option (list Z) :=
  match st with
  | [] => None
  | (k, l) :: r => if String.eqb v k then Some l else plookup v r
  end.
Fixpoint pupdate (v : cname) (l : list Z) (st : pstate) : pstate :=
  match st with
  | [] => []
  | (k, l0) :: r => if String.eqb v k then (k, l) :: r else (k, l0) :: pupdate v l r
  end.

Fixpoint run (bounded : cname -> bool) (applied : list (cname * slab)) (st : pstate) (items : list mention) : option pstate :=
  match items with
  | [] => Some st
  | (v, None) :: r => match plookup v st with Some _ => run bounded applied st r | None => None end
  | (v, Some s) :: r =>
      match plookup v st with
      | None => None
      | Some cur =>
          if mem (v, s) applied then run bounded applied st r
          else if slab_ok (bounded v) (Z.of_nat (List.length cur)) s
               then run bounded ((v, s) :: applied) (pupdate v (take_slab s cur) st) r
               else None
      end
  end.
