(* Checkers for the C09 / C10 correspondence. *)
From PydapV Require Export Base Words Readers Dap4.
Open Scope nat_scope.

Definition B (l : list N) : list ascii := map ascii_of_N l.

Fixpoint beqb (a b : list ascii) : bool :=
  match a, b with
  | [], [] => true
  | x :: a', y :: b' => Ascii.eqb x y && beqb a' b'
  | _, _ => false
  end.
Fixpoint lbeqb {A} (f : A -> A -> bool) (a b : list A) : bool :=
  match a, b with
  | [], [] => true
  | x :: a', y :: b' => f x y && lbeqb f a' b'
  | _, _ => false
  end.
Definition obeqb {A} (f : A -> A -> bool) (a b : option A) : bool :=
  match a, b with None, None => true | Some x, Some y => f x y | _, _ => false end.

(* StreamReader: (chunks, read sizes, implementation result (None = raised)) *)
Definition chk_sreads (c : list (list N) * list nat * option (list (list N))) : bool :=
  let '(chunks, ns, r) := c in
  obeqb (lbeqb beqb) (sreads (mkS [] (map B chunks)) ns) (option_map (map B) r).
Definition chk_breads (c : list N * list nat * option (list (list N))) : bool :=
  let '(data, ns, r) := c in obeqb (lbeqb beqb) (breads (B data) ns) (option_map (map B) r).
(* find_pattern_in_string_iter: (pattern, chunks, implementation result (rest, remaining chunks)) *)
Definition chk_find (c : list N * list (list N) * option (list N * list (list N))) : bool :=
  let '(p, chunks, r) := c in
  obeqb (fun x y => beqb (fst x) (fst y) && lbeqb beqb (snd x) (snd y))
        (find_pattern_in_string_iter (B p) (map B chunks))
        (option_map (fun x => (B (fst x), map B (snd x))) r).

(* DAP4 *)
Definition value_eqb (a b : value) : bool :=
  match a, b with VInt x, VInt y => Z.eqb x y | VBits x, VBits y => N.eqb x y | _, _ => false end.
(* (raw response, declared variables, implementation result: (little-endian?, values per variable)) *)
Definition chk_dap4 (c : list N * list var4 * option (bool * list (list value))) : bool :=
  let '(raw, vars, r) := c in
  obeqb (fun x y => Bool.eqb (fst x) (fst y) && lbeqb (lbeqb value_eqb) (snd x) (snd y))
        (option_map (fun x => (fst (fst x), snd x)) (unpack_dap4 (B raw) vars)) r.
(* SPEC encoder = the harness's reference DAP4 server: (little, dmr, variables with values+checksums,
   partition sizes, the bytes the reference server produced) *)
Fixpoint split_sizes (sizes : list nat) (l : bytes) : list bytes :=
  match sizes with [] => [l] | n :: r => firstn n l :: split_sizes r (skipn n l) end.
Definition chk_spec4 (c : bool * list N * list (var4 * list value * list N) * list nat * list N) : bool :=
  let '(little, dmr, vars, sizes, raw) := c in
  let vars' := map (fun x => (fst (fst x), snd (fst x), B (snd x))) vars in
  beqb (response little (B dmr) (split_sizes sizes (payload little vars'))) (B raw).
