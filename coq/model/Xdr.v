(* L4: DAP2 data responses.
   SPEC  xdr        : the DAP2/XDR encoding of a value of a declared type (DAP2 spec sec. 7 + XDR).
   MODEL dods       : pydap.responses.dods (_basetype, _structuretype, _sequencetype with its packed
                      fast path for flat sequences and the per-child path for nested ones).
   MODEL unpack     : pydap.handlers.dap (unpack_children, unpack_sequence with its fixed-size fast
                      path, convert_stream_to_list).
   Grids and the dataset itself are structures (array then maps; children in order). *)
From PydapV Require Export Base Words.
Open Scope nat_scope.

Definition bytes := list ascii.

Inductive dty := TByte | TInt16 | TUInt16 | TInt32 | TUInt32 | TFloat32 | TFloat64 | TString.
Inductive scalar := SInt (z : Z) | SBits (n : N) | SStr (s : bytes).
(* arr = None: a scalar; Some n: an array with n elements (the product of its shape) *)
Inductive decl := DBase (t : dty) (arr : option nat) | DStruct (ms : list decl) | DSeq (cols : list decl).
Inductive val := VBase (xs : list scalar) | VStruct (vs : list val) | VSeq (rows : list (list val)).

Definition START : bytes := [ascii_of_N 90; zero; zero; zero]%char.    (* 5a 00 00 00 *)
Definition ENDM : bytes := [ascii_of_N 165; zero; zero; zero]%char.    (* a5 00 00 00 *)

Definition be32 (n : nat) : bytes := be_enc 4 (N.of_nat n).
Definition pad4 (n : nat) : bytes := repeat zero ((4 - n mod 4) mod 4).

Fixpoint beqb (a b : bytes) : bool :=
  match a, b with
  | [], [] => true
  | x :: a', y :: b' => Ascii.eqb x y && beqb a' b'
  | _, _ => false
  end.

(* ------------------------------------------------------------------ SPEC *)
(* one element, without the padding a Byte gets when it stands alone *)
Definition atom (t : dty) (x : scalar) : option bytes :=
  match t, x with
  | TByte, SInt z => Some [byte_of (Z.to_N z)]
  | TInt16, SInt z | TInt32, SInt z => Some (be_enc 4 (to_unsigned 4 z))
  | TUInt16, SInt z | TUInt32, SInt z => Some (be_enc 4 (Z.to_N z))
  | TFloat32, SBits n => Some (be_enc 4 n)
  | TFloat64, SBits n => Some (be_enc 8 n)
  | TString, SStr s => Some (be32 (List.length s) ++ s ++ pad4 (List.length s))
  | _, _ => None
  end.

Definition is_byte (t : dty) : bool := match t with TByte => true | _ => false end.
Definition is_string (t : dty) : bool := match t with TString => true | _ => false end.

Definition xdr_base (t : dty) (arr : option nat) (xs : list scalar) : option bytes :=
  match arr with
  | None =>
      match xs with
      | [x] => do a <- atom t x; Some (a ++ if is_byte t then [zero; zero; zero]%char else [])
      | _ => None
      end
  | Some n =>
      if List.length xs =? n then
        do body <- omap (atom t) xs;
        Some (be32 n ++ (if is_string t then [] else be32 n) ++ List.concat body ++ if is_byte t then pad4 n else [])
      else None
  end.

Section XdrList.
  Variable f : decl -> val -> option bytes.
  Fixpoint xdr_list (ds : list decl) (vs : list val) : option bytes :=
    match ds, vs with
    | [], [] => Some []
    | d :: ds', v :: vs' => do a <- f d v; do b <- xdr_list ds' vs'; Some (a ++ b)
    | _, _ => None
    end.
  Fixpoint xdr_rows (cols : list decl) (rows : list (list val)) : option bytes :=
    match rows with
    | [] => Some ENDM
    | r :: rs => do a <- xdr_list cols r; do b <- xdr_rows cols rs; Some (START ++ a ++ b)
    end.
End XdrList.

Fixpoint xdr (d : decl) (v : val) {struct d} : option bytes :=
  match d, v with
  | DBase t arr, VBase xs => xdr_base t arr xs
  | DStruct ms, VStruct vs =>
      (fix go (ds : list decl) (vs : list val) : option bytes :=
         match ds, vs with
         | [], [] => Some []
         | d' :: ds', v' :: vs' => do a <- xdr d' v'; do b <- go ds' vs'; Some (a ++ b)
         | _, _ => None
         end) ms vs
  | DSeq cols, VSeq rows =>
      (fix rows_go (rows : list (list val)) : option bytes :=
         match rows with
         | [] => Some ENDM
         | r :: rs =>
             do a <- (fix go (ds : list decl) (vs : list val) : option bytes :=
                        match ds, vs with
                        | [], [] => Some []
                        | d' :: ds', v' :: vs' => do a <- xdr d' v'; do b <- go ds' vs'; Some (a ++ b)
                        | _, _ => None
                        end) cols r;
             do b <- rows_go rs; Some (START ++ a ++ b)
         end) rows
  | _, _ => None
  end.

(* ------------------------------------------------------------------ MODEL: encoder *)
(* _sequencetype, flat case: every record is packed through one numpy record dtype: big-endian
   4/8-byte numbers, a Byte as '|S4' (value + 3 NULs), a string as length word + '|S<4n>' *)
Definition pack_cell (d : decl) (v : val) : option bytes :=
  match d, v with
  | DBase t None, VBase [x] =>
      match t, x with
      | TByte, SInt z => Some (byte_of (Z.to_N z) :: [zero; zero; zero]%char)
      | TString, SStr s => Some (be32 (List.length s) ++ s ++ repeat zero ((List.length s + (4 - List.length s mod 4) mod 4) - List.length s))
      | _, _ => atom t x
      end
  | _, _ => None
  end.
Fixpoint pack_record (cols : list decl) (row : list val) : option bytes :=
  match cols, row with
  | [], [] => Some []
  | d :: cols', v :: row' => do a <- pack_cell d v; do b <- pack_record cols' row'; Some (a ++ b)
  | _, _ => None
  end.
Definition is_flat (cols : list decl) : bool :=
  forallb (fun d => match d with DBase _ None => true | _ => false end) cols.

Fixpoint dods (d : decl) (v : val) {struct d} : option bytes :=
  match d, v with
  | DBase t arr, VBase xs => xdr_base t arr xs                       (* _basetype *)
  | DStruct ms, VStruct vs =>                                           (* _structuretype *)
      (fix go (ds : list decl) (vs : list val) : option bytes :=
         match ds, vs with
         | [], [] => Some []
         | d' :: ds', v' :: vs' => do a <- dods d' v'; do b <- go ds' vs'; Some (a ++ b)
         | _, _ => None
         end) ms vs
  | DSeq cols, VSeq rows =>                                             (* _sequencetype *)
      if is_flat cols then
        (fix rows_go (rows : list (list val)) : option bytes :=
           match rows with
           | [] => Some ENDM
           | r :: rs => do a <- pack_record cols r; do b <- rows_go rs; Some (START ++ a ++ b)
           end) rows
      else
        (fix rows_go (rows : list (list val)) : option bytes :=
           match rows with
           | [] => Some ENDM
           | r :: rs =>
               do a <- (fix go (ds : list decl) (vs : list val) : option bytes :=
                          match ds, vs with
                          | [], [] => Some []
                          | d' :: ds', v' :: vs' => do a <- dods d' v'; do b <- go ds' vs'; Some (a ++ b)
                          | _, _ => None
                          end) cols r;
               do b <- rows_go rs; Some (START ++ a ++ b)
           end) rows
  | _, _ => None
  end.

(* ------------------------------------------------------------------ MODEL: decoder *)
(* a length word; [None] also when it announces more than the stream can hold (the strict reader
   then fails anyway) - this keeps the unary numbers of the model small *)
Definition rd32 (s : bytes) : option (nat * bytes) :=
  do p <- take 4 s;
  let k := be_dec (fst p) in
  if (N.of_nat (List.length (snd p)) <? k)%N then None else Some (N.to_nat k, snd p).

(* numpy.frombuffer(...).astype(parser dtype): Int16/UInt16 arrive as 32 bits and are narrowed *)
Definition dec_num (t : dty) (b : bytes) : scalar :=
  let x := be_dec b in
  match t with
  | TByte => SInt (Z.of_N x)
  | TInt16 => SInt (to_signed 2 (x mod 65536)%N)
  | TUInt16 => SInt (Z.of_N (x mod 65536)%N)
  | TInt32 => SInt (to_signed 4 x)
  | TUInt32 => SInt (Z.of_N x)
  | TFloat32 | TFloat64 => SBits x
  | TString => SStr b
  end.
Definition wire_width (t : dty) : nat := match t with TByte => 1 | TFloat64 => 8 | _ => 4 end.

(* one string: length word (a signed '>i'), the characters, the padding *)
Definition dec_string (s : bytes) : option (scalar * bytes) :=
  do p <- rd32 s;
  let '(k, s1) := p in
  do q <- take k s1; do r <- take ((4 - k mod 4) mod 4) (snd q); Some (SStr (fst q), snd r).

Fixpoint dec_strings (n : nat) (s : bytes) : option (list scalar * bytes) :=
  match n with
  | O => Some ([], s)
  | S n' => do p <- dec_string s; do q <- dec_strings n' (snd p); Some (fst p :: fst q, snd q)
  end.

Fixpoint pieces (w n : nat) (l : bytes) : list bytes :=
  match n with O => [] | S n' => firstn w l :: pieces w n' (skipn w l) end.

(* convert_stream_to_list *)
Definition dec_base (t : dty) (arr : option nat) (s : bytes) : option (list scalar * bytes) :=
  match arr with
  | Some expected =>
      do p <- rd32 s;
      let '(n, s1) := p in
      if is_string t then
        do q <- dec_strings n s1;
        if List.length (fst q) =? expected then Some q else None          (* .reshape(shape) *)
      else
        do s2 <- take 4 s1;                                                (* the second length word *)
        do q <- take (wire_width t * n) (snd s2);
        if n =? expected then
          let xs := map (dec_num t) (pieces (wire_width t) n (fst q)) in
          if is_byte t then do r <- take ((4 - n mod 4) mod 4) (snd q); Some (xs, snd r)
          else Some (xs, snd q)
        else None
  | None =>
      if is_string t then do p <- dec_string s; Some ([fst p], snd p)
      else
        do q <- take (wire_width t) s;
        if is_byte t then do r <- take 3 (snd q); Some ([dec_num t (fst q)], snd r)
        else Some ([dec_num t (fst q)], snd q)
  end.

(* unpack_sequence fast path: all columns are non-string scalars; fixed record width *)
Definition is_simple (cols : list decl) : bool :=
  forallb (fun d => match d with DBase t None => negb (is_string t) | _ => false end) cols.
Definition cell_width (d : decl) : nat :=
  match d with DBase t None => if is_byte t then 4 else wire_width t | _ => 0 end.
Fixpoint unpack_fixed (cols : list decl) (s : bytes) : list val :=
  match cols with
  | [] => []
  | d :: cols' =>
      match d with
      | DBase t None => VBase [dec_num t (firstn (wire_width t) s)] :: unpack_fixed cols' (skipn (cell_width d) s)
      | _ => []
      end
  end.
Definition record_width (cols : list decl) : nat := fold_right (fun d a => cell_width d + a) 0 cols.

Fixpoint unpack (d : decl) (s : bytes) {struct d} : option (val * bytes) :=
  match d with
  | DBase t arr => do p <- dec_base t arr s; Some (VBase (fst p), snd p)
  | DStruct ms =>
      do p <- (fix go (ds : list decl) (s : bytes) : option (list val * bytes) :=
                 match ds with
                 | [] => Some ([], s)
                 | d' :: ds' => do a <- unpack d' s; do b <- go ds' (snd a); Some (fst a :: fst b, snd b)
                 end) ms s;
      Some (VStruct (fst p), snd p)
  | DSeq cols =>
      do p <- (fix loop (n : nat) (s : bytes) : option (list (list val) * bytes) :=
                 match n with
                 | O => None
                 | S n' =>
                     do m <- take 4 s;
                     if beqb (fst m) START then
                       do row <- (if is_simple cols then
                                    do q <- take (record_width cols) (snd m); Some (unpack_fixed cols (fst q), snd q)
                                  else
                                    (fix go (ds : list decl) (s : bytes) : option (list val * bytes) :=
                                       match ds with
                                       | [] => Some ([], s)
                                       | d' :: ds' => do a <- unpack d' s; do b <- go ds' (snd a); Some (fst a :: fst b, snd b)
                                       end) cols (snd m));
                       do rest <- loop n' (snd row); Some (fst row :: fst rest, snd rest)
                     else Some ([], snd m)                   (* any other marker ends the sequence *)
                 end) (S (List.length s)) s;
      Some (VSeq (fst p), snd p)
  end.
