From PydapV Require Export Base Paths.
Open Scope nat_scope.
Definition B (l : list N) : chars := map ascii_of_N l.
Definition P (l : list (list N)) : path := map B l.
Fixpoint names_eqb (a b : list name) : bool :=
  match a, b with [], [] => true | x :: a', y :: b' => chars_eqb x y && names_eqb a' b' | _, _ => false end.
(* observed outcome: class tag, path, names (sorted by the harness on both sides), extension *)
Definition outcome_eqb (a b : outcome) : bool :=
  match a, b with
  | Forbidden, Forbidden | NotFound, NotFound => true
  | FileVerbatim p, FileVerbatim q => path_eqb p q
  | Listing d n, Listing e m | Catalog d n, Catalog e m => path_eqb d e && names_eqb n m
  | Dap b x, Dap c y => path_eqb b c && chars_eqb x y
  | Unsupported b, Unsupported c => path_eqb b c
  | _, _ => false
  end.
Definition mkfs (l : list (list (list N) * option N)) : fsys :=
  map (fun x => (P (fst x), match snd x with Some c => File c | None => Dir end)) l.
(* (extensions, fs, root, decoded path_info, observed outcome) *)
Definition chk_route (c : list (list N) * list (list (list N) * option N) * list (list N) * list N * outcome) : bool :=
  let '(exts, fs, root, pinfo, obs) := c in
  outcome_eqb (fst (route (map B exts) (mkfs fs) (P root) (B pinfo))) obs.
(* os.path.abspath(join(root, *split)) and os.path.splitext against the model *)
Definition chk_resolve (c : list (list N) * list N * list (list N)) : bool :=
  let '(root, pinfo, r) := c in path_eqb (resolve (P root) (B pinfo)) (P r).
Definition chk_splitext (c : list N * list N * list N) : bool :=
  let '(s, b, e) := c in let '(b', e') := splitext_name (B s) in chars_eqb b' (B b) && chars_eqb e' (B e).
