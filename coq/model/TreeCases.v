(* Checkers for the C12 correspondence. *)
From PydapV Require Export Base Quote Tree.
Open Scope nat_scope.

Definition kind_eqb (a b : kind) : bool :=
  match a, b with
  | KStructure, KStructure | KSequence, KSequence | KGrid, KGrid | KDataset, KDataset => true
  | _, _ => false
  end.
Fixpoint leqb {A} (f : A -> A -> bool) (a b : list A) : bool :=
  match a, b with
  | [], [] => true
  | x :: a', y :: b' => f x y && leqb f a' b'
  | _, _ => false
  end.
Definition attr_eqb (a b : chars * N) : bool := chars_eqb' (fst a) (fst b) && N.eqb (snd a) (snd b).

(* [ids]: compare the ids too.  Below a HIDDEN child (one that a sub-selection left in the dictionary but no longer lists) ids are
   not compared: the property speaks of the children a container lists, and pydap leaves the ids of unlisted children as they
   were when an ancestor is inserted elsewhere. *)
Definition memb (k : chars) (l : list chars) : bool := existsb (chars_eqb' k) l.
Fixpoint node_eqb_gen (fuel : nat) (ids : bool) (a b : node) : bool :=
  match fuel with
  | O => false
  | S f =>
    match a, b with
    | NBase n1 i1 a1 d1, NBase n2 i2 a2 d2 =>
        chars_eqb' n1 n2 && (negb ids || leqb chars_eqb' i1 i2) && leqb attr_eqb a1 a2 && N.eqb d1 d2
    | NStruct k1 n1 i1 a1 ks1 v1, NStruct k2 n2 i2 a2 ks2 v2 =>
        kind_eqb k1 k2 && chars_eqb' n1 n2 && (negb ids || leqb chars_eqb' i1 i2) && leqb attr_eqb a1 a2 &&
        leqb (fun x y => node_eqb_gen f (ids && memb (nname x) v1) x y) ks1 ks2 && leqb chars_eqb' v1 v2
    | _, _ => false
    end
  end.
Definition node_eqb (fuel : nat) (a b : node) : bool := node_eqb_gen fuel true a b.
Definition nodes_eqb (a b : list node) : bool := leqb (fun x y => node_eqb (S (depth x)) x y) a b.

(* (initial roots, [(op, observed roots after op)]) : every intermediate state must agree *)
Fixpoint chk_hist (st : list node) (h : list (op * list node)) : bool :=
  match h with
  | [] => true
  | (o, obs) :: r => let st' := step st o in nodes_eqb st' obs && chk_hist st' r
  end.
Definition chk_tree (c : list node * list (op * list node)) : bool := chk_hist (fst c) (snd c).

(* quoting: (raw utf-8 bytes, implementation's quoted text) and (text, implementation's unquoted bytes) *)
Definition chk_quote (c : chars * chars) : bool := chars_eqb' (quote (fst c)) (snd c).
Definition chk_unquote (c : chars * chars) : bool := chars_eqb' (unquote (fst c)) (snd c).
