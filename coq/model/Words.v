(* L0/L4: fixed-width integers as byte strings, big- and little-endian.  bytes = list ascii. *)
From PydapV Require Export Base.
Open Scope N_scope.

Definition byte_of (x : N) : ascii := ascii_of_N (x mod 256).
Definition val_of (a : ascii) : N := N_of_ascii a.

(* w-byte big-endian encoding of x (the low 8w bits) *)
Fixpoint be_enc (w : nat) (x : N) : list ascii :=
  match w with
  | O => []
  | S w' => byte_of (x / 256 ^ N.of_nat w') :: be_enc w' x
  end.
Definition be_dec (l : list ascii) : N := fold_left (fun acc b => acc * 256 + val_of b) l 0.
Definition le_enc (w : nat) (x : N) : list ascii := rev (be_enc w x).
Definition le_dec (l : list ascii) : N := be_dec (rev l).

Definition enc (little : bool) (w : nat) (x : N) := if little then le_enc w x else be_enc w x.
Definition dec (little : bool) (l : list ascii) := if little then le_dec l else be_dec l.

(* two's complement *)
Definition to_unsigned (w : nat) (z : Z) : N := Z.to_N (z mod 2 ^ (8 * Z.of_nat w)).
Definition to_signed (w : nat) (x : N) : Z :=
  let m := (2 ^ (8 * Z.of_nat w))%Z in
  if (Z.of_N x <? m / 2)%Z then Z.of_N x else (Z.of_N x - m)%Z.

(* take n bytes or fail (used by decoders that must not accept short input) *)
Definition take (n : nat) (l : list ascii) : option (list ascii * list ascii) :=
  if (n <=? List.length l)%nat then Some (firstn n l, skipn n l) else None.
