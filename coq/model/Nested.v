(* L5b: lazy row streams (pydap.handlers.lib.IterData) over a table with ONE nested sequence column.
   Values are trees: a source row is  TN [TL id; TN [TN [TL x; TL y]; ...]; TL z]  (the sequence cell holds its inner rows).
   A stream is (source rows, outer filters, inner filters, projection maps, slices, mode).  Iteration (IterData.__iter__):
     - the outer filters select source rows (itertools.filter on the rows of the stream),
     - the maps run in list order: first the maps of the inner-column filters (they rewrite the sequence cell of the SOURCE row,
       build_filter / recurse), then the maps of column and child selections (deep_map at the depth of the selection),
     - then the slices in order.
   [mode] is what the (copied) template currently is: the outer sequence with its visible columns, the inner sequence with its
   visible columns (after seq['in']), or a leaf column at either depth. *)
From PydapV Require Export Base Slices IterData.
Open Scope Z_scope.

Inductive tree := TL (z : Z) | TN (kids : list tree).

Definition kids_of (t : tree) : list tree := match t with TN ks => ks | TL _ => [] end.
Definition leaf_of (t : tree) : Z := match t with TL z => z | TN _ => 0 end.
Definition get (i : nat) (t : tree) : tree := nth i (kids_of t) (TL 0).
Definition pick (cols : list nat) (t : tree) : tree := TN (map (fun i => get i t) cols).

(* deep_map(function, level): depth = level - 1 *)
Fixpoint deep (f : tree -> tree) (depth : nat) (t : tree) : tree :=
  match depth with
  | O => f t
  | S d => TN (map (deep f d) (kids_of t))
  end.

Inductive pmap := PCols (depth : nat) (cols : list nat) | PItem (depth : nat) (col : nat).
Definition apply_pmap (m : pmap) (t : tree) : tree :=
  match m with
  | PCols d cols => deep (pick cols) d t
  | PItem d col => deep (get col) d t
  end.

(* the table: outer column names in source order, the name of the sequence column, its inner column names *)
Record ntable := mkTable { ohd : list cname; sq : cname; ihd : list cname }.

Inductive nmode :=
| MOuter (vis : list cname)        (* rows of the outer sequence, visible columns in row order *)
| MInner (ivis : list cname)       (* after seq[sq]: every item is the list of inner rows *)
| MLeaf                            (* after seq[scalar column] *)
| MInnerLeaf.                      (* after seq[sq][inner column] *)

Record nstream := mkN {
  nsrc : list tree;
  ofilters : list filt;            (* positions in the SOURCE row *)
  ifilters : list filt;            (* positions in the SOURCE inner rows *)
  pmaps : list pmap;
  nslices : list slice;
  mode : nmode
}.

Definition eval_tfilt (f : filt) (r : tree) : bool :=
  let a := leaf_of (get (fcol f) r) in
  let b := match frhs f with inl z => z | inr c => leaf_of (get c r) end in
  cmp (fop f) a b.

(* the map of an inner-column filter: the sequence cell (position spos) of the row keeps the inner rows that pass *)
Definition set_nth {A} (i : nat) (x : A) (l : list A) : list A := firstn i l ++ match skipn i l with [] => [] | _ :: r => x :: r end.
Definition apply_ifilt (spos : nat) (f : filt) (r : tree) : tree :=
  TN (set_nth spos (TN (filter (eval_tfilt f) (kids_of (get spos r)))) (kids_of r)).

Definition niter (spos : nat) (d : nstream) : list tree :=
  let rows := filter (fun r => forallb (fun f => eval_tfilt f r) (ofilters d)) (nsrc d) in
  let rows := map (fun r => fold_left (fun r f => apply_ifilt spos f r) (ifilters d) r) rows in
  let rows := map (fun r => fold_left (fun r m => apply_pmap m r) (pmaps d) r) rows in
  fold_left (fun rs s => islice s rs) (nslices d) rows.

Inductive nop :=
| NCols (ks : list cname)
| NChild (k : cname)
| NOFilt (c : cname) (o : relop) (r : operand)      (* a clause on an outer column *)
| NIFilt (c : cname) (o : relop) (r : operand)      (* a clause on a column of the inner sequence *)
| NSlice (s : slice)
| NInt (i : Z).

Definition mk_filt (hd : list cname) (c : cname) (o : relop) (r : operand) : option filt :=
  do col <- index_of c hd;
  do rhs <- (match r with OConst z => Some (inl z) | OColumn c2 => option_map inr (index_of c2 hd) end);
  Some (mkFilt col o rhs).

Definition napply (t : ntable) (d : nstream) (o : nop) : option nstream :=
  match o with
  | NCols ks =>
      match mode d with
      | MOuter vis => do cols <- omap_index ks vis;
                      Some (mkN (nsrc d) (ofilters d) (ifilters d) (pmaps d ++ [PCols 0 cols]) (nslices d) (MOuter ks))
      | MInner ivis => do cols <- omap_index ks ivis;
                       Some (mkN (nsrc d) (ofilters d) (ifilters d) (pmaps d ++ [PCols 1 cols]) (nslices d) (MInner ks))
      | _ => None
      end
  | NChild k =>
      match mode d with
      | MOuter vis => do col <- index_of k vis;
                      Some (mkN (nsrc d) (ofilters d) (ifilters d) (pmaps d ++ [PItem 0 col]) (nslices d)
                                (if String.eqb k (sq t) then MInner (ihd t) else MLeaf))
      | MInner ivis => do col <- index_of k ivis;
                       Some (mkN (nsrc d) (ofilters d) (ifilters d) (pmaps d ++ [PItem 1 col]) (nslices d) MInnerLeaf)
      | _ => None
      end
  | NOFilt c o r =>
      do f <- mk_filt (ohd t) c o r;
      Some (mkN (nsrc d) (ofilters d ++ [f]) (ifilters d) (pmaps d) (nslices d) (mode d))
  | NIFilt c o r =>
      do f <- mk_filt (ihd t) c o r;
      Some (mkN (nsrc d) (ofilters d) (ifilters d ++ [f]) (pmaps d) (nslices d) (mode d))
  | NSlice s => Some (mkN (nsrc d) (ofilters d) (ifilters d) (pmaps d) (nslices d ++ [s]) (mode d))
  | NInt i => Some (mkN (nsrc d) (ofilters d) (ifilters d) (pmaps d)
                        (nslices d ++ [mkSlice (Some i) (Some (i + 1)) None]) (mode d))
  end.

Fixpoint napply_ops (t : ntable) (d : nstream) (ops : list nop) : option nstream :=
  match ops with
  | [] => Some d
  | o :: r => do d' <- napply t d o; napply_ops t d' r
  end.

Definition nfresh (t : ntable) (rows : list tree) : nstream := mkN rows [] [] [] [] (MOuter (ohd t)).

(* ------------------------------------------------------------------ SPEC: the normal form BY NAME *)
Definition tlookup (hd : list cname) (r : tree) (k : cname) : tree :=
  match index_of k hd with Some i => get i r | None => TL 0 end.

Definition tfilt_by_name (hd : list cname) (c : cname) (o : relop) (rhs : operand) (r : tree) : bool :=
  cmp o (leaf_of (tlookup hd r c)) (match rhs with OConst z => z | OColumn c2 => leaf_of (tlookup hd r c2) end).

Fixpoint nspec_ofilters (t : ntable) (ops : list nop) (r : tree) : bool :=
  match ops with
  | [] => true
  | NOFilt c o rhs :: rest => tfilt_by_name (ohd t) c o rhs r && nspec_ofilters t rest r
  | _ :: rest => nspec_ofilters t rest r
  end.
Fixpoint nspec_ifilters (t : ntable) (ops : list nop) (r : tree) : bool :=
  match ops with
  | [] => true
  | NIFilt c o rhs :: rest => tfilt_by_name (ihd t) c o rhs r && nspec_ifilters t rest r
  | _ :: rest => nspec_ifilters t rest r
  end.

(* the selection reached by the column and child selections, by name: the mode and, for the two leaf modes, the leaf's name *)
Fixpoint nsel (t : ntable) (st : nmode * cname) (ops : list nop) : nmode * cname :=
  match ops with
  | [] => st
  | NCols ks :: rest =>
      nsel t (match fst st with MOuter _ => (MOuter ks, snd st) | MInner _ => (MInner ks, snd st) | _ => st end) rest
  | NChild k :: rest =>
      nsel t (match fst st with
              | MOuter _ => if String.eqb k (sq t) then (MInner (ihd t), snd st) else (MLeaf, k)
              | MInner _ => (MInnerLeaf, k)
              | _ => st
              end) rest
  | _ :: rest => nsel t st rest
  end.
Fixpoint nspec_slices (ops : list nop) : list slice :=
  match ops with
  | [] => []
  | NSlice s :: rest => s :: nspec_slices rest
  | NInt i :: rest => mkSlice (Some i) (Some (i + 1)) None :: nspec_slices rest
  | _ :: rest => nspec_slices rest
  end.

(* what one (filtered) source row looks like through the final selection *)
Definition view (t : ntable) (m : nmode) (leaf : cname) (r : tree) : tree :=
  match m with
  | MOuter vis => TN (map (tlookup (ohd t) r) vis)
  | MInner ivis => TN (map (fun ir => TN (map (tlookup (ihd t) ir) ivis)) (kids_of (tlookup (ohd t) r (sq t))))
  | MLeaf => tlookup (ohd t) r leaf
  | MInnerLeaf => TN (map (fun ir => tlookup (ihd t) ir leaf) (kids_of (tlookup (ohd t) r (sq t))))
  end.

Definition filter_inner (spos : nat) (p : tree -> bool) (r : tree) : tree :=
  TN (set_nth spos (TN (filter p (kids_of (get spos r)))) (kids_of r)).

Definition nspec (t : ntable) (spos : nat) (rows : list tree) (ops : list nop) : list tree :=
  let kept := filter (nspec_ofilters t ops) rows in
  let kept := map (filter_inner spos (nspec_ifilters t ops)) kept in
  let st := nsel t (MOuter (ohd t), EmptyString) ops in
  fold_left (fun rs s => islice s rs) (nspec_slices ops) (map (view t (fst st) (snd st)) kept).
