(* L2/L3: pydap.lib._quote / unquote over byte strings (names are UTF-8 encoded).
   Model of urllib.parse.quote(bytes, safe) / unquote as used through requests.utils. *)
From PydapV Require Export Base.
Open Scope N_scope.

Definition codeN (c : ascii) : N := N_of_ascii c.

Definition is_alnum (c : ascii) : bool :=
  let n := codeN c in
  ((48 <=? n) && (n <=? 57)) || ((65 <=? n) && (n <=? 90)) || ((97 <=? n) && (n <=? 122)).

Fixpoint memc (c : ascii) (l : chars) : bool :=
  match l with [] => false | x :: r => ascii_eqb c x || memc c r end.

(* urllib.parse._ALWAYS_SAFE *)
Definition always_safe (c : ascii) : bool := is_alnum c || memc c (s2l "_.-~").
(* lib.py: the extra safe characters passed to quote_ *)
Definition extra_safe : chars := s2l "%_!~*'-""/".

Definition hexdigit (n : N) : ascii :=
  nth (N.to_nat n) (s2l "0123456789ABCDEF") "0"%char.
Definition pct (c : ascii) : chars :=
  ["%"%char; hexdigit (codeN c / 16); hexdigit (codeN c mod 16)].

(* urllib quote of one byte *)
Definition urlq (c : ascii) : chars := if always_safe c || memc c extra_safe then [c] else pct c.
(* str.replace(single char, new) *)
Definition rep1 (x : ascii) (new : chars) (c : ascii) : chars := if ascii_eqb c x then new else [c].

Definition quote_body (s : chars) : chars :=
  flat_map (rep1 "]"%char (s2l "%5D"))
    (flat_map (rep1 "["%char (s2l "%5B"))
       (flat_map (rep1 "."%char (s2l "%2E")) (flat_map urlq s))).

Definition quote (s : chars) : chars :=
  if prefixb (s2l "dap4") s then firstn 8 s ++ quote_body (skipn 8 s) else quote_body s.

(* ---- unquote ---- *)
(* str.replace(pat, new) for a non-empty pattern: leftmost, non-overlapping *)
Fixpoint replace_go (pat new : chars) (skip : nat) (s : chars) : chars :=
  match s with
  | [] => []
  | c :: t =>
    match skip with
    | S k => replace_go pat new k t
    | O => if prefixb pat s then new ++ replace_go pat new (List.length pat - 1) t
           else c :: replace_go pat new O t
    end
  end.
Definition replace (pat new s : chars) : chars := replace_go pat new O s.

Definition hexval (c : ascii) : option N :=
  let n := codeN c in
  if (48 <=? n) && (n <=? 57) then Some (n - 48)
  else if (65 <=? n) && (n <=? 70) then Some (n - 55)
  else if (97 <=? n) && (n <=? 102) then Some (n - 87)
  else None.

(* urllib.parse.unquote_to_bytes: '%' followed by two hex digits is a byte, any other '%' is literal *)
Fixpoint pct_go (skip : nat) (s : chars) : chars :=
  match s with
  | [] => []
  | c :: t =>
    match skip with
    | S k => pct_go k t
    | O =>
      if ascii_eqb c "%"%char then
        match t with
        | h1 :: h2 :: _ =>
          match hexval h1, hexval h2 with
          | Some a, Some b => ascii_of_N (16 * a + b) :: pct_go 2 t
          | _, _ => c :: pct_go O t
          end
        | _ => c :: pct_go O t
        end
      else c :: pct_go O t
    end
  end.

Definition unquote (s : chars) : chars :=
  pct_go O (replace (s2l "%5D") ["]"%char] (replace (s2l "%5B") ["["%char] (replace (s2l "%2E") ["."%char] s))).

(* characters a quoted name may contain *)
Definition legal (c : ascii) : bool := is_alnum c || memc c (s2l "_-~%!*'""/").
