From PydapV Require Export Base Words Xdr XdrProofs Readers E2EProofs.
Definition B (l : list N) : bytes := map ascii_of_N l.
Definition chk_no_early (dds : list N) : bool := no_earlyb (B dds).
