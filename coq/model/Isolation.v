(* L4: request handling against one shared dataset.  A request is a script of steps; a step may READ the shared dataset and
   rewrites only the state owned by its request (the copy made by BaseHandler.parse and what is derived from it).
   Whether pydap's handler has this shape is what the facts of tools/gen_facts.py and the dynamic check of harness/c13.py tie down;
   what follows from the shape - for every number of requests, every script length and EVERY interleaving - is proved here. *)
From PydapV Require Export Base.
Open Scope nat_scope.

Section Isolation.
  Variables (Sh L : Type).                       (* shared dataset; request-local state (copy, constrained dataset, output so far) *)
  Definition step := Sh -> L -> L.
  Definition script := list step.

  Definition run_script (s : Sh) (t : script) (l : L) : L := fold_left (fun l st => st s l) t l.

  (* a configuration: for every request its remaining script and its local state *)
  Definition config := list (script * L).

  (* one tick of the scheduler: request i performs its next step (nothing happens when it has finished / does not exist) *)
  Fixpoint tick (s : Sh) (c : config) (i : nat) : config :=
    match c with
    | [] => []
    | x :: c' =>
        match i with
        | O => match x with
               | (st :: rest, l) => (rest, st s l) :: c'
               | ([], _) => x :: c'
               end
        | S i' => x :: tick s c' i'
        end
    end.
  Definition run_sched (s : Sh) (c : config) (sched : list nat) : config := fold_left (tick s) sched c.

  Definition finished (c : config) : Prop := Forall (fun x => fst x = []) c.
  (* the sequential outcome of every request on its own *)
  Definition alone (s : Sh) (c : config) : list L := map (fun x => run_script s (fst x) (snd x)) c.

  (* a server: the shared dataset never changes; responses of a sequence of requests *)
  Definition serve (s : Sh) (init : L) (t : script) : Sh * L := (s, run_script s t init).
  Fixpoint serve_all (s : Sh) (init : L) (ts : list script) : Sh * list L :=
    match ts with
    | [] => (s, [])
    | t :: r => let '(s1, o) := serve s init t in let '(s2, os) := serve_all s1 init r in (s2, o :: os)
    end.
End Isolation.
Arguments run_script {Sh L}. Arguments tick {Sh L}. Arguments run_sched {Sh L}. Arguments finished {Sh L}.
Arguments alone {Sh L}. Arguments serve {Sh L}. Arguments serve_all {Sh L}.
