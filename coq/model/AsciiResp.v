(* L3: the ASCII response (pydap.responses.ascii): layout of the values of a constrained dataset.
   Values appear as tokens (lib.encode: percent-.6g of a number, a quoted string). *)
From PydapV Require Export Base DDS DAS.
Open Scope nat_scope.

Inductive avar :=
| VArr (id : chars) (shape : list nat) (toks : list chars)   (* BaseType: var.id, var.shape, encode(v) for v in var.data.flat *)
| VStruct (kids : list avar)                                 (* Dataset / Structure / Grid: the children *)
| VSeq (ids : list chars) (rows : list (list chars)).        (* flat Sequence: child ids; one token per cell *)

(* numpy.ndindex(shape): all index tuples, last axis fastest *)
Fixpoint ndindex (shape : list nat) : list (list nat) :=
  match shape with
  | [] => [[]]
  | n :: r => flat_map (fun i => map (cons i) (ndindex r)) (seq 0 n)
  end.

Definition label (ix : list nat) : chars := "["%char :: cjoin (s2l "][") (map dec ix) ++ ["]"%char].

(* "{indexes} {value}\n" for zip(ndindex(shape), data.flat) *)
Fixpoint elem_lines (ixs : list (list nat)) (toks : list chars) : chars :=
  match ixs, toks with
  | ix :: ixs', t :: toks' => label ix ++ sp :: t ++ nl :: elem_lines ixs' toks'
  | _, _ => []
  end.

Fixpoint print_avar (printname : bool) (v : avar) : chars :=
  match v with
  | VArr id shape toks =>
      (if printname then id ++ [nl] else []) ++
      match shape with
      | [] => match toks with t :: _ => t | [] => [] end
      | _ => elem_lines (ndindex shape) toks
      end
  | VStruct kids => flat_map (fun k => print_avar printname k ++ [nl]) kids
  | VSeq ids rows =>
      cjoin (s2l ", ") ids ++ [nl] ++ flat_map (fun row => cjoin (s2l ", ") row ++ [nl]) rows
  end.

Definition dashes : chars := repeat "-"%char 45.
(* ASCIIResponse.__iter__: dds(dataset), 45 dashes, ascii(dataset) *)
Definition ascii_body (dds_text : chars) (kids : list avar) : chars :=
  dds_text ++ dashes ++ [nl] ++ print_avar true (VStruct kids).
