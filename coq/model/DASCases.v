(* Checkers evaluated by the C08 correspondence run (harness/c08.py). *)
From PydapV Require Export Base Quote DDS DAS.
Open Scope nat_scope.

Definition ceqb (a b : chars) : bool := String.eqb (l2s a) (l2s b).
Fixpoint leqb {A B} (e : A -> B -> bool) (a : list A) (b : list B) : bool :=
  match a, b with
  | [], [] => true
  | x :: a', y :: b' => e x y && leqb e a' b'
  | _, _ => false
  end.
Definition aitem_eqb (a b : aitem) : bool :=
  match a, b with
  | IStr x, IStr y => ceqb x y
  | INum x, INum y => ceqb x y
  | _, _ => false
  end.
Fixpoint aval_eqb (a b : aval) : bool :=
  match a, b with
  | ALeaf t1 v1, ALeaf t2 v2 => ceqb t1 t2 && leqb aitem_eqb v1 v2
  | ADict k1, ADict k2 =>
      (fix go (l1 l2 : list (chars * aval)) : bool :=
         match l1, l2 with
         | [], [] => true
         | (n1, x1) :: r1, (n2, x2) :: r2 => ceqb n1 n2 && aval_eqb x1 x2 && go r1 r2
         | _, _ => false
         end) k1 k2
  | _, _ => false
  end.
Definition adict_eqb (a b : adict) : bool := aval_eqb (ADict a) (ADict b).

(* das(): text of a dataset given as (dataset attributes, variables) *)
Definition chk_das_print (c : adict * list vtree * string) : bool :=
  let '(dsa, kids, text) := c in String.eqb (l2s (print_das (das_of dsa kids))) text.

(* parse_das(): None = it raised *)
Definition chk_das_parse (c : string * option adict) : bool :=
  let '(text, want) := c in
  match parse_das (s2l text), want with
  | None, None => true
  | Some a, Some b => adict_eqb a b
  | _, _ => false
  end.

(* add_attributes(): dataset attributes and the attributes of every variable in walk order; None = it raised *)
Definition chk_add (c : string * list vtree * adict * option (adict * list (list string * adict))) : bool :=
  let '(dsname, kids, attrs, want) := c in
  match add_attributes (s2l dsname) kids attrs, want with
  | None, None => true
  | Some (d, vs), Some (d', vs') =>
      adict_eqb d d' &&
      leqb (fun x y => leqb (fun a b => String.eqb (l2s a) b) (fst x) (fst y) && adict_eqb (snd x) (snd y)) vs vs'
  | _, _ => false
  end.
