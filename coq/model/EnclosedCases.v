(* C01 correspondence: the data part of the response to a request for an inner sequence alone, decoded by the Gallina
   unpack_enclosed, vs what the source holds (declaration of the inner sequence, bytes after "Data:\n", expected wire value). *)
From PydapV Require Export Base Words Xdr XdrCases Enclosed.

Definition chk_enclosed (c : nat * decl * list N * val) : bool :=
  let '(k, d, raw, want) := c in
  match unpack_enclosed k d (map ascii_of_N raw) with
  | Some (v, []) => val_eqb v want
  | _ => false
  end.
