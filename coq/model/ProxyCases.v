From PydapV Require Export Base Slices IterData Proxy.
Open Scope Z_scope.
Definition oz_eqb (a b : option Z) := match a, b with None, None => true | Some x, Some y => x =? y | _, _ => false end.
Definition slice_eqb (a b : slice) := oz_eqb (start a) (start b) && oz_eqb (stop a) (stop b) && oz_eqb (step a) (step b).
Fixpoint names_eqb (a b : list cname) : bool :=
  match a, b with [], [] => true | x :: a', y :: b' => String.eqb x y && names_eqb a' b' | _, _ => false end.
Definition relop_eqb (a b : relop) : bool :=
  match a, b with REq, REq | RNe, RNe | RLt, RLt | RLe, RLe | RGt, RGt | RGe, RGe => true | _, _ => false end.
Definition operand_eqb (a b : operand) : bool :=
  match a, b with OConst x, OConst y => x =? y | OColumn x, OColumn y => String.eqb x y | _, _ => false end.
Fixpoint clauses_eqb (a b : list (cname * relop * operand)) : bool :=
  match a, b with
  | [], [] => true
  | (c1, o1, r1) :: a', (c2, o2, r2) :: b' => String.eqb c1 c2 && relop_eqb o1 o2 && operand_eqb r1 r2 && clauses_eqb a' b'
  | _, _ => false
  end.
(* (columns of the sequence, operation chain, request observed at the server: columns, record range, clauses) *)
Definition chk_request (c : list cname * list pop * option (list cname * slice * list (cname * relop * operand))) : bool :=
  let '(hd, ops, obs) := c in
  match papply_ops (fresh_proxy hd 0%N) ops, obs with
  | Some p, Some (cols, rng, cls) =>
      names_eqb (pcols p) cols && clauses_eqb (psel p) cls &&
      (* the record range is compared by what it selects from a long sequence (printing drops a trailing full slice) *)
      (fix e (a b : list Z) := match a, b with [], [] => true | x :: a', y :: b' => (x =? y) && e a' b' | _, _ => false end)
        (np_indices 40 (pslice p)) (np_indices 40 rng)
  | None, None => true
  | _, _ => false
  end.
(* cache keys: (shared constraints, base path or none, two urls, do the implementation's keys coincide?) *)
Definition mku (h : string) (p : list string) (ce : option string) (o : list string) := mkUrl h p ce o.
Definition ckey_eqb (a b : ckey) : bool :=
  let url_eqb (u v : url) := String.eqb (uhost u) (uhost v) && names_eqb (upath u) (upath v) &&
                             match uce u, uce v with None, None => true | Some x, Some y => String.eqb x y | _, _ => false end &&
                             names_eqb (uother u) (uother v) in
  match a, b with
  | KUrl u, KUrl v => url_eqb u v
  | KShared h1 b1 c1, KShared h2 b2 c2 => String.eqb h1 h2 && names_eqb b1 b2 && String.eqb c1 c2
  | _, _ => false
  end.
Definition chk_cachekey (c : list string * option (list string) * url * url * bool) : bool :=
  let '(shared, base, u1, u2, same) := c in
  Bool.eqb (ckey_eqb (cache_key shared base u1) (cache_key shared base u2)) same.
