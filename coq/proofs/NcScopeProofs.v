(* C20: the dimension names the NetCDF handler gives a variable are those of the nearest enclosing declarations. *)
From PydapV Require Import Base Quote DMR DMRProofs NcScope.
From Coq Require Import Lia.
Open Scope nat_scope.

(* the walk stops at the nearest scope that declares the name, and that scope gives the size *)
Theorem resolve_nearest sc : forall d n,
  resolve_size sc d = Some n ->
  exists before p dims after,
    sc = before ++ (p, dims) :: after /\ Forall (fun s => aget d (snd s) = None) before /\
    aget d dims = Some n /\ resolve sc d = p.
Proof.
  induction sc as [|[p dims] rest IH]; intros d n H; [discriminate|]. cbn [resolve_size] in H.
  destruct (aget d dims) as [m|] eqn:E.
  - injection H as ->. exists [], p, dims, rest. repeat split; [constructor|exact E|].
    cbn [resolve]. destruct rest; [reflexivity|]. rewrite E. reflexivity.
  - destruct (IH d n H) as (before & p' & dims' & after & Hsc & Hb & Ha & Hr).
    exists ((p, dims) :: before), p', dims', after. repeat split.
    + cbn [app]. rewrite Hsc. reflexivity.
    + constructor; [exact E|exact Hb].
    + exact Ha.
    + cbn [resolve]. destruct rest as [|x r]; [destruct before; discriminate Hsc|]. rewrite E. exact Hr.
Qed.

(* the rule used before the repair picks a sibling group's declaration: root declares x, /g1 re-declares x, a variable of /g2 uses x *)
Definition shadow_tree : grp :=
  Grp [] [(s2l "x", 3)] []
      [Grp (s2l "g1") [(s2l "x", 5)] [(s2l "w", [s2l "x"])] [];
       Grp (s2l "g2") [] [(s2l "u", [s2l "x"])] []].
Theorem last_match_refuted :
  option_map l2s (last_match (registered [] true shadow_tree) (s2l "x")) = Some "/g1/x"%string /\
  map (fun v => (l2s (fst v), map l2s (snd v))) (vars_of [] [] shadow_tree) =
    [("/g1/w", ["/g1/x"]); ("/g2/u", ["/x"])]%string.
Proof. split; vm_compute; reflexivity. Qed.
