(* C16: the directory server never touches a path outside its data directory. *)
From PydapV Require Import Base Paths.
Open Scope nat_scope.

Lemma chars_eqb_eq a b : chars_eqb a b = true <-> a = b.
Proof.
  revert b; induction a as [|x a IH]; intros [|y b]; cbn; split; intros H; try discriminate; try reflexivity.
  - apply andb_true_iff in H as [H1 H2]. apply Ascii.eqb_eq in H1. apply IH in H2. congruence.
  - injection H as -> ->. rewrite Ascii.eqb_refl. cbn. now apply IH.
Qed.
Lemma chars_eqb_refl a : chars_eqb a a = true. Proof. now apply chars_eqb_eq. Qed.

Lemma is_prefix_app root q : is_prefix root (root ++ q) = true.
Proof. induction root as [|r root IH]; cbn; [reflexivity|]. now rewrite chars_eqb_refl, IH. Qed.

Lemma is_prefix_inv root p : is_prefix root p = true -> exists q, p = root ++ q.
Proof.
  revert p; induction root as [|r root IH]; intros p H; [now exists p|].
  destruct p as [|c p]; [discriminate|]. cbn in H. apply andb_true_iff in H as [H1 H2].
  apply chars_eqb_eq in H1. subst. destruct (IH p H2) as (q & ->). now exists q.
Qed.

Lemma last_app_nonempty {A} (x q : list A) d : q <> [] -> last (x ++ q) d = last q d.
Proof.
  intros Hq. induction x as [|a x IH]; [reflexivity|]. cbn [app].
  destruct (x ++ q) eqn:E; [destruct x; cbn in E; [congruence|discriminate]|]. cbn [last]. exact IH.
Qed.

Lemma splitext_snoc x l : splitext (x ++ [l]) = (x ++ [fst (splitext_name l)], snd (splitext_name l)).
Proof.
  unfold splitext. rewrite rev_app_distr. cbn [rev app]. destruct (splitext_name l) as [b e].
  now rewrite rev_involutive.
Qed.

Lemma snoc_cases {A} (q : list A) : q = [] \/ exists q' l, q = q' ++ [l].
Proof.
  induction q as [|a q IH]; [now left|]. right. destruct IH as [->|(q' & l & ->)].
  - now exists [], a.
  - now exists (a :: q'), l.
Qed.

Definition inside (root : path) (a : access) : Prop := is_prefix root (access_path a) = true.

Lemma index_inside fs root x : Forall (inside root) (index_accesses fs (root ++ x)).
Proof.
  unfold index_accesses. constructor; [apply is_prefix_app|].
  apply Forall_forall. intros a Ha. apply in_map_iff in Ha as (n & <- & _).
  unfold inside. cbn [access_path]. rewrite <- app_assoc. apply is_prefix_app.
Qed.

(* Whatever the request path, the file system layout and the handler extensions: every path the server
   stats, lists or opens is inside the data directory.  (The data directory exists - whatever its own name is,
   "catalog.xml" included.) *)
Theorem confined exts fs root path_info :
  isdir fs root = true ->
  Forall (inside root) (snd (route exts fs root path_info)).
Proof.
  intros Hroot. unfold route. set (p := resolve root path_info).
  destruct (is_prefix root p) eqn:Hp; cbn [negb]; [|constructor].
  destruct (is_prefix_inv root p Hp) as (q & Eq). rewrite Eq in *. clearbody p. clear Hp p Eq.
  destruct (chars_eqb (last (root ++ q) []) catalog_xml && is_prefix root (removelast (root ++ q))) eqn:Hc.
  - (* catalog.xml : the listed directory is the parent, and the parent is inside *)
    apply andb_prop in Hc as [_ Hin].
    destruct (is_prefix_inv root _ Hin) as (q2 & ->).
    destruct (isdir fs (root ++ q2)); cbn [snd].
    + constructor; [apply is_prefix_app|apply index_inside].
    + constructor; [apply is_prefix_app|constructor].
  - destruct (exists_ fs (root ++ q)) eqn:He.
    + destruct (isdir fs (root ++ q)); cbn [snd].
      * constructor; [apply is_prefix_app|apply index_inside].
      * repeat constructor; apply is_prefix_app.
    + (* <file>.<response> : only the last component is changed *)
      assert (Hq : q <> []).
      { intros ->. rewrite app_nil_r in He. unfold exists_, isdir in *. destruct (lookup_fs fs root) as [[]|]; discriminate. }
      destruct (snoc_cases q) as [->|(q' & l & ->)]; [congruence|].
      rewrite app_assoc, splitext_snoc. rewrite <- !app_assoc.
      destruct (isfile fs (root ++ q' ++ [fst (splitext_name l)])); [destruct (supported _ _)|]; cbn [snd];
        repeat constructor; apply is_prefix_app.
Qed.

(* A refused request discloses nothing: nothing is opened or listed. *)
Theorem refusal_discloses_nothing exts fs root path_info :
  match fst (route exts fs root path_info) with
  | Forbidden | NotFound | Unsupported _ =>
      Forall (fun a => match a with Stat _ => True | _ => False end) (snd (route exts fs root path_info))
  | _ => True
  end.
Proof.
  unfold route. set (p := resolve root path_info).
  destruct (negb (is_prefix root p)); cbn [fst snd]; [constructor|].
  destruct (chars_eqb (last p []) catalog_xml && is_prefix root (removelast p)).
  - destruct (isdir fs (removelast p)); cbn [fst snd]; [exact I|repeat constructor].
  - destruct (exists_ fs p).
    + destruct (isdir fs p); cbn [fst snd]; exact I.
    + destruct (splitext p) as [base ext]. destruct (isfile fs base); [destruct (supported exts base)|];
        cbn [fst snd]; try exact I; repeat constructor.
Qed.

(* Routing by what is on disk (for paths that stay inside and do not end in catalog.xml). *)
Theorem routing_table exts fs root path_info :
  let p := resolve root path_info in
  is_prefix root p = true -> chars_eqb (last p []) catalog_xml = false ->
  (isfile fs p = true -> fst (route exts fs root path_info) = FileVerbatim p) /\
  (isdir fs p = true -> fst (route exts fs root path_info) = Listing p (listdir fs p)) /\
  (exists_ fs p = false ->
     let '(base, ext) := splitext p in
     fst (route exts fs root path_info) =
       if isfile fs base then (if supported exts base then Dap base ext else Unsupported base) else NotFound).
Proof.
  intros p Hp Hc. unfold route. fold p. rewrite Hp, Hc. cbn [negb andb].
  unfold isfile, isdir, exists_. repeat split; intros H.
  - destruct (lookup_fs fs p) as [[]|]; try discriminate; reflexivity.
  - destruct (lookup_fs fs p) as [[]|]; try discriminate; reflexivity.
  - destruct (lookup_fs fs p) as [[]|]; try discriminate.
    destruct (splitext p) as [base ext]. fold (isfile fs base).
    destruct (isfile fs base); [destruct (supported exts base)|]; reflexivity.
Qed.

(* and a request that resolves outside is refused *)
Theorem outside_is_forbidden exts fs root path_info :
  is_prefix root (resolve root path_info) = false -> route exts fs root path_info = (Forbidden, []).
Proof. intros H. unfold route. now rewrite H. Qed.

(* The check that was in the code before the fix (string prefix) accepts a sibling directory: *)
Theorem string_prefix_check_refuted :
  exists root p, string_startswith root p = true /\ is_prefix root p = false.
Proof. exists [s2l "srv"; s2l "data"], [s2l "srv"; s2l "data2"; s2l "s.txt"]. split; reflexivity. Qed.
