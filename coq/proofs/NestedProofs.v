(* C17, nested tables: any chain of outer-column filters, inner-column filters, column selections, child selections (the inner
   sequence, then its own columns / children), record indices and slices on a lazy stream over a table with a nested sequence
   iterates to the normal form BY NAME: all outer filters on the source rows, all inner filters on the inner rows of every
   record, then the selections, then the slices in order. *)
From PydapV Require Import Base Slices IterData IterDataProofs Nested.
Open Scope Z_scope.

(* ---------------------------------------------------------------- generic list facts *)
Lemma index_of_nth_gen {A} (f : cname -> A) k l i d :
  index_of k l = Some i -> nth i (map f l) d = f k.
Proof.
  revert i; induction l as [|x l IH]; intros i; cbn [index_of]; [discriminate|].
  destruct (String.eqb k x) eqn:E.
  - intros [= <-]. apply String.eqb_eq in E. now subst.
  - destruct (index_of k l) as [j|]; [|discriminate]. cbn. intros [= <-]. cbn. now apply IH.
Qed.

Lemma omap_index_map_gen {A} (f : cname -> A) ks l cols d :
  omap_index ks l = Some cols -> map (fun i => nth i (map f l) d) cols = map f ks.
Proof.
  revert cols; induction ks as [|k ks IH]; intros cols; cbn [omap_index].
  - now intros [= <-].
  - destruct (index_of k l) as [i|] eqn:Ei; [|discriminate]. cbn [obind].
    destruct (omap_index ks l) as [is|]; [|discriminate]. cbn [obind]. intros [= <-].
    cbn [map]. f_equal; [now apply index_of_nth_gen|now apply IH].
Qed.

Lemma map_lookup_id_gen {A} (d : A) hd : NoDup hd -> forall l, List.length l = List.length hd ->
  map (fun k => match index_of k hd with Some i => nth i l d | None => d end) hd = l.
Proof.
  induction 1 as [|x hd Hx Hd IH]; intros l Hl; destruct l as [|a l]; try discriminate; [reflexivity|].
  cbn [map]. f_equal.
  - cbn [index_of]. now rewrite String.eqb_refl.
  - transitivity (map (fun k => match index_of k hd with Some i => nth i l d | None => d end) hd);
      [|apply IH; cbn in Hl; lia].
    apply map_ext_in. intros k Hk. cbn [index_of].
    destruct (String.eqb k x) eqn:E; [apply String.eqb_eq in E; subst; contradiction|].
    destruct (index_of k hd); reflexivity.
Qed.

Lemma filter_filter {A} (p q : A -> bool) l : filter q (filter p l) = filter (fun x => p x && q x) l.
Proof.
  induction l as [|x l IH]; cbn [filter]; [reflexivity|]. destruct (p x) eqn:Ep; cbn [filter andb].
  - destruct (q x); now rewrite IH.
  - exact IH.
Qed.

Lemma filter_true {A} (l : list A) : filter (fun _ => true) l = l.
Proof. induction l as [|x l IH]; cbn; [reflexivity|now rewrite IH]. Qed.

Lemma set_nth_length {A} i (x : A) l : (i < List.length l)%nat -> List.length (set_nth i x l) = List.length l.
Proof.
  intros H. unfold set_nth. rewrite app_length, firstn_length.
  destruct (skipn i l) as [|y r] eqn:E.
  - exfalso. assert (List.length (skipn i l) = 0%nat) by now rewrite E. rewrite skipn_length in H0. lia.
  - assert (Hs : List.length (skipn i l) = S (List.length r)) by now rewrite E. rewrite skipn_length in Hs. cbn [List.length]. lia.
Qed.

Lemma nth_set_nth {A} i (x d : A) l : (i < List.length l)%nat -> nth i (set_nth i x l) d = x.
Proof.
  intros H. unfold set_nth.
  destruct (skipn i l) as [|y r] eqn:E.
  - exfalso. assert (List.length (skipn i l) = 0%nat) by now rewrite E. rewrite skipn_length in H0. lia.
  - rewrite app_nth2; rewrite firstn_length; [|lia]. replace (i - Nat.min i (List.length l))%nat with 0%nat by lia. reflexivity.
Qed.

Lemma set_nth_set_nth {A} i (x y : A) l : (i < List.length l)%nat -> set_nth i y (set_nth i x l) = set_nth i y l.
Proof.
  intros H. unfold set_nth at 1 3.
  assert (Hf : firstn i (set_nth i x l) = firstn i l).
  { unfold set_nth. rewrite firstn_app, firstn_firstn, firstn_length.
    replace (Nat.min i i) with i by lia. replace (i - Nat.min i (List.length l))%nat with 0%nat by lia.
    cbn [firstn]. now rewrite app_nil_r. }
  assert (Hs : exists r, skipn i l = nth i l x :: r /\ skipn i (set_nth i x l) = x :: r).
  { unfold set_nth. destruct (skipn i l) as [|z r] eqn:E.
    - exfalso. assert (List.length (skipn i l) = 0%nat) by now rewrite E. rewrite skipn_length in H0. lia.
    - exists r. split.
      + f_equal. rewrite <- (firstn_skipn i l) at 1. rewrite app_nth2; rewrite firstn_length; [|lia].
        replace (i - Nat.min i (List.length l))%nat with 0%nat by lia. now rewrite E.
      + rewrite skipn_app, firstn_length. replace (i - Nat.min i (List.length l))%nat with 0%nat by lia.
        cbn [skipn]. rewrite skipn_all2; [reflexivity|]. rewrite firstn_length. lia. }
  destruct Hs as (r & E1 & E2). rewrite Hf, E1, E2. reflexivity.
Qed.

Lemma set_nth_same {A} i (d : A) l : (i < List.length l)%nat -> set_nth i (nth i l d) l = l.
Proof.
  intros H. unfold set_nth. destruct (skipn i l) as [|y r] eqn:E.
  - exfalso. assert (List.length (skipn i l) = 0%nat) by now rewrite E. rewrite skipn_length in H0. lia.
  - rewrite <- (firstn_skipn i l) at 3. f_equal. rewrite E. f_equal.
    rewrite <- (firstn_skipn i l) at 1. rewrite app_nth2; rewrite firstn_length; [|lia].
    replace (i - Nat.min i (List.length l))%nat with 0%nat by lia. now rewrite E.
Qed.

(* ---------------------------------------------------------------- shapes *)
Section Table.
  Variable t : ntable.
  Variable spos : nat.
  Hypothesis Hspos : index_of (sq t) (ohd t) = Some spos.
  Hypothesis Hnd_o : NoDup (ohd t).
  Hypothesis Hnd_i : NoDup (ihd t).

  Definition okin (ir : tree) : Prop := ir = TN (kids_of ir) /\ List.length (kids_of ir) = List.length (ihd t).
  Definition okrow (r : tree) : Prop :=
    r = TN (kids_of r) /\ List.length (kids_of r) = List.length (ohd t) /\
    get spos r = TN (kids_of (get spos r)) /\ Forall okin (kids_of (get spos r)).

  Lemma spos_lt : (spos < List.length (ohd t))%nat.
  Proof.
    clear Hnd_o Hnd_i. revert spos Hspos. generalize (sq t) as k. induction (ohd t) as [|x l IH]; intros k i H; cbn [index_of] in H; [discriminate|].
    destruct (String.eqb k x); [injection H as <-; cbn; lia|].
    destruct (index_of k l) as [j|] eqn:E; [|discriminate]. injection H as <-. specialize (IH k j E). cbn. lia.
  Qed.

  Lemma tlookup_sq r : tlookup (ohd t) r (sq t) = get spos r.
  Proof. unfold tlookup. now rewrite Hspos. Qed.

  Lemma get_filter_inner p r : okrow r -> get spos (filter_inner spos p r) = TN (filter p (kids_of (get spos r))).
  Proof.
    intros (_ & Hl & _). unfold filter_inner, get at 1. cbn [kids_of]. apply nth_set_nth. rewrite Hl. apply spos_lt.
  Qed.

  Lemma okrow_filter_inner p r : okrow r -> okrow (filter_inner spos p r).
  Proof.
    intros Hr. pose proof Hr as (Hk & Hl & Hc & Hin). repeat split.
    - unfold filter_inner. cbn [kids_of]. rewrite set_nth_length; [exact Hl|]. rewrite Hl. apply spos_lt.
    - rewrite get_filter_inner by exact Hr. reflexivity.
    - rewrite get_filter_inner by exact Hr. cbn [kids_of]. clear - Hin.
      induction Hin as [|x l Hx Hl IH]; cbn [filter]; [constructor|]. destruct (p x); [constructor; assumption|assumption].
  Qed.

  Lemma filter_inner_compose p q r : okrow r ->
    filter_inner spos q (filter_inner spos p r) = filter_inner spos (fun x => p x && q x) r.
  Proof.
    intros Hr. pose proof Hr as (_ & Hl & _). unfold filter_inner at 1. rewrite get_filter_inner by exact Hr.
    cbn [kids_of]. rewrite filter_filter. unfold filter_inner. cbn [kids_of]. f_equal.
    apply set_nth_set_nth. rewrite Hl. apply spos_lt.
  Qed.

  Lemma filter_inner_true r : okrow r -> filter_inner spos (fun _ => true) r = r.
  Proof.
    intros (Hk & Hl & Hc & _). unfold filter_inner. rewrite filter_true, <- Hc. unfold get.
    rewrite set_nth_same by (rewrite Hl; apply spos_lt). now rewrite <- Hk.
  Qed.

  Lemma filter_inner_ext p q r : (forall x, p x = q x) -> filter_inner spos p r = filter_inner spos q r.
  Proof. intros H. unfold filter_inner. now rewrite (filter_ext_all p q) by exact H. Qed.

  (* ---------------------------------------------------------------- views *)
  Lemma view_outer_all r : okrow r -> view t (MOuter (ohd t)) EmptyString r = r.
  Proof.
    intros (Hk & Hl & _). cbn [view]. rewrite Hk at 2. f_equal. unfold tlookup, get.
    apply map_lookup_id_gen; [exact Hnd_o|exact Hl].
  Qed.

  Lemma inner_all ir : okin ir -> TN (map (tlookup (ihd t) ir) (ihd t)) = ir.
  Proof.
    intros (Hk & Hl). rewrite Hk at 2. f_equal. unfold tlookup, get. apply map_lookup_id_gen; [exact Hnd_i|exact Hl].
  Qed.

  Lemma view_inner_all lf r : okrow r -> view t (MInner (ihd t)) lf r = get spos r.
  Proof.
    intros (_ & _ & Hc & Hin). cbn [view]. rewrite tlookup_sq. rewrite Hc at 2. f_equal.
    rewrite <- (map_id (kids_of (get spos r))) at 2. apply (IterDataProofs.map_ext_Forall _ _ _ okin); [exact Hin|].
    intros ir Hir. now apply inner_all.
  Qed.

  (* ---------------------------------------------------------------- the invariant *)
  Definition npipe (ms : list pmap) (r : tree) : tree := fold_left (fun r m => apply_pmap m r) ms r.
  Definition ipipe (fs : list filt) (r : tree) : tree := fold_left (fun r f => apply_ifilt spos f r) fs r.

  Lemma npipe_app ms m r : npipe (ms ++ [m]) r = apply_pmap m (npipe ms r).
  Proof. unfold npipe. now rewrite fold_left_app. Qed.
  Lemma ipipe_app fs f r : ipipe (fs ++ [f]) r = apply_ifilt spos f (ipipe fs r).
  Proof. unfold ipipe. now rewrite fold_left_app. Qed.

  Definition nfacts (Fo Fi : tree -> bool) (lf : cname) (d : nstream) : Prop :=
    (forall r, forallb (fun f => eval_tfilt f r) (ofilters d) = Fo r) /\
    (forall r, okrow r -> ipipe (ifilters d) r = filter_inner spos Fi r) /\
    (forall r, okrow r -> npipe (pmaps d) r = view t (mode d) lf r).

  (* names are visible where they are selected *)
  Fixpoint wf_nops (m : nmode) (ops : list nop) : Prop :=
    match ops with
    | [] => True
    | NCols ks :: rest =>
        match m with
        | MOuter vis => incl ks vis /\ wf_nops (MOuter ks) rest
        | MInner ivis => incl ks ivis /\ wf_nops (MInner ks) rest
        | _ => False
        end
    | NChild k :: rest =>
        match m with
        | MOuter vis => In k vis /\ wf_nops (if String.eqb k (sq t) then MInner (ihd t) else MLeaf) rest
        | MInner ivis => In k ivis /\ wf_nops MInnerLeaf rest
        | _ => False
        end
    | _ :: rest => wf_nops m rest
    end.

  Lemma eval_by_name_t hd c o rhs f r :
    mk_filt hd c o rhs = Some f -> eval_tfilt f r = tfilt_by_name hd c o rhs r.
  Proof.
    unfold mk_filt. destruct (index_of c hd) as [col|] eqn:Ec; [|discriminate]. cbn [obind].
    destruct rhs as [z|c2].
    - cbn [obind]. intros [= <-]. unfold eval_tfilt, tfilt_by_name, tlookup. cbn [fcol fop frhs]. now rewrite Ec.
    - destruct (index_of c2 hd) as [j|] eqn:Ej; [|discriminate]. cbn [option_map obind]. intros [= <-].
      unfold eval_tfilt, tfilt_by_name, tlookup. cbn [fcol fop frhs]. now rewrite Ec, Ej.
  Qed.

  Lemma steps : forall ops d d' Fo Fi lf,
    nfacts Fo Fi lf d -> wf_nops (mode d) ops -> napply_ops t d ops = Some d' ->
    nsrc d' = nsrc d /\
    nfacts (fun r => Fo r && nspec_ofilters t ops r) (fun r => Fi r && nspec_ifilters t ops r) (snd (nsel t (mode d, lf) ops)) d' /\
    mode d' = fst (nsel t (mode d, lf) ops) /\
    nslices d' = nslices d ++ nspec_slices ops.
  Proof.
    induction ops as [|o ops IH]; intros d d' Fo Fi lf (Ho & Hi & Hm) Hw Ha.
    - cbn in Ha. injection Ha as <-. cbn [nspec_ofilters nspec_ifilters nsel nspec_slices fst snd]. rewrite app_nil_r.
      repeat split; try assumption.
      + intros r. now rewrite andb_true_r.
      + intros r Hr. rewrite Hi by exact Hr. apply filter_inner_ext. intros x. now rewrite andb_true_r.
    - cbn [napply_ops] in Ha. destruct (napply t d o) as [d1|] eqn:E1; [|discriminate]. cbn [obind] in Ha.
      destruct o as [ks|k|c o rhs|c o rhs|s|i]; cbn [napply wf_nops] in E1, Hw.
      + (* column selection, at either depth *)
        destruct (mode d) as [vis|ivis| |] eqn:Em; try contradiction.
        * destruct Hw as (Hincl & Hw). destruct (omap_index ks vis) as [cols|] eqn:Ec; [|discriminate]. cbn [obind] in E1. injection E1 as <-.
          pose proof (fun F W => IH _ d' Fo Fi lf F W Ha) as IH'.
          destruct IH' as (I1 & I2 & I3 & I4); [|exact Hw|].
          { repeat split; cbn [ofilters ifilters pmaps mode]; try assumption.
            intros r Hr. rewrite npipe_app, Hm by exact Hr. cbn [apply_pmap deep view]. unfold pick. f_equal.
            unfold get. cbn [kids_of]. now apply omap_index_map_gen. }
          cbn [nsrc mode nslices nspec_ofilters nspec_ifilters nsel nspec_slices fst snd] in *. split; [exact I1|]. split; [exact I2|]. split; [exact I3|exact I4].
        * destruct Hw as (Hincl & Hw). destruct (omap_index ks ivis) as [cols|] eqn:Ec; [|discriminate]. cbn [obind] in E1. injection E1 as <-.
          pose proof (fun F W => IH _ d' Fo Fi lf F W Ha) as IH'.
          destruct IH' as (I1 & I2 & I3 & I4); [|exact Hw|].
          { repeat split; cbn [ofilters ifilters pmaps mode]; try assumption.
            intros r Hr. rewrite npipe_app, Hm by exact Hr. cbn [apply_pmap deep view kids_of]. f_equal.
            rewrite map_map. apply map_ext. intros ir. unfold pick. f_equal. unfold get. cbn [kids_of].
            now apply omap_index_map_gen. }
          cbn [nsrc mode nslices nspec_ofilters nspec_ifilters nsel nspec_slices fst snd] in *. split; [exact I1|]. split; [exact I2|]. split; [exact I3|exact I4].
      + (* child selection, at either depth *)
        destruct (mode d) as [vis|ivis| |] eqn:Em; try contradiction.
        * destruct Hw as (Hin & Hw). destruct (index_of_In k vis Hin) as (col & Ecol & _). rewrite Ecol in E1. cbn [obind] in E1.
          injection E1 as <-.
          pose proof (fun F W => IH _ d' Fo Fi (if String.eqb k (sq t) then lf else k) F W Ha) as IH'.
          destruct IH' as (I1 & I2 & I3 & I4); [|exact Hw|].
          { repeat split; cbn [ofilters ifilters pmaps mode]; try assumption.
            intros r Hr. rewrite npipe_app, Hm by exact Hr. cbn [apply_pmap deep view]. unfold get at 1. cbn [kids_of].
            rewrite (index_of_nth_gen (tlookup (ohd t) r) k vis col (TL 0) Ecol).
            destruct (String.eqb k (sq t)) eqn:Ek.
            - apply String.eqb_eq in Ek. subst k. rewrite view_inner_all by exact Hr. apply tlookup_sq.
            - reflexivity. }
          cbn [nsrc mode nslices nspec_ofilters nspec_ifilters nsel nspec_slices fst snd] in *.
          destruct (String.eqb k (sq t)); cbn [fst snd] in *; (split; [exact I1|]; split; [exact I2|]; split; [exact I3|exact I4]).
        * destruct Hw as (Hin & Hw). destruct (index_of_In k ivis Hin) as (col & Ecol & _). rewrite Ecol in E1. cbn [obind] in E1.
          injection E1 as <-.
          pose proof (fun F W => IH _ d' Fo Fi k F W Ha) as IH'.
          destruct IH' as (I1 & I2 & I3 & I4); [|exact Hw|].
          { repeat split; cbn [ofilters ifilters pmaps mode]; try assumption.
            intros r Hr. rewrite npipe_app, Hm by exact Hr. cbn [apply_pmap deep view kids_of]. f_equal.
            rewrite map_map. apply map_ext. intros ir. unfold get at 1. cbn [kids_of].
            apply (index_of_nth_gen (tlookup (ihd t) ir) k ivis col (TL 0) Ecol). }
          cbn [nsrc mode nslices nspec_ofilters nspec_ifilters nsel nspec_slices fst snd] in *. split; [exact I1|]. split; [exact I2|]. split; [exact I3|exact I4].
      + (* a clause on an outer column: a filter on the source rows *)
        destruct (mk_filt (ohd t) c o rhs) as [f|] eqn:Ef; [|discriminate]. cbn [obind] in E1. injection E1 as <-.
        pose proof (fun F W => IH _ d' (fun r => Fo r && tfilt_by_name (ohd t) c o rhs r) Fi lf F W Ha) as IH'.
          destruct IH' as (I1 & I2 & I3 & I4); [|exact Hw|].
        { repeat split; cbn [ofilters ifilters pmaps mode]; try assumption.
          intros r. rewrite forallb_app, Ho. cbn [forallb]. rewrite andb_true_r. f_equal. now apply eval_by_name_t. }
        cbn [nsrc mode nslices nspec_ofilters nspec_ifilters nsel nspec_slices fst snd] in *.
        split; [exact I1|]. split; [|split; assumption].
        destruct I2 as (J1 & J2 & J3). split; [|split; assumption]. intros r. rewrite J1. now rewrite andb_assoc.
      + (* a clause on an inner column: the inner rows of every record are filtered, on the source rows *)
        destruct (mk_filt (ihd t) c o rhs) as [f|] eqn:Ef; [|discriminate]. cbn [obind] in E1. injection E1 as <-.
        pose proof (fun F W => IH _ d' Fo (fun r => Fi r && tfilt_by_name (ihd t) c o rhs r) lf F W Ha) as IH'.
          destruct IH' as (I1 & I2 & I3 & I4); [|exact Hw|].
        { repeat split; cbn [ofilters ifilters pmaps mode]; try assumption.
          intros r Hr. rewrite ipipe_app, Hi by exact Hr. unfold apply_ifilt.
          change (TN (set_nth spos (TN (filter (eval_tfilt f) (kids_of (get spos (filter_inner spos Fi r))))) (kids_of (filter_inner spos Fi r))))
            with (filter_inner spos (eval_tfilt f) (filter_inner spos Fi r)).
          rewrite filter_inner_compose by exact Hr. apply filter_inner_ext. intros x. f_equal. now apply eval_by_name_t. }
        cbn [nsrc mode nslices nspec_ofilters nspec_ifilters nsel nspec_slices fst snd] in *.
        split; [exact I1|]. split; [|split; assumption].
        destruct I2 as (J1 & J2 & J3). split; [exact J1|]. split; [|exact J3].
        intros r Hr. rewrite J2 by exact Hr. apply filter_inner_ext. intros x. now rewrite andb_assoc.
      + injection E1 as <-.
        pose proof (fun F W => IH _ d' Fo Fi lf F W Ha) as IH'.
        destruct IH' as (I1 & I2 & I3 & I4); [repeat split; assumption|exact Hw|].
        cbn [nsrc mode nslices nspec_ofilters nspec_ifilters nsel nspec_slices fst snd] in *.
        split; [exact I1|]. split; [exact I2|]. split; [exact I3|]. rewrite I4. now rewrite <- app_assoc.
      + injection E1 as <-.
        pose proof (fun F W => IH _ d' Fo Fi lf F W Ha) as IH'.
        destruct IH' as (I1 & I2 & I3 & I4); [repeat split; assumption|exact Hw|].
        cbn [nsrc mode nslices nspec_ofilters nspec_ifilters nsel nspec_slices fst snd] in *.
        split; [exact I1|]. split; [exact I2|]. split; [exact I3|]. rewrite I4. now rewrite <- app_assoc.
  Qed.

  Theorem nested_normal_form rows ops d :
    Forall okrow rows ->
    wf_nops (MOuter (ohd t)) ops -> napply_ops t (nfresh t rows) ops = Some d ->
    niter spos d = nspec t spos rows ops.
  Proof.
    intros Hrows Hw Ha.
    assert (F0 : nfacts (fun _ => true) (fun _ => true) EmptyString (nfresh t rows)).
    { repeat split; cbn [nfresh ofilters ifilters pmaps mode ipipe npipe fold_left forallb].
      - intros r Hr. symmetry. now apply filter_inner_true.
      - intros r Hr. symmetry. now apply view_outer_all. }
    destruct (steps ops (nfresh t rows) d _ _ _ F0 Hw Ha) as (Hs & (Ho & Hi & Hm) & Hmode & Hsl).
    unfold niter, nspec. rewrite Hs. cbn [nfresh nsrc nslices mode app] in *. rewrite Hsl.
    f_equal.
    rewrite (filter_ext_all _ (nspec_ofilters t ops)) by (intros r; now rewrite Ho).
    rewrite !map_map.
    apply (IterDataProofs.map_ext_Forall _ _ _ okrow); [now apply Forall_filter|].
    intros r Hr. fold (ipipe (ifilters d) r). fold (npipe (pmaps d) (ipipe (ifilters d) r)).
    rewrite Hi by exact Hr.
    rewrite Hm by (apply okrow_filter_inner; exact Hr).
    rewrite Hmode.
    rewrite (filter_inner_ext (fun r0 => true && nspec_ifilters t ops r0) (nspec_ifilters t ops)) by reflexivity.
    reflexivity.
  Qed.
End Table.

(* a step never touches the source rows (nested tables) *)
Theorem nested_step_leaves_source t d o d' : napply t d o = Some d' -> nsrc d' = nsrc d.
Proof.
  destruct o as [ks|k|c o rhs|c o rhs|s|i]; cbn [napply]; intros H.
  - destruct (mode d); try discriminate;
      match type of H with context [omap_index ?a ?b] => destruct (omap_index a b) end; try discriminate; now injection H as <-.
  - destruct (mode d); try discriminate;
      match type of H with context [index_of ?a ?b] => destruct (index_of a b) end; try discriminate; now injection H as <-.
  - destruct (mk_filt (ohd t) c o rhs); [|discriminate]. now injection H as <-.
  - destruct (mk_filt (ihd t) c o rhs); [|discriminate]. now injection H as <-.
  - now injection H as <-.
  - now injection H as <-.
Qed.
