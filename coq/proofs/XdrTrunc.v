(* C09 (DAP2 side): the decoder model never accepts a cut stream.
   [tsafe P]: whenever P succeeds on s, consuming c = |s| - |r| bytes, then on EVERY prefix of s
   - a prefix shorter than c makes P fail,
   - any other prefix makes P fail or return the same value (with the remainder cut accordingly). *)
From PydapV Require Import Base Words Xdr XdrProofs.
From Coq Require Import Nnat Znat.
Open Scope nat_scope.

Definition tsafe {A} (P : bytes -> option (A * bytes)) : Prop :=
  forall s v r, P s = Some (v, r) ->
    List.length r <= List.length s /\
    forall k,
      (k < List.length s - List.length r -> P (firstn k s) = None) /\
      (P (firstn k s) = None \/ P (firstn k s) = Some (v, firstn (k - (List.length s - List.length r)) r)).

(* one decoding step on the prefix: either it fails (and so does the whole decoder: both goals close), or it
   returns the same value and we keep the facts needed for the arithmetic at the end *)
Ltac tstep L H k :=
  let Hl := fresh "Hl" in let Hk := fresh "Hk" in let Hlt := fresh "Hlt" in let E := fresh "E" in let Hge := fresh "Hge" in
  destruct (L _ _ _ H) as [Hl Hk]; destruct (Hk k) as [Hlt [E|E]]; clear Hk;
  [ rewrite E; cbn [obind fst snd]; split; [intros _; reflexivity | left; reflexivity]
  | assert (Hge : ~ (k < _ - _)) by (let X := fresh "X" in intro X; rewrite (Hlt X) in E; discriminate E); clear Hlt;
    rewrite E; cbn [obind fst snd] ].

Lemma take_tsafe n : tsafe (take n).
Proof.
  intros s v r H. unfold take in H.
  destruct (n <=? List.length s) eqn:E; [|discriminate]. injection H as <- <-.
  apply Nat.leb_le in E. rewrite skipn_length. split; [lia|]. intros k.
  replace (List.length s - (List.length s - n)) with n by lia.
  unfold take. rewrite firstn_length.
  destruct (n <=? Nat.min k (List.length s)) eqn:E2.
  - apply Nat.leb_le in E2. split; [intros X; lia|]. right. f_equal. f_equal.
    + rewrite firstn_firstn. f_equal. lia.
    + apply skipn_firstn_comm.
  - split; [reflexivity|now left].
Qed.

Lemma rd32_tsafe : tsafe rd32.
Proof.
  intros s v r H. unfold rd32 in H.
  destruct (take 4 s) as [[a b]|] eqn:T; cbn [obind fst snd] in H; [|discriminate].
  cbv zeta in H. destruct (N.of_nat (List.length b) <? be_dec a)%N eqn:C; [discriminate|]. injection H as <- <-.
  destruct (take_tsafe 4 _ _ _ T) as [Hl0 _]. split; [exact Hl0|]. intros k. unfold rd32.
  tstep (take_tsafe 4) T k. cbv zeta.
  destruct (N.of_nat (List.length (firstn (k - (List.length s - List.length b)) b)) <? be_dec a)%N.
  - split; [|now left]. reflexivity.
  - split; [intros X; lia|]. now right.
Qed.

Lemma dec_string_tsafe : tsafe dec_string.
Proof.
  intros s v r H. unfold dec_string in H.
  destruct (rd32 s) as [[n s1]|] eqn:R; cbn [obind fst snd] in H; [|discriminate].
  destruct (take n s1) as [[q1 q2]|] eqn:T1; cbn [obind fst snd] in H; [|discriminate].
  destruct (take ((4 - n mod 4) mod 4) q2) as [[p1 p2]|] eqn:T2; cbn [obind fst snd] in H; [|discriminate].
  injection H as <- <-.
  destruct (rd32_tsafe _ _ _ R) as [L1 _]. destruct (take_tsafe _ _ _ _ T1) as [L2 _].
  destruct (take_tsafe _ _ _ _ T2) as [L3 _].
  split; [lia|]. intros k. unfold dec_string.
  tstep rd32_tsafe R k. tstep (take_tsafe n) T1 (k - (List.length s - List.length s1)).
  tstep (take_tsafe ((4 - n mod 4) mod 4)) T2 (k - (List.length s - List.length s1) - (List.length s1 - List.length q2)).
  split; [intros X; lia|]. right. f_equal. f_equal. f_equal. lia.
Qed.

Lemma dec_strings_tsafe n : tsafe (dec_strings n).
Proof.
  induction n as [|n IH]; intros s v r H.
  - cbn [dec_strings] in H. injection H as <- <-. split; [lia|]. intros k. cbn [dec_strings].
    split; [intros X; lia|]. right. f_equal. f_equal. now rewrite Nat.sub_diag, Nat.sub_0_r.
  - cbn [dec_strings] in H.
    destruct (dec_string s) as [[x s1]|] eqn:D; cbn [obind fst snd] in H; [|discriminate].
    destruct (dec_strings n s1) as [[xs s2]|] eqn:Ds; cbn [obind fst snd] in H; [|discriminate].
    injection H as <- <-.
    destruct (dec_string_tsafe _ _ _ D) as [L1 _]. destruct (IH _ _ _ Ds) as [L2 _].
    split; [lia|]. intros k. cbn [dec_strings].
    tstep dec_string_tsafe D k. tstep IH Ds (k - (List.length s - List.length s1)).
    split; [intros X; lia|]. right. f_equal. f_equal. f_equal. lia.
Qed.

Lemma dec_base_tsafe t arr : tsafe (dec_base t arr).
Proof.
  intros s v r H. unfold dec_base in H. destruct arr as [expected|].
  - destruct (rd32 s) as [[n s1]|] eqn:R; cbn [obind fst snd] in H; [|discriminate].
    destruct (rd32_tsafe _ _ _ R) as [L1 _].
    destruct (is_string t) eqn:St.
    + destruct (dec_strings n s1) as [[xs s2]|] eqn:Ds; cbn [obind fst snd] in H; [|discriminate].
      destruct (List.length xs =? expected) eqn:Le; [|discriminate]. injection H as <- <-.
      destruct (dec_strings_tsafe _ _ _ _ Ds) as [L2 _].
      split; [lia|]. intros k. unfold dec_base. tstep rd32_tsafe R k. rewrite St.
      tstep (dec_strings_tsafe n) Ds (k - (List.length s - List.length s1)). rewrite Le.
      split; [intros X; lia|]. right. f_equal. f_equal. f_equal. lia.
    + destruct (take 4 s1) as [[w1 w2]|] eqn:T1; cbn [obind fst snd] in H; [|discriminate].
      destruct (take (wire_width t * n) w2) as [[q1 q2]|] eqn:T2; cbn [obind fst snd] in H; [|discriminate].
      destruct (n =? expected) eqn:Ne; [|discriminate].
      destruct (take_tsafe _ _ _ _ T1) as [L2 _]. destruct (take_tsafe _ _ _ _ T2) as [L3 _].
      destruct (is_byte t) eqn:Bt.
      * destruct (take ((4 - n mod 4) mod 4) q2) as [[p1 p2]|] eqn:T3; cbn [obind fst snd] in H; [|discriminate].
        injection H as <- <-. destruct (take_tsafe _ _ _ _ T3) as [L4 _].
        split; [lia|]. intros k. unfold dec_base. tstep rd32_tsafe R k. rewrite St.
        tstep (take_tsafe 4) T1 (k - (List.length s - List.length s1)).
        tstep (take_tsafe (wire_width t * n)) T2 (k - (List.length s - List.length s1) - (List.length s1 - List.length w2)).
        rewrite Ne, Bt.
        tstep (take_tsafe ((4 - n mod 4) mod 4)) T3
              (k - (List.length s - List.length s1) - (List.length s1 - List.length w2) - (List.length w2 - List.length q2)).
        split; [intros X; lia|]. right. f_equal. f_equal. f_equal. lia.
      * injection H as <- <-.
        split; [lia|]. intros k. unfold dec_base. tstep rd32_tsafe R k. rewrite St.
        tstep (take_tsafe 4) T1 (k - (List.length s - List.length s1)).
        tstep (take_tsafe (wire_width t * n)) T2 (k - (List.length s - List.length s1) - (List.length s1 - List.length w2)).
        rewrite Ne, Bt.
        split; [intros X; lia|]. right. f_equal. f_equal. f_equal. lia.
  - destruct (is_string t) eqn:St.
    + destruct (dec_string s) as [[x s1]|] eqn:D; cbn [obind fst snd] in H; [|discriminate].
      injection H as <- <-. destruct (dec_string_tsafe _ _ _ D) as [L1 _].
      split; [lia|]. intros k. unfold dec_base. rewrite St. tstep dec_string_tsafe D k.
      split; [intros X; lia|]. right. reflexivity.
    + destruct (take (wire_width t) s) as [[q1 q2]|] eqn:T1; cbn [obind fst snd] in H; [|discriminate].
      destruct (take_tsafe _ _ _ _ T1) as [L1 _].
      destruct (is_byte t) eqn:Bt.
      * destruct (take 3 q2) as [[p1 p2]|] eqn:T2; cbn [obind fst snd] in H; [|discriminate].
        injection H as <- <-. destruct (take_tsafe _ _ _ _ T2) as [L2 _].
        split; [lia|]. intros k. unfold dec_base. rewrite St. tstep (take_tsafe (wire_width t)) T1 k. rewrite Bt.
        tstep (take_tsafe 3) T2 (k - (List.length s - List.length q2)).
        split; [intros X; lia|]. right. f_equal. f_equal. f_equal. lia.
      * injection H as <- <-.
        split; [lia|]. intros k. unfold dec_base. rewrite St. tstep (take_tsafe (wire_width t)) T1 k. rewrite Bt.
        split; [intros X; lia|]. right. reflexivity.
Qed.

Lemma unpack_l_tsafe ds : Forall (fun d => tsafe (unpack d)) ds -> tsafe (unpack_l ds).
Proof.
  induction ds as [|d ds IH]; intros HF s v r H.
  - cbn [unpack_l] in H. injection H as <- <-. split; [lia|]. intros k. cbn [unpack_l].
    split; [intros X; lia|]. right. f_equal. f_equal. now rewrite Nat.sub_diag, Nat.sub_0_r.
  - inversion HF as [|? ? Hd HFs]; subst. specialize (IH HFs). cbn [unpack_l] in H.
    destruct (unpack d s) as [[x s1]|] eqn:D; cbn [obind fst snd] in H; [|discriminate].
    destruct (unpack_l ds s1) as [[xs s2]|] eqn:Ds; cbn [obind fst snd] in H; [|discriminate].
    injection H as <- <-.
    destruct (Hd _ _ _ D) as [L1 _]. destruct (IH _ _ _ Ds) as [L2 _].
    split; [lia|]. intros k. cbn [unpack_l].
    tstep Hd D k. tstep IH Ds (k - (List.length s - List.length s1)).
    split; [intros X; lia|]. right. f_equal. f_equal. f_equal. lia.
Qed.

Lemma seq_loop_step cols n s :
  seq_loop cols (S n) s =
  (do m <- take 4 s;
   if beqb (fst m) START then
     do row <- (if is_simple cols then
                  do q <- take (record_width cols) (snd m); Some (unpack_fixed cols (fst q), snd q)
                else unpack_l cols (snd m));
     do rest <- seq_loop cols n (snd row); Some (fst row :: fst rest, snd rest)
   else Some ([], snd m)).
Proof. reflexivity. Qed.

(* the record loop: also independent of the fuel (the fuel is the length of what is left, so it differs between
   the whole stream and its prefix) *)
Lemma seq_loop_tsafe cols : Forall (fun d => tsafe (unpack d)) cols ->
  forall n s v r, seq_loop cols n s = Some (v, r) ->
    List.length r <= List.length s /\
    forall m k,
      (k < List.length s - List.length r -> seq_loop cols m (firstn k s) = None) /\
      (seq_loop cols m (firstn k s) = None \/
       seq_loop cols m (firstn k s) = Some (v, firstn (k - (List.length s - List.length r)) r)).
Proof.
  intros HF. pose proof (unpack_l_tsafe cols HF) as HL.
  induction n as [|n IH]; intros s v r H; [discriminate|].
  rewrite seq_loop_step in H.
  destruct (take 4 s) as [[m1 m2]|] eqn:T; cbn [obind fst snd] in H; [|discriminate].
  destruct (take_tsafe _ _ _ _ T) as [L1 _].
  destruct (beqb m1 START) eqn:Bm.
  - destruct (is_simple cols) eqn:Sc.
    + destruct (take (record_width cols) m2) as [[q1 q2]|] eqn:T2; cbn [obind fst snd] in H; [|discriminate].
      destruct (seq_loop cols n q2) as [[rows s3]|] eqn:Lp; cbn [obind fst snd] in H; [|discriminate].
      injection H as <- <-.
      destruct (take_tsafe _ _ _ _ T2) as [L2 _]. destruct (IH _ _ _ Lp) as [L3 IHk].
      split; [lia|]. intros [|m] k; [split; [reflexivity|now left]|].
      rewrite seq_loop_step. tstep (take_tsafe 4) T k. rewrite Bm, Sc.
      tstep (take_tsafe (record_width cols)) T2 (k - (List.length s - List.length m2)).
      destruct (IHk m (k - (List.length s - List.length m2) - (List.length m2 - List.length q2))) as [Hlt [E1|E1]].
      * rewrite E1. cbn [obind]. split; [reflexivity|now left].
      * assert (~ (k - (List.length s - List.length m2) - (List.length m2 - List.length q2) < List.length q2 - List.length s3))
          by (intro X; rewrite (Hlt X) in E1; discriminate E1).
        rewrite E1. cbn [obind fst snd]. split; [intros X; lia|]. right. f_equal. f_equal. f_equal. lia.
    + destruct (unpack_l cols m2) as [[row q2]|] eqn:T2; cbn [obind fst snd] in H; [|discriminate].
      destruct (seq_loop cols n q2) as [[rows s3]|] eqn:Lp; cbn [obind fst snd] in H; [|discriminate].
      injection H as <- <-.
      destruct (HL _ _ _ T2) as [L2 _]. destruct (IH _ _ _ Lp) as [L3 IHk].
      split; [lia|]. intros [|m] k; [split; [reflexivity|now left]|].
      rewrite seq_loop_step. tstep (take_tsafe 4) T k. rewrite Bm, Sc.
      tstep HL T2 (k - (List.length s - List.length m2)).
      destruct (IHk m (k - (List.length s - List.length m2) - (List.length m2 - List.length q2))) as [Hlt [E1|E1]].
      * rewrite E1. cbn [obind]. split; [reflexivity|now left].
      * assert (~ (k - (List.length s - List.length m2) - (List.length m2 - List.length q2) < List.length q2 - List.length s3))
          by (intro X; rewrite (Hlt X) in E1; discriminate E1).
        rewrite E1. cbn [obind fst snd]. split; [intros X; lia|]. right. f_equal. f_equal. f_equal. lia.
  - injection H as <- <-. split; [lia|]. intros [|m] k; [split; [reflexivity|now left]|].
    rewrite seq_loop_step. tstep (take_tsafe 4) T k. rewrite Bm.
    split; [intros X; lia|]. right. reflexivity.
Qed.

Theorem unpack_tsafe : forall d, tsafe (unpack d).
Proof.
  induction d as [t a|ms IH|cols IH] using decl_ind2; intros s v r H.
  - cbn [unpack] in H.
    destruct (dec_base t a s) as [[xs s1]|] eqn:D; cbn [obind fst snd] in H; [|discriminate].
    injection H as <- <-. destruct (dec_base_tsafe _ _ _ _ _ D) as [L1 _].
    split; [lia|]. intros k. cbn [unpack]. tstep (dec_base_tsafe t a) D k.
    split; [intros X; lia|]. right. reflexivity.
  - rewrite unpack_struct in H.
    destruct (unpack_l ms s) as [[xs s1]|] eqn:D; cbn [obind fst snd] in H; [|discriminate].
    injection H as <- <-. pose proof (unpack_l_tsafe ms IH) as HL. destruct (HL _ _ _ D) as [L1 _].
    split; [lia|]. intros k. rewrite unpack_struct. tstep HL D k.
    split; [intros X; lia|]. right. reflexivity.
  - rewrite unpack_seq in H.
    destruct (seq_loop cols (S (List.length s)) s) as [[rows s1]|] eqn:D; cbn [obind fst snd] in H; [|discriminate].
    injection H as <- <-. destruct (seq_loop_tsafe cols IH _ _ _ _ D) as [L1 Hk].
    split; [lia|]. intros k. rewrite unpack_seq.
    destruct (Hk (S (List.length (firstn k s))) k) as [Hlt [E|E]].
    + rewrite E. cbn [obind]. split; [reflexivity|now left].
    + rewrite E. cbn [obind fst snd]. split; [|now right].
      intros X. rewrite (Hlt X) in E. discriminate E.
Qed.

(* A DAP2 data stream cut at ANY offset either fails to decode or decodes to exactly the complete value. *)
Theorem dap2_truncation_safe : forall d s v r k,
  unpack d s = Some (v, r) ->
  unpack d (firstn k s) = None \/ exists r', unpack d (firstn k s) = Some (v, r').
Proof.
  intros d s v r k H. destruct (unpack_tsafe d _ _ _ H) as [_ Hk]. destruct (Hk k) as [_ [E|E]]; [now left|right; eauto].
Qed.

(* ... and a cut inside the bytes the decoder consumes always fails: every strict prefix of a reference encoding
   (followed by nothing) is rejected *)
Theorem dap2_strict_prefix_rejected : forall d v b k,
  wf d v -> xdr d v = Some b -> k < List.length b -> unpack d (firstn k b) = None.
Proof.
  intros d v b k Hw Hx Hk. destruct (unpack_xdr d v [] Hw) as (b' & Hx' & U).
  rewrite Hx in Hx'. injection Hx' as <-. rewrite app_nil_r in U.
  destruct (unpack_tsafe d _ _ _ U) as [_ Hc]. destruct (Hc k) as [Hlt _]. apply Hlt. cbn [List.length]. lia.
Qed.
