(* C01: end-to-end DAP2 fidelity = encoder, "Data:" separator, transport, decoder composed. *)
From PydapV Require Import Base Words Xdr XdrProofs Readers ReadersProofs.
Open Scope nat_scope.

(* the client cuts the body at the first "\nData:\n" (bytes.split(b"\nData:\n", 1)) *)
Definition sep : bytes := "010"%char :: s2l "Data:" ++ ["010"%char].

Definition split1 (s : bytes) : option (bytes * bytes) :=
  match find_end sep s with
  | Some e => Some (firstn (e - List.length sep) s, skipn e s)
  | None => None
  end.

(* server: the DDS text (its last newline is the separator's first byte), "Data:\n", the XDR data *)
Definition serve (dds : bytes) (d : decl) (v : val) : option bytes :=
  do data <- dods d v; Some (dds ++ sep ++ data).

(* client: split, then decode with the declaration the DDS denotes *)
Definition receive (body : bytes) (d : decl) : option (bytes * val) :=
  do p <- split1 body; do q <- unpack d (snd p); Some (fst p, fst q).

(* no occurrence of the separator starts inside the DDS text *)
Definition no_early (dds : bytes) : Prop :=
  forall i, i < List.length dds -> prefixb sep (skipn i (dds ++ sep)) = false.

Lemma skipn_app_le' {A} (a b : list A) n : n <= List.length a -> skipn n (a ++ b) = skipn n a ++ b.
Proof. intros H. rewrite skipn_app. replace (n - List.length a) with 0 by lia. reflexivity. Qed.

Lemma split1_ok dds data : no_early dds -> split1 (dds ++ sep ++ data) = Some (dds, data).
Proof.
  intros H. unfold split1.
  assert (E : find_end sep (dds ++ sep ++ data) = Some (List.length dds + List.length sep)).
  { rewrite find_end_shift.
    - assert (F : find_end sep (sep ++ data) = Some (List.length sep)) by reflexivity.
      now rewrite F.
    - intros i Hi. specialize (H i Hi). rewrite app_assoc.
      rewrite skipn_app_le' by (rewrite app_length; lia).
      rewrite prefixb_app_long; [exact H|]. rewrite skipn_length, app_length. lia. }
  rewrite E. f_equal. f_equal.
  - replace (List.length dds + List.length sep - List.length sep) with (List.length dds) by lia.
    rewrite firstn_app, Nat.sub_diag, firstn_all. cbn [firstn]. apply app_nil_r.
  - rewrite app_assoc. rewrite <- app_length. rewrite skipn_app, Nat.sub_diag, skipn_all. reflexivity.
Qed.

(* What the server holds is what the client reads: for every declaration (structures, grids,
   sequences nested to any depth, any number of records) and every well-formed value. *)
Theorem e2e dds d v :
  wf d v -> no_early dds ->
  exists body, serve dds d v = Some body /\ receive body d = Some (dds, v).
Proof.
  intros Hw Hd. destruct (unpack_dods d v [] Hw) as (data & Ed & Eu). rewrite app_nil_r in Eu.
  exists (dds ++ sep ++ data). unfold serve, receive. rewrite Ed. cbn [obind]. split; [reflexivity|].
  rewrite split1_ok by assumption. cbn [obind fst snd]. now rewrite Eu.
Qed.

(* Transports that deliver the bytes unchanged (in-process, HTTP session, cache, saved file) or
   reversibly encoded (gzip): any [deliver] with deliver body = body preserves the result. *)
Section Transport.
  Variable encode decode : bytes -> bytes.
  Hypothesis decode_encode : forall b, decode (encode b) = b.
  Theorem e2e_transport dds d v :
    wf d v -> no_early dds ->
    exists body, serve dds d v = Some body /\ receive (decode (encode body)) d = Some (dds, v).
  Proof.
    intros Hw Hd. destruct (e2e dds d v Hw Hd) as (body & Es & Er). exists body. now rewrite decode_encode.
  Qed.
End Transport.

(* open_dods_file: seek(len(dds text incl. its newline) + len("Data:\n")) is the same cut *)
Lemma dods_file_offset dds data :
  skipn (List.length (dds ++ ["010"%char]) + 6) (dds ++ sep ++ data) = data.
Proof.
  replace (List.length (dds ++ ["010"%char]) + 6) with (List.length (dds ++ sep))
    by (rewrite !app_length; cbn; lia).
  rewrite app_assoc. rewrite skipn_app, Nat.sub_diag, skipn_all. reflexivity.
Qed.

(* decidable version of the hypothesis, evaluated by the check on the DDS texts pydap prints *)
Fixpoint no_earlyb_go (n : nat) (s : bytes) : bool :=
  match n with
  | O => true
  | S n' => negb (prefixb sep s) && match s with [] => true | _ :: t => no_earlyb_go n' t end
  end.
Definition no_earlyb (dds : bytes) : bool := no_earlyb_go (List.length dds) (dds ++ sep).

Lemma no_earlyb_go_spec n : forall s, no_earlyb_go n s = true -> forall i, i < n -> prefixb sep (skipn i s) = false.
Proof.
  induction n as [|n IH]; intros s H i Hi; [lia|].
  cbn [no_earlyb_go] in H. apply andb_true_iff in H as [H1 H2]. apply negb_true_iff in H1.
  destruct i as [|i]; [exact H1|]. destruct s as [|c t]; [now rewrite skipn_nil|]. cbn [skipn]. apply IH; [exact H2|lia].
Qed.
Lemma no_earlyb_ok dds : no_earlyb dds = true -> no_early dds.
Proof. intros H i Hi. now apply (no_earlyb_go_spec (List.length dds)). Qed.
