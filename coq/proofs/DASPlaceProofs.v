(* C08, placement: add_attributes puts every attribute map of a served DAS back on the variable it came from -
   for every variable tree (any depth and width). *)
From PydapV Require Import Base Quote DDS DAS.
From Coq Require Import Lia Permutation.
Open Scope nat_scope.

(* ------------------------------------------------------------------ keys *)
Lemma l2s_inj a b : l2s a = l2s b -> a = b.
Proof.
  revert b; induction a as [|x a IH]; intros [|y b] H; cbn in H; try congruence.
  injection H as -> H. f_equal. apply IH, H.
Qed.
Lemma keqb_refl a : keqb a a = true.
Proof. unfold keqb. apply String.eqb_refl. Qed.
Lemma keqb_eq a b : keqb a b = true <-> a = b.
Proof. unfold keqb. rewrite String.eqb_eq. split; [apply l2s_inj|congruence]. Qed.
Lemma keqb_neq a b : a <> b -> keqb a b = false.
Proof. intros H. destruct (keqb a b) eqn:E; [|reflexivity]. apply keqb_eq in E. contradiction. Qed.

(* ------------------------------------------------------------------ one-level dictionaries *)
Lemma dget_drem_other k k' d : k <> k' -> dget k (drem k' d) = dget k d.
Proof.
  intros H. induction d as [|[x v] d IH]; [reflexivity|]. cbn [drem dget].
  destruct (keqb k' x) eqn:E1.
  - apply keqb_eq in E1. subst x. rewrite (keqb_neq k k' H). reflexivity.
  - cbn [dget]. destruct (keqb k x); [reflexivity|exact IH].
Qed.

Lemma dget_drem_same k d : ~ In k (map fst (drem k d)) -> dget k (drem k d) = None.
Proof.
  induction (drem k d) as [|[x v] l IH]; intros H; [reflexivity|]. cbn [dget]. cbn [map fst] in H.
  rewrite keqb_neq by (intros ->; apply H; left; reflexivity). apply IH. intros Hin. apply H. right. exact Hin.
Qed.

Lemma dget_none k d : ~ In k (map fst d) -> dget k d = None.
Proof.
  induction d as [|[x v] d IH]; intros H; [reflexivity|]. cbn [dget]. cbn [map fst] in H.
  rewrite keqb_neq by (intros ->; apply H; left; reflexivity). apply IH. intros Hin. apply H. right. exact Hin.
Qed.

Lemma dget_in k v d : NoDup (map fst d) -> In (k, v) d -> dget k d = Some v.
Proof.
  induction d as [|[x w] d IH]; intros Hn Hin; [destruct Hin|]. cbn [map fst] in Hn. inversion Hn as [|? ? Hx Hn']; subst.
  cbn [dget]. destruct Hin as [E | Hin].
  - injection E as -> ->. rewrite keqb_refl. reflexivity.
  - rewrite keqb_neq; [apply IH; assumption|]. intros ->. apply Hx. apply (in_map fst) in Hin. exact Hin.
Qed.

Lemma drem_keys_subset k d x : In x (map fst (drem k d)) -> In x (map fst d).
Proof.
  induction d as [|[y v] d IH]; intros H; [exact H|]. cbn [drem] in H. destruct (keqb k y).
  - right. exact H.
  - cbn [map fst] in H |- *. destruct H as [H | H]; [left; exact H|right; apply IH, H].
Qed.

Lemma drem_not_in k d : ~ In k (map fst d) -> drem k d = d.
Proof.
  induction d as [|[y v] d IH]; intros H; [reflexivity|]. cbn [drem]. cbn [map fst] in H.
  rewrite keqb_neq by (intros ->; apply H; left; reflexivity). f_equal. apply IH. intros Hin. apply H. right. exact Hin.
Qed.

Lemma drem_app_l k a b : In k (map fst a) -> drem k (a ++ b) = drem k a ++ b.
Proof.
  induction a as [|[y v] a IH]; intros H; [destruct H|]. cbn [app drem]. destruct (keqb k y) eqn:E; [reflexivity|].
  cbn [app]. f_equal. apply IH. cbn [map fst] in H. destruct H as [H | H]; [|exact H].
  subst y. rewrite keqb_refl in E. discriminate.
Qed.
Lemma drem_app_r k a b : ~ In k (map fst a) -> drem k (a ++ b) = a ++ drem k b.
Proof.
  induction a as [|[y v] a IH]; intros H; [reflexivity|]. cbn [app drem]. cbn [map fst] in H.
  rewrite keqb_neq by (intros ->; apply H; left; reflexivity). f_equal. apply IH. intros Hin. apply H. right. exact Hin.
Qed.

(* dict.update into an empty dict / dset of fresh keys appends *)
Lemma dset_fresh k v d : ~ In k (map fst d) -> dset k v d = d ++ [(k, v)].
Proof.
  induction d as [|[y w] d IH]; intros H; [reflexivity|]. cbn [dset]. cbn [map fst] in H.
  rewrite keqb_neq by (intros ->; apply H; left; reflexivity). cbn [app]. f_equal. apply IH. intros Hin. apply H. right. exact Hin.
Qed.
Lemma dupdate_fresh u : forall d, NoDup (map fst (d ++ u)) -> dupdate d u = d ++ u.
Proof.
  unfold dupdate. induction u as [|[k v] u IH]; intros d H; [now rewrite app_nil_r|].
  cbn [fold_left fst snd]. rewrite dset_fresh.
  - rewrite IH; [now rewrite <- app_assoc|]. rewrite <- app_assoc. exact H.
  - rewrite map_app in H. cbn [map fst] in H. apply NoDup_remove_2 in H. intros Hin. apply H. apply in_or_app. left. exact Hin.
Qed.

(* ------------------------------------------------------------------ paths *)
(* modify the container stored under key k *)
Fixpoint dmod (k : chars) (g : adict -> adict) (d : adict) : adict :=
  match d with
  | [] => []
  | (k', v) :: r => if keqb k k' then (k', match v with ADict d' => ADict (g d') | _ => v end) :: r else (k', v) :: dmod k g r
  end.

Lemma modpath_cons k p f d : modpath (k :: p) f d = dmod k (modpath p f) d.
Proof. cbn [modpath]. induction d as [|[k' v] r IH]; [reflexivity|]. cbn [dmod]. destruct (keqb k k'); [reflexivity|]. f_equal. exact IH. Qed.

Lemma modpath_snoc p : forall n f d, modpath (p ++ [n]) f d = modpath p (dmod n f) d.
Proof.
  induction p as [|k p IH]; intros n f d.
  - cbn [app]. rewrite modpath_cons. reflexivity.
  - cbn [app]. rewrite !modpath_cons. clear -IH. induction d as [|[k' v] r IHd]; [reflexivity|]. cbn [dmod].
    destruct (keqb k k'); [|f_equal; exact IHd]. destruct v; [reflexivity|]. rewrite IH. reflexivity.
Qed.

Lemma dmod_keys k g d : map fst (dmod k g d) = map fst d.
Proof. induction d as [|[k' v] r IH]; [reflexivity|]. cbn [dmod]. destruct (keqb k k'); cbn [map fst]; [reflexivity|]. f_equal. exact IH. Qed.

Lemma dget_dmod_same k g d E : dget k d = Some (ADict E) -> dget k (dmod k g d) = Some (ADict (g E)).
Proof.
  induction d as [|[k' v] r IH]; intros H; [discriminate|]. cbn [dget dmod] in *. destruct (keqb k k') eqn:Ek.
  - injection H as ->. cbn [dget]. rewrite Ek. reflexivity.
  - cbn [dget]. rewrite Ek. apply IH, H.
Qed.
Lemma dget_dmod_other k k' g d : k <> k' -> dget k (dmod k' g d) = dget k d.
Proof.
  intros H. induction d as [|[x v] r IH]; [reflexivity|]. cbn [dmod]. destruct (keqb k' x) eqn:E.
  - apply keqb_eq in E. subst x. cbn [dget]. rewrite (keqb_neq k k' H). reflexivity.
  - cbn [dget]. destruct (keqb k x); [reflexivity|exact IH].
Qed.
Lemma drem_dmod k g d : drem k (dmod k g d) = drem k d.
Proof. induction d as [|[x v] r IH]; [reflexivity|]. cbn [dmod drem]. destruct (keqb k x) eqn:E; cbn [drem]; rewrite E; [reflexivity|]. f_equal. exact IH. Qed.

Lemma dmod_dmod k f g d : dmod k f (dmod k g d) = dmod k (fun x => f (g x)) d.
Proof.
  induction d as [|[x v] r IH]; [reflexivity|]. cbn [dmod]. destruct (keqb k x) eqn:E; cbn [dmod]; rewrite E.
  - destruct v; reflexivity.
  - f_equal. exact IH.
Qed.
Lemma dmod_ext k f g d : (forall x, f x = g x) -> dmod k f d = dmod k g d.
Proof. intros H. induction d as [|[x v] r IH]; [reflexivity|]. cbn [dmod]. destruct (keqb k x); [destruct v; [reflexivity|rewrite H; reflexivity]|f_equal; exact IH]. Qed.

Lemma modpath_modpath p : forall f g d, modpath p f (modpath p g d) = modpath p (fun x => f (g x)) d.
Proof.
  induction p as [|k p IH]; intros f g d; [reflexivity|]. rewrite !modpath_cons, dmod_dmod. apply dmod_ext. intros x. apply IH.
Qed.
Lemma modpath_ext p : forall f g d, (forall x, f x = g x) -> modpath p f d = modpath p g d.
Proof.
  induction p as [|k p IH]; intros f g d H; [apply H|]. rewrite !modpath_cons. apply dmod_ext. intros x. apply IH, H.
Qed.

(* lookups along a path *)
Lemma getpath_snoc p : forall n d,
  getpath (p ++ [n]) d = match getpath p d with
                         | LOk D => match dget n D with Some (ADict E) => LOk E | Some (ALeaf _ _) => LCrash | None => LKey end
                         | other => other
                         end.
Proof.
  induction p as [|k p IH]; intros n d.
  - cbn [app getpath]. destruct (dget n d) as [[t v|E]|]; reflexivity.
  - cbn [app getpath]. destruct (dget k d) as [[t v|E]|]; try reflexivity. apply IH.
Qed.

Lemma getpath_modpath p : forall f d D, getpath p d = LOk D -> getpath p (modpath p f d) = LOk (f D).
Proof.
  induction p as [|k p IH]; intros f d D H.
  - cbn in H |- *. injection H as ->. reflexivity.
  - rewrite modpath_cons. cbn [getpath] in H |- *. destruct (dget k d) as [[t v|E]|] eqn:Ek; try discriminate.
    rewrite (dget_dmod_same k _ d E Ek). apply IH, H.
Qed.

(* ------------------------------------------------------------------ sorting keeps the entries *)
Lemma insert_sorted_perm {V} (kv : chars * V) l : Permutation (insert_sorted kv l) (kv :: l).
Proof.
  induction l as [|x l IH]; [reflexivity|]. cbn [insert_sorted]. destruct (chars_leb (fst kv) (fst x)); [reflexivity|].
  rewrite IH. apply perm_swap.
Qed.
Lemma sort_attrs_perm {V} (l : list (chars * V)) : Permutation (sort_attrs l) l.
Proof.
  unfold sort_attrs. induction l as [|x l IH]; [reflexivity|]. cbn [fold_right]. rewrite insert_sorted_perm. constructor. exact IH.
Qed.
Lemma sort_attrs_keys {V} (l : list (chars * V)) : Permutation (map fst (sort_attrs l)) (map fst l).
Proof. apply Permutation_map, sort_attrs_perm. Qed.

(* ------------------------------------------------------------------ variable trees *)
Definition vname (t : vtree) : chars := match t with VNode _ n _ _ => n end.
Definition vkids (t : vtree) : list vtree := match t with VNode _ _ _ k => k end.
Definition dotfree (n : chars) : bool := forallb (fun c => negb (Ascii.eqb c "."%char)) n.
Fixpoint nodupk (l : list chars) : bool :=
  match l with [] => true | x :: r => negb (existsb (keqb x) r) && nodupk r end.
Lemma nodupk_spec l : nodupk l = true -> NoDup l.
Proof.
  induction l as [|x l IH]; intros H; [constructor|]. cbn [nodupk] in H. apply andb_true_iff in H as [H1 H2].
  constructor; [|apply IH, H2]. intros Hin. apply negb_true_iff in H1.
  assert (existsb (keqb x) l = true) by (apply existsb_exists; exists x; split; [exact Hin|apply keqb_refl]). congruence.
Qed.

Definition is_struct (k : vkind) : bool := match k with KStruct => true | _ => false end.
Definition leafb (t : vtree) : bool := match vkids t with [] => true | _ => false end.

(* names without '.', attribute names and member names of a variable pairwise distinct, members of a Base / Grid are leaves *)
Fixpoint wf_v (t : vtree) : bool :=
  match t with
  | VNode k n attrs kids =>
      dotfree n && nodupk (map fst attrs ++ map vname kids) && forallb wf_v kids &&
      (is_struct k || forallb leafb kids)
  end.

(* what the client must end up with, in walk order *)
Fixpoint all_empty (p : list chars) (t : vtree) : list (list chars * adict) :=
  match t with VNode _ n _ kids => (p ++ [n], []) :: flat_map (all_empty (p ++ [n])) kids end.
Fixpoint expected (p : list chars) (t : vtree) : list (list chars * adict) :=
  match t with
  | VNode k n attrs kids =>
      (p ++ [n], sort_attrs attrs) ::
      (if is_struct k then flat_map (expected (p ++ [n])) kids else flat_map (all_empty (p ++ [n])) kids)
  end.

Section VInd.
  Variable P : vtree -> Prop.
  Hypothesis H : forall k n attrs kids, Forall P kids -> P (VNode k n attrs kids).
  Fixpoint vtree_ind2 (t : vtree) : P t :=
    match t with
    | VNode k n attrs kids =>
        H k n attrs kids ((fix go (l : list vtree) : Forall P l :=
                             match l with [] => Forall_nil _ | x :: r => Forall_cons _ (vtree_ind2 x) (go r) end) kids)
    end.
End VInd.

(* ------------------------------------------------------------------ run_vars *)
Lemma run_vars_app a : forall b st ra sa rb sb,
  run_vars a st = Some (ra, sa) -> run_vars b sa = Some (rb, sb) -> run_vars (a ++ b) st = Some (ra ++ rb, sb).
Proof.
  induction a as [|x a IH]; intros b st ra sa rb sb Ha Hb.
  - cbn in Ha. injection Ha as <- <-. exact Hb.
  - cbn [app run_vars] in *. destruct (var_step x [] st) as [[o s1]|]; [|discriminate]. cbn [obind fst snd] in *.
    destruct (run_vars a s1) as [[ra' sa']|] eqn:E; [|discriminate]. cbn [obind fst snd] in Ha. injection Ha as <- <-.
    rewrite (IH b s1 ra' sa' rb sb E Hb). reflexivity.
Qed.

Definition dotfree_keys (st : adict) : Prop := Forall (fun k => dotfree k = true) (map fst st).

Lemma cjoin_dot_has_dot a b r : existsb (Ascii.eqb "."%char) (cjoin dot (a :: b :: r)) = true.
Proof.
  change (cjoin dot (a :: b :: r)) with (a ++ dot ++ cjoin dot (b :: r)). rewrite existsb_app. apply orb_true_iff. right.
  reflexivity.
Qed.

Lemma dotfree_no_dot k : dotfree k = true -> existsb (Ascii.eqb "."%char) k = false.
Proof.
  unfold dotfree. induction k as [|c k IH]; intros H; [reflexivity|]. cbn [forallb existsb] in *. apply andb_true_iff in H as [Hc H].
  rewrite Ascii.eqb_sym. destruct (Ascii.eqb c "."%char); [discriminate|]. apply IH, H.
Qed.

Lemma flat_key_absent st a b r : dotfree_keys st -> dget (cjoin dot (a :: b :: r)) st = None.
Proof.
  intros H. apply dget_none. intros Hin. unfold dotfree_keys in H. rewrite Forall_forall in H. specialize (H _ Hin).
  apply dotfree_no_dot in H. rewrite cjoin_dot_has_dot in H. discriminate.
Qed.

(* a variable whose container is not in the DAS (a Grid member): nothing happens *)
Lemma var_step_absent q m st E :
  q <> [] -> dotfree_keys st -> getpath q st = LOk E -> ~ In m (map fst E) ->
  var_step (q ++ [m]) [] st = Some ([], st).
Proof.
  intros Hq Hk Hg Hm. unfold var_step.
  assert (Hflat : dget (cjoin dot (q ++ [m])) st = None).
  { destruct q as [|a q]; [congruence|]. destruct q as [|b q]; cbn [app]; apply flat_key_absent, Hk. }
  rewrite Hflat. cbn [obind]. rewrite removelast_last, last_last, Hg. rewrite (dget_none m E Hm). reflexivity.
Qed.

(* ------------------------------------------------------------------ the step of a variable whose container is in the DAS *)
Lemma var_step_present p n st D E :
  dotfree_keys st -> NoDup (map fst st) -> getpath p st = LOk D -> dget n D = Some (ADict E) -> NoDup (map fst E) ->
  var_step (p ++ [n]) [] st = Some (E, modpath p (drem n) st).
Proof.
  intros Hk Hn Hg Hd HE. unfold var_step. destruct p as [|a p].
  - cbn in Hg. injection Hg as <-. cbn [app cjoin]. rewrite Hd. cbn [obind].
    rewrite (dupdate_fresh E []) by exact HE. cbn [app removelast last getpath].
    assert (Hnone : dget n (drem n st) = None).
    { apply dget_none. clear -Hn Hd. induction st as [|[x v] st IH]; [discriminate|]. cbn [dget drem] in *. cbn [map fst] in Hn.
      inversion Hn as [|? ? Hx Hn']; subst. destruct (keqb n x) eqn:Ex.
      - apply keqb_eq in Ex. subst x. exact Hx.
      - cbn [map fst]. intros [H | H]; [subst x; rewrite keqb_refl in Ex; discriminate|]. apply (IH Hn' Hd H). }
    rewrite Hnone. reflexivity.
  - assert (Hflat : dget (cjoin dot ((a :: p) ++ [n])) st = None).
    { destruct p as [|b p]; cbn [app]; apply flat_key_absent, Hk. }
    rewrite Hflat. cbn [obind]. rewrite removelast_last, last_last, Hg, Hd.
    rewrite (dupdate_fresh E []) by exact HE. reflexivity.
Qed.

(* ------------------------------------------------------------------ removing all member containers *)
Definition drem_all (names : list chars) (d : adict) : adict := fold_right drem d names.

Lemma dget_drem_all_other k names d : ~ In k names -> dget k (drem_all names d) = dget k d.
Proof.
  induction names as [|x names IH]; intros H; [reflexivity|]. cbn [drem_all fold_right].
  rewrite dget_drem_other by (intros ->; apply H; left; reflexivity). apply IH. intros Hin. apply H. right. exact Hin.
Qed.

Lemma drem_all_keys names d x : In x (map fst (drem_all names d)) -> In x (map fst d).
Proof. induction names as [|y names IH]; intros H; [exact H|]. cbn [drem_all fold_right] in H. apply drem_keys_subset in H. apply IH, H. Qed.

Lemma drem_nodup k d : NoDup (map fst d) -> NoDup (map fst (drem k d)).
Proof.
  induction d as [|[x v] d IH]; intros H; [constructor|]. cbn [map fst] in H. inversion H as [|? ? Hx Hn]; subst. cbn [drem].
  destruct (keqb k x); [exact Hn|]. cbn [map fst]. constructor; [|apply IH, Hn]. intros Hin. apply Hx. apply (drem_keys_subset k d x Hin).
Qed.
Lemma drem_all_nodup names d : NoDup (map fst d) -> NoDup (map fst (drem_all names d)).
Proof. induction names as [|y names IH]; intros H; [exact H|]. cbn [drem_all fold_right]. apply drem_nodup, IH, H. Qed.

Lemma modpath_keys q f d : q <> [] -> map fst (modpath q f d) = map fst d.
Proof. destruct q as [|k q]; [congruence|]. intros _. rewrite modpath_cons. apply dmod_keys. Qed.

Lemma inv_after q names st :
  dotfree_keys st -> NoDup (map fst st) ->
  dotfree_keys (modpath q (drem_all names) st) /\ NoDup (map fst (modpath q (drem_all names) st)).
Proof.
  intros Hk Hn. destruct q as [|k q].
  - cbn [modpath]. split; [|apply drem_all_nodup, Hn].
    unfold dotfree_keys in *. rewrite Forall_forall in *. intros x Hx. apply Hk. apply (drem_all_keys names st x Hx).
  - unfold dotfree_keys. rewrite modpath_keys by discriminate. split; assumption.
Qed.

(* removing the member containers from a variable's container leaves its attributes *)
Lemma drem_all_entries (A : adict) (kids : list vtree) (f : vtree -> aval) :
  NoDup (map fst A ++ map vname kids) ->
  drem_all (map vname kids) (A ++ map (fun c => (vname c, f c)) kids) = A.
Proof.
  revert A. induction kids as [|c kids IH]; intros A H; [cbn; now rewrite app_nil_r|].
  cbn [map drem_all fold_right].
  assert (H1 : NoDup (map fst (A ++ [(vname c, f c)]) ++ map vname kids)).
  { rewrite map_app. cbn [map fst]. rewrite <- app_assoc. exact H. }
  replace (A ++ (vname c, f c) :: map (fun c0 => (vname c0, f c0)) kids)
    with ((A ++ [(vname c, f c)]) ++ map (fun c0 => (vname c0, f c0)) kids) by (rewrite <- app_assoc; reflexivity).
  fold (drem_all (map vname kids) ((A ++ [(vname c, f c)]) ++ map (fun c0 => (vname c0, f c0)) kids)).
  rewrite (IH (A ++ [(vname c, f c)]) H1).
  rewrite drem_app_r.
  - cbn [drem]. rewrite keqb_refl. apply app_nil_r.
  - apply NoDup_remove_2 in H. intros Hin. apply H. apply in_or_app. left. exact Hin.
Qed.

(* ------------------------------------------------------------------ the members of a Base / Grid: not in the DAS *)
Lemma proc_absent kids : forall q st E,
  q <> [] -> dotfree_keys st -> getpath q st = LOk E ->
  (forall c, In c kids -> ~ In (vname c) (map fst E)) -> forallb leafb kids = true ->
  run_vars (rev (flat_map (walk_paths q) kids)) st = Some (rev (flat_map (all_empty q) kids), st).
Proof.
  induction kids as [|c kids IH]; intros q st E Hq Hk Hg Hm Hl; [reflexivity|].
  cbn [forallb] in Hl. apply andb_true_iff in Hl as [Hc Hl]. destruct c as [k n attrs ck]. unfold leafb in Hc. cbn [vkids] in Hc.
  destruct ck; [|discriminate]. cbn [flat_map walk_paths all_empty app]. cbn [rev].
  eapply run_vars_app.
  - apply (IH q st E Hq Hk Hg); [intros c Hc'; apply Hm; right; exact Hc'|exact Hl].
  - cbn [run_vars]. rewrite (var_step_absent q n st E Hq Hk Hg); [reflexivity|]. apply (Hm (VNode k n attrs [])). left. reflexivity.
Qed.

Definition entry_dict (t : vtree) : adict := match snd (das_entry t) with ADict d => d | _ => [] end.
Lemma das_entry_shape t : das_entry t = (vname t, ADict (entry_dict t)).
Proof. destruct t as [k n attrs kids]. reflexivity. Qed.

(* the statement proved by induction over the tree *)
Definition placed (t : vtree) : Prop :=
  forall p st D,
    wf_v t = true -> dotfree_keys st -> NoDup (map fst st) -> Forall (fun x => dotfree x = true) p ->
    getpath p st = LOk D -> dget (vname t) D = Some (ADict (entry_dict t)) ->
    run_vars (rev (walk_paths p t)) st = Some (rev (expected p t), modpath p (drem (vname t)) st).

Lemma proc_kids q kids : forall st E,
  Forall placed kids -> forallb wf_v kids = true -> dotfree_keys st -> NoDup (map fst st) ->
  Forall (fun x => dotfree x = true) q ->
  getpath q st = LOk E -> (forall c, In c kids -> dget (vname c) E = Some (ADict (entry_dict c))) -> NoDup (map vname kids) ->
  run_vars (rev (flat_map (walk_paths q) kids)) st =
  Some (rev (flat_map (expected q) kids), modpath q (drem_all (map vname kids)) st).
Proof.
  induction kids as [|c kids IH]; intros st E HP Hw Hk Hn Hq Hg Hd Hnd.
  - cbn. f_equal. f_equal. symmetry. clear. revert st. induction q as [|k q IHq]; intros st; [reflexivity|].
    rewrite modpath_cons. induction st as [|[x v] st IHs]; [reflexivity|]. cbn [dmod]. destruct (keqb k x).
    + destruct v; [reflexivity|]. rewrite IHq. reflexivity.
    + f_equal. exact IHs.
  - inversion HP as [|? ? Hc HP']; subst. cbn [forallb] in Hw. apply andb_true_iff in Hw as [Hwc Hw].
    cbn [map] in Hnd. inversion Hnd as [|? ? Hnc Hnd']; subst.
    cbn [flat_map]. rewrite !rev_app_distr.
    eapply run_vars_app.
    + apply (IH st E HP' Hw Hk Hn Hq Hg); [intros c' Hc'; apply Hd; right; exact Hc'|exact Hnd'].
    + destruct (inv_after q (map vname kids) st Hk Hn) as [Hk' Hn'].
      rewrite (Hc q _ (drem_all (map vname kids) E) Hwc Hk' Hn' Hq).
      * f_equal. f_equal. rewrite modpath_modpath. reflexivity.
      * apply getpath_modpath, Hg.
      * rewrite dget_drem_all_other by exact Hnc. apply Hd. left. reflexivity.
Qed.

Lemma nodup_app_parts {T} (a b : list T) : NoDup (a ++ b) -> NoDup a /\ NoDup b /\ (forall x, In x b -> ~ In x a).
Proof.
  induction a as [|x a IH]; intros H.
  - repeat split; [constructor|exact H|intros y _ []].
  - inversion H as [|? ? Hx Hn]; subst. destruct (IH Hn) as (Ha & Hb & Hd). repeat split.
    + constructor; [|exact Ha]. intros Hin. apply Hx. apply in_or_app. left. exact Hin.
    + exact Hb.
    + intros y Hy [-> | Hin]; [apply Hx; apply in_or_app; right; exact Hy|apply (Hd y Hy Hin)].
Qed.

Theorem placed_all t : placed t.
Proof.
  induction t as [k n attrs kids IH] using vtree_ind2. intros p st D Hw Hk Hn Hp Hg Hd.
  cbn [wf_v] in Hw. apply andb_true_iff in Hw as [Hw Hleaf]. apply andb_true_iff in Hw as [Hw Hwk].
  apply andb_true_iff in Hw as [Hdn Hnd]. apply nodupk_spec in Hnd.
  destruct (nodup_app_parts _ _ Hnd) as (Hna & Hnk & Hdis).
  cbn [vname] in *. cbn [walk_paths expected]. cbn [rev]. set (q := p ++ [n]).
  assert (Hq : Forall (fun x => dotfree x = true) q) by (apply Forall_app; split; [exact Hp|constructor; [exact Hdn|constructor]]).
  assert (HsortN : NoDup (map fst (sort_attrs attrs))).
  { eapply Permutation_NoDup; [symmetry; apply sort_attrs_keys|exact Hna]. }
  assert (Hgq : getpath q st = LOk (entry_dict (VNode k n attrs kids))).
  { unfold q. rewrite getpath_snoc, Hg, Hd. reflexivity. }
  destruct k; cbn [is_struct orb] in Hleaf |- *.
  - (* Base: members (none in practice) are not in the DAS *)
    eapply run_vars_app.
    + apply (proc_absent kids q st (sort_attrs attrs ++ [])); [unfold q; destruct p; discriminate|exact Hk|exact Hgq| |exact Hleaf].
      intros c Hc Hin. rewrite app_nil_r in Hin. apply (Hdis (vname c)); [apply in_map, Hc|].
      eapply Permutation_in; [apply sort_attrs_keys|exact Hin].
    + cbn [run_vars]. unfold q. rewrite (var_step_present p n st D (sort_attrs attrs ++ []) Hk Hn Hg Hd);
        [rewrite app_nil_r; reflexivity|rewrite app_nil_r; exact HsortN].
  - (* Structure / Sequence *)
    cbn [entry_dict das_entry snd] in Hd, Hgq.
    assert (Hents : map das_entry kids = map (fun c => (vname c, ADict (entry_dict c))) kids)
      by (apply map_ext; intros c; apply das_entry_shape).
    rewrite Hents in Hd, Hgq.
    eapply run_vars_app.
    + apply (proc_kids q kids st _ IH Hwk Hk Hn Hq Hgq); [|exact Hnk].
      intros c Hc. apply dget_in.
      * rewrite map_app, map_map. cbn [fst]. eapply Permutation_NoDup; [|exact Hnd].
        apply Permutation_app; [symmetry; apply sort_attrs_keys|reflexivity].
      * apply in_or_app. right. apply in_map_iff. exists c. split; [reflexivity|exact Hc].
    + cbn [run_vars]. destruct (inv_after q (map vname kids) st Hk Hn) as [Hk' Hn'].
      unfold q in *. rewrite modpath_snoc in *.
      set (g := drem_all (map vname kids)) in *.
      rewrite (var_step_present p n _ (dmod n g D) (sort_attrs attrs) Hk' Hn').
      * cbn [obind run_vars fst snd]. f_equal. f_equal. rewrite modpath_modpath. apply modpath_ext. intros x. apply drem_dmod.
      * apply getpath_modpath, Hg.
      * rewrite (dget_dmod_same n g D _ Hd). f_equal. f_equal. unfold g.
        apply (drem_all_entries (sort_attrs attrs) kids (fun c => ADict (entry_dict c))).
        eapply Permutation_NoDup; [|exact Hnd]. apply Permutation_app; [symmetry; apply sort_attrs_keys|reflexivity].
      * exact HsortN.
  - (* Grid: the members are not in the DAS *)
    eapply run_vars_app.
    + apply (proc_absent kids q st (sort_attrs attrs ++ [])); [unfold q; destruct p; discriminate|exact Hk|exact Hgq| |exact Hleaf].
      intros c Hc Hin. rewrite app_nil_r in Hin. apply (Hdis (vname c)); [apply in_map, Hc|].
      eapply Permutation_in; [apply sort_attrs_keys|exact Hin].
    + cbn [run_vars]. unfold q. rewrite (var_step_present p n st D (sort_attrs attrs ++ []) Hk Hn Hg Hd);
        [rewrite app_nil_r; reflexivity|rewrite app_nil_r; exact HsortN].
Qed.

(* ------------------------------------------------------------------ the whole dataset *)
Definition no_global_dict (kv : chars * aval) : bool := negb (is_dict (snd kv) && is_global_name (fst kv)).

(* dataset attribute names and variable names are pairwise distinct and free of '.', none is the dataset's own name, no
   NC_GLOBAL / DODS_EXTRA container among the dataset attributes (those are flattened: see the harness) *)
Definition wf_ds (dsname : chars) (dsa : adict) (kids : list vtree) : bool :=
  nodupk (map fst dsa ++ map vname kids) && forallb dotfree (map fst dsa) && forallb wf_v kids &&
  negb (existsb (keqb dsname) (map fst dsa ++ map vname kids)) && forallb no_global_dict dsa &&
  forallb (fun c => negb (is_global_name (vname c))) kids.

Lemma global_dicts_none l : forallb no_global_dict l = true -> forall g, fold_left (fun g kv => match kv with
                         | (k, ADict d) => if is_global_name k then dupdate g d else g
                         | _ => g
                         end) l g = g.
Proof.
  induction l as [|[k v] l IH]; intros H g; [reflexivity|]. cbn [forallb] in H. apply andb_true_iff in H as [Hx H].
  cbn [fold_left]. unfold no_global_dict in Hx. cbn [fst snd] in Hx. destruct v as [t vs|d]; [apply IH, H|].
  cbn [is_dict andb] in Hx. destruct (is_global_name k); [discriminate|]. apply IH, H.
Qed.

Lemma filter_all_true {T} (f : T -> bool) l : forallb f l = true -> filter f l = l.
Proof. induction l as [|x l IH]; intros H; [reflexivity|]. cbn [forallb] in H. apply andb_true_iff in H as [Hx H]. cbn [filter]. rewrite Hx. f_equal. apply IH, H. Qed.

Theorem add_attributes_das_of dsname dsa kids :
  wf_ds dsname dsa kids = true ->
  add_attributes dsname kids (das_of dsa kids) = Some (sort_attrs dsa, flat_map (expected []) kids).
Proof.
  unfold wf_ds. intros H. apply andb_true_iff in H as [H Hgk]. apply andb_true_iff in H as [H Hng].
  apply andb_true_iff in H as [H Hds]. apply andb_true_iff in H as [H Hwk]. apply andb_true_iff in H as [Hnd Hdf].
  apply nodupk_spec in Hnd. destruct (nodup_app_parts _ _ Hnd) as (Hna & Hnk & Hdis).
  set (st0 := das_of dsa kids).
  assert (Hents : map das_entry kids = map (fun c => (vname c, ADict (entry_dict c))) kids)
    by (apply map_ext; intros c; apply das_entry_shape).
  assert (Hkeys : Permutation (map fst st0) (map fst dsa ++ map vname kids)).
  { unfold st0, das_of. rewrite map_app, Hents, map_map. cbn [fst]. apply Permutation_app; [apply sort_attrs_keys|reflexivity]. }
  assert (Hn0 : NoDup (map fst st0)) by (eapply Permutation_NoDup; [symmetry; exact Hkeys|exact Hnd]).
  assert (Hk0 : dotfree_keys st0).
  { unfold dotfree_keys. apply Forall_forall. intros x Hx. eapply Permutation_in in Hx; [|exact Hkeys].
    apply in_app_or in Hx as [Hx | Hx].
    - rewrite forallb_forall in Hdf. apply Hdf, Hx.
    - apply in_map_iff in Hx as (c & <- & Hc). rewrite forallb_forall in Hwk. specialize (Hwk c Hc). destruct c as [k n a ks].
      cbn [wf_v] in Hwk. apply andb_true_iff in Hwk as [Hw _]. apply andb_true_iff in Hw as [Hw _]. apply andb_true_iff in Hw as [Hw _]. exact Hw. }
  (* no global containers: the state the variables see is the parsed DAS itself *)
  assert (Hnog : forallb no_global_dict st0 = true).
  { unfold st0, das_of. rewrite forallb_app. apply andb_true_iff. split.
    - rewrite forallb_forall in *. intros x Hx. apply Hng. eapply Permutation_in; [apply sort_attrs_perm|exact Hx].
    - rewrite forallb_forall. intros x Hx. apply in_map_iff in Hx as (c & <- & Hc). rewrite das_entry_shape. unfold no_global_dict.
      cbn [fst snd is_dict andb]. rewrite forallb_forall in Hgk. apply (Hgk c Hc). }
  unfold add_attributes. fold st0.
  assert (Hg0 : global_dicts st0 = []) by (unfold global_dicts; apply (global_dicts_none st0 Hnog [])).
  assert (Hw0 : without_global_dicts st0 = st0) by (unfold without_global_dicts; apply filter_all_true, Hnog).
  rewrite Hg0, Hw0.
  (* the variables *)
  assert (Hrun : run_vars (rev (flat_map (walk_paths []) kids)) st0 =
                 Some (rev (flat_map (expected []) kids), modpath [] (drem_all (map vname kids)) st0)).
  { apply (proc_kids [] kids st0 st0); try assumption.
    - apply Forall_forall. intros t _. apply placed_all.
    - constructor.
    - reflexivity.
    - intros c Hc. apply dget_in; [exact Hn0|]. unfold st0, das_of. apply in_or_app. right. rewrite Hents.
      apply in_map_iff. exists c. split; [reflexivity|exact Hc]. }
  rewrite Hrun. cbn [obind fst snd modpath].
  assert (Hfinal : drem_all (map vname kids) st0 = sort_attrs dsa).
  { unfold st0, das_of. rewrite Hents. apply (drem_all_entries (sort_attrs dsa) kids (fun c => ADict (entry_dict c))).
    eapply Permutation_NoDup; [|exact Hnd]. apply Permutation_app; [symmetry; apply sort_attrs_keys|reflexivity]. }
  rewrite Hfinal.
  (* the dataset itself: its name is no key *)
  assert (Hnot : ~ In dsname (map fst (sort_attrs dsa))).
  { intros Hin. eapply Permutation_in in Hin; [|apply sort_attrs_keys]. apply negb_true_iff in Hds.
    assert (existsb (keqb dsname) (map fst dsa ++ map vname kids) = true)
      by (apply existsb_exists; exists dsname; split; [apply in_or_app; left; exact Hin|apply keqb_refl]). congruence. }
  unfold var_step. cbn [cjoin]. rewrite (dget_none dsname _ Hnot). cbn [obind removelast last getpath].
  rewrite (dget_none dsname _ Hnot). cbn [obind fst snd]. rewrite rev_involutive.
  f_equal. f_equal. change (fold_left (fun acc kv => dset (fst kv) (snd kv) acc) (sort_attrs dsa) []) with (dupdate [] (sort_attrs dsa)).
  apply (dupdate_fresh (sort_attrs dsa) []). cbn [app]. eapply Permutation_NoDup; [symmetry; apply sort_attrs_keys|exact Hna].
Qed.
