(* C02: the index arithmetic of remote subsetting, composed from the C03 laws.
   client:  idx1 = combine_slices stored (fix_slice idx shape) ; query text = id ++ hyperslab idx1
   server:  parse_hyperslab text, numpy selection on the source array. *)
From PydapV Require Import Base Slices SliceArith SliceProofs HyperslabProofs StrLemmas.
From Coq Require Import ZifyBool.
Open Scope Z_scope.
Ltac Zify.zify_post_hook ::= Z.to_euclidean_division_equations.

Lemma item_normalised_wn it : item_normalised it -> wn (slice_of it).
Proof.
  destruct it as [i|s|]; cbn; intros H; [repeat split; cbn; lia|now apply normalised_wn|contradiction].
Qed.

(* an integer index i (kept as a length-1 axis) is the slice i:i+1 *)
Lemma int_as_slice M i : 0 <= i < M -> np_indices M (mkSlice (Some i) (Some (i + 1)) None) = [i].
Proof.
  intros H. unfold np_indices. cbn [start stop step clamp_start clamp_stop step_of].
  replace (i <? 0) with false by lia. replace (i >=? M) with false by lia.
  replace (i + 1 <? 0) with false by lia.
  destruct (i + 1 >=? M) eqn:E.
  - assert (M = i + 1) by lia. subst M. unfold cnt. replace (i + 1 <=? i) with false by lia.
    replace ((i + 1 - i + 1 - 1) / 1) with 1 by (rewrite Z.div_1_r; lia). reflexivity.
  - unfold cnt. replace (i + 1 <=? i) with false by lia.
    replace ((i + 1 - i + 1 - 1) / 1) with 1 by (rewrite Z.div_1_r; lia). reflexivity.
Qed.

Lemma np_axis_normalised M it :
  item_normalised it -> (match it with IInt i => i < M | _ => True end) ->
  np_axis M it = Some (np_indices M (slice_of it)).
Proof.
  destruct it as [i|s|]; cbn [item_normalised np_axis slice_of]; intros H Hb; [|reflexivity|contradiction].
  replace ((- M <=? i) && (i <? M)) with true by lia. unfold np_int. replace (i <? 0) with false by lia.
  now rewrite int_as_slice by lia.
Qed.

Lemma combine1_shape s1 s2 b2 :
  wn s1 -> wn s2 -> stop s2 = Some b2 ->
  normalised (combine1 s1 s2).
Proof.
  intros (Ha1 & Hb1 & Hk1) (Ha2 & Hb2 & Hk2) Es. unfold combine1. rewrite Es. rewrite Es in Hb2. cbn in Hb2.
  assert (0 <= or_default (start s1) 0) by (apply or_default_ge; [assumption|lia]).
  assert (1 <= or_default (step s1) 1) by (apply or_default_ge; [assumption|lia]).
  assert (0 <= or_default (start s2) 0) by (apply or_default_ge; [assumption|lia]).
  assert (1 <= or_default (step s2) 1) by (apply or_default_ge; [assumption|lia]).
  destruct (stop s1) as [b1|] eqn:E; cbn in Hb1; do 3 eexists; (split; [reflexivity|]); repeat split; nia.
Qed.

Lemma item_normalised_stop it : item_normalised it -> exists b, stop (slice_of it) = Some b.
Proof.
  destruct it as [i|s|]; cbn; intros H; [now eexists| |contradiction].
  destruct H as (a & b & k & -> & _). now eexists.
Qed.

(* One axis of a remote read.  N0: extent of the source axis; ps: the slice stored in the proxy
   (the hyperslab of the URL the dataset was opened with, or slice(None)); M: extent of the axis the
   client sees; it: the index item given by the user, in numpy's domain for M. *)
Theorem remote_axis N0 ps it :
  0 <= N0 -> wn ps ->
  let M := lenZ (np_indices N0 ps) in
  item_in_domain M it ->
  exists it' c,
    fix1 it M = Some it' /\ c = combine1 ps (slice_of it') /\
    (* the source elements the request addresses are exactly those numpy selects from the pre-sliced axis *)
    Some (np_indices N0 c) = option_map (map (nthZ (np_indices N0 ps))) (np_axis M it) /\
    (* and, when anything is selected, the query text reaches the server as that very slice *)
    (np_indices N0 c <> [] ->
     exists text, hyperslab [ISlice c] = Some text /\ parse_hyperslab text = Some [ISlice c]).
Proof.
  intros HN Hps M Hd.
  assert (HM : 0 <= M) by (unfold M, lenZ; lia).
  destruct (fix1_item M it HM Hd) as (it' & Ef & Hn & Hax).
  exists it', (combine1 ps (slice_of it')). split; [exact Ef|]. split; [reflexivity|].
  assert (Hwn' : wn (slice_of it')) by (now apply item_normalised_wn).
  assert (Hbound : match it' with IInt i => i < M | _ => True end).
  { destruct it as [i|sl|]; cbn in Ef; try discriminate.
    - injection Ef as <-. cbn in Hd. destruct (i <? 0) eqn:?; lia.
    - injection Ef as <-. exact I. }
  split.
  - rewrite <- Hax, (np_axis_normalised M it' Hn Hbound). cbn [option_map]. f_equal.
    apply combine1_law; assumption.
  - intros Hne. destruct (item_normalised_stop it' Hn) as (b2 & Eb2).
    pose proof (combine1_shape ps (slice_of it') b2 Hps Hwn' Eb2) as Hc.
    apply hyperslab_roundtrip. constructor; [|constructor].
    eapply normalised_nonempty_printable; eassumption.
Qed.

(* all axes of an array (or of a grid's array and, axis by axis, of its maps) *)
Theorem remote_axes shape0 stored idx :
  Forall (fun N => 0 <= N) shape0 ->
  Forall2 (fun N0 ps => wn ps) shape0 stored ->
  Forall2 (fun (Nps : Z * slice) it => item_in_domain (lenZ (np_indices (fst Nps) (snd Nps))) it) (combine shape0 stored) idx ->
  Forall2 (fun (Nps : Z * slice) it =>
             exists it' c, fix1 it (lenZ (np_indices (fst Nps) (snd Nps))) = Some it' /\
                           c = combine1 (snd Nps) (slice_of it') /\
                           Some (np_indices (fst Nps) c) =
                             option_map (map (nthZ (np_indices (fst Nps) (snd Nps))))
                                        (np_axis (lenZ (np_indices (fst Nps) (snd Nps))) it))
          (combine shape0 stored) idx.
Proof.
  intros Hs Hst Hd.
  assert (Hall : Forall (fun Nps : Z * slice => 0 <= fst Nps /\ wn (snd Nps)) (combine shape0 stored)).
  { clear Hd idx. revert Hs. induction Hst as [|N ps shape0 stored Hw _ IH]; intros Hs; [constructor|].
    inversion Hs; subst. constructor; [split; assumption|now apply IH]. }
  induction Hd as [|[N ps] it l idx Hit _ IH]; [constructor|].
  inversion Hall as [|? ? [HN Hw] Hall']; subst. constructor; [|now apply IH].
  cbn [fst snd] in *. destruct (remote_axis N ps it HN Hw Hit) as (it' & c & E1 & E2 & E3 & _).
  exists it', c. repeat split; assumption.
Qed.
