(* C03: fix_slice preserves the selection; combine_slices composes selections. *)
From PydapV Require Import Base Slices SliceArith.
From Coq Require Import ZifyBool.
Open Scope Z_scope.
Ltac Zify.zify_post_hook ::= Z.to_euclidean_division_equations.

(* ------------------------------------------------------------ domains *)
Definition opt_ge (lo : Z) (x : option Z) : Prop := match x with None => True | Some v => lo <= v end.

(* the property's input domain for one axis of length N *)
Definition in_domain (N : Z) (s : slice) : Prop :=
  opt_ge (-N) (start s) /\ opt_ge (-N) (stop s) /\ opt_ge 1 (step s).

Definition item_in_domain (N : Z) (it : item) : Prop :=
  match it with
  | IInt i => -N <= i < N
  | ISlice s => in_domain N s
  | IEllipsis => False
  end.

(* what fix_slice produces: no None, no negative bound, positive step *)
Definition normalised (s : slice) : Prop :=
  exists a b k, s = mkSlice (Some a) (Some b) (Some k) /\ 0 <= a /\ 0 <= b /\ 1 <= k.
Definition item_normalised (it : item) : Prop :=
  match it with IInt i => 0 <= i | ISlice s => normalised s | IEllipsis => False end.

(* the weaker shape combine_slices accepts as stored/further slice: None allowed *)
Definition wn (s : slice) : Prop := opt_ge 0 (start s) /\ opt_ge 0 (stop s) /\ opt_ge 1 (step s).
Definition item_wn (it : item) : Prop :=
  match it with IInt i => 0 <= i | ISlice s => wn s | IEllipsis => False end.

Lemma normalised_wn s : normalised s -> wn s.
Proof. intros (a & b & k & -> & ? & ? & ?); repeat split; cbn; lia. Qed.

(* ------------------------------------------------------------ law 1, one axis *)
Lemma fix1_slice N s :
  0 <= N -> in_domain N s ->
  exists s', fix1 (ISlice s) N = Some (ISlice s') /\ normalised s' /\
             clamp_start N (start s') = clamp_start N (start s) /\
             clamp_stop N (stop s') = clamp_stop N (stop s) /\
             step_of (step s') = step_of (step s).
Proof.
  intros HN (Ha & Hb & Hk). destruct s as [sa sb sk]; cbn in *.
  eexists; split; [reflexivity|].
  split.
  - do 3 eexists; split; [reflexivity|].
    destruct sa as [a|], sb as [b|], sk as [k|]; cbn in *; unfold or_default;
      repeat match goal with |- context [if ?c then _ else _] => destruct c eqn:? end; lia.
  - cbn. unfold clamp_start, clamp_stop, or_default, step_of.
    destruct sa as [a|], sb as [b|], sk as [k|]; cbn in *;
      split_ifs; repeat split; lia.
Qed.

Lemma fix1_preserves N s :
  0 <= N -> in_domain N s ->
  exists s', fix1 (ISlice s) N = Some (ISlice s') /\ normalised s' /\ np_indices N s' = np_indices N s.
Proof.
  intros HN Hd. destruct (fix1_slice N s HN Hd) as (s' & E & Hn & H1 & H2 & H3).
  exists s'; repeat split; try assumption.
  unfold np_indices. now rewrite H1, H2, H3.
Qed.

Lemma fix1_item N it :
  0 <= N -> item_in_domain N it ->
  exists it', fix1 it N = Some it' /\ item_normalised it' /\ np_axis N it' = np_axis N it.
Proof.
  intros HN Hd. destruct it as [i|s|]; [| |contradiction].
  - cbn in Hd. eexists; split; [reflexivity|]. split.
    + cbn. destruct (i <? 0) eqn:?; lia.
    + cbn. unfold np_int.
      destruct (i <? 0) eqn:E.
      * replace ((- N <=? i + N) && (i + N <? N)) with true by lia.
        replace ((- N <=? i) && (i <? N)) with true by lia.
        replace (i + N <? 0) with false by lia. reflexivity.
      * replace ((- N <=? i) && (i <? N)) with true by lia.
        rewrite E. reflexivity.
  - destruct (fix1_preserves N s HN Hd) as (s' & E & Hn & Hi).
    exists (ISlice s'); repeat split; try assumption. cbn. now rewrite Hi.
Qed.

(* ------------------------------------------------------------ law 1, tuples *)
Definition no_ellipsis (sl : list item) : Prop := Forall (fun it => is_ellipsis it = false) sl.

Lemma fs_expand_plain sl e out :
  no_ellipsis sl -> fs_expand sl e out = (out ++ sl, e).
Proof.
  revert out; induction sl as [|it sl IH]; intros out H; cbn.
  - now rewrite app_nil_r.
  - inversion H as [|? ? Hit Hsl]; subst.
    destruct it; try discriminate; rewrite IH by assumption; now rewrite <- app_assoc.
Qed.

Lemma np_expand_plain sl r : no_ellipsis sl -> np_expand sl r = sl ++ repeat full (r - List.length sl).
Proof.
  revert r; induction sl as [|it sl IH]; intros r H; cbn.
  - now rewrite Nat.sub_0_r.
  - inversion H as [|? ? Hit Hsl]; subst.
    destruct it; try discriminate; rewrite IH by assumption;
      now replace (r - 1 - List.length sl)%nat with (r - S (List.length sl))%nat by lia.
Qed.

(* at most one Ellipsis *)
Inductive one_ellipsis : list item -> Prop :=
| OE_plain sl : no_ellipsis sl -> one_ellipsis sl
| OE_one pre post : no_ellipsis pre -> no_ellipsis post -> one_ellipsis (pre ++ IEllipsis :: post).

Lemma fs_expand_np sl (r : nat) :
  one_ellipsis sl ->
  let '(out, e') := fs_expand sl (Z.of_nat r - Z.of_nat (List.length sl)) [] in
  out ++ repeat full (Z.to_nat e') = np_expand sl r.
Proof.
  intros [sl' H | pre post Hpre Hpost].
  - rewrite fs_expand_plain by assumption. cbn [app].
    rewrite np_expand_plain by assumption. f_equal. f_equal. lia.
  - assert (G : forall out e r',
      fs_expand (pre ++ IEllipsis :: post) e out =
        (out ++ pre ++ repeat full (Z.to_nat (e + 1)) ++ post, 0)
      /\ np_expand (pre ++ IEllipsis :: post) r' =
         pre ++ repeat full (r' - List.length pre - List.length post) ++ post).
    { clear r. induction pre as [|it pre IH]; intros out e r'.
      - cbn. rewrite fs_expand_plain by assumption. rewrite <- app_assoc.
        split; [reflexivity|]. now rewrite Nat.sub_0_r.
      - inversion Hpre as [|? ? Hit Hp]; subst. specialize (IH Hp).
        destruct it; try discriminate; cbn.
        + destruct (IH (out ++ [IInt i]) e (r' - 1)%nat) as [E1 E2]. rewrite E1, E2.
          rewrite <- app_assoc. cbn. split; [reflexivity|].
          do 4 f_equal. lia.
        + destruct (IH (out ++ [ISlice s]) e (r' - 1)%nat) as [E1 E2]. rewrite E1, E2.
          rewrite <- app_assoc. cbn. split; [reflexivity|].
          do 4 f_equal. lia. }
    destruct (G [] (Z.of_nat r - Z.of_nat (List.length (pre ++ IEllipsis :: post))) r) as [E1 E2].
    rewrite E1, E2. cbn [app repeat Z.to_nat]. rewrite app_nil_r.
    rewrite app_length. cbn [List.length].
    do 3 f_equal. lia.
Qed.

Lemma fix_zip_preserves shape sl :
  Forall (fun N => 0 <= N) shape ->
  Forall2 item_in_domain shape sl ->
  exists out, fix_zip sl shape = Some out /\ Forall item_normalised out /\
              List.length out = List.length shape /\
              np_select_axes shape out = np_select_axes shape sl.
Proof.
  intros Hs H. induction H as [|N it shape sl Hd H IH].
  - exists []; cbn; repeat split; constructor.
  - inversion Hs as [|? ? HN Hs']; subst. destruct (IH Hs') as (out & E & Hn & Hl & Hsel).
    destruct (fix1_item N it HN Hd) as (it' & E1 & Hn1 & Hax).
    exists (it' :: out). cbn. rewrite E1, E. cbn. repeat split.
    + constructor; assumption.
    + now rewrite Hl.
    + now rewrite Hax, Hsel.
Qed.

Theorem fix_slice_preserves_tuple shape sl :
  Forall (fun N => 0 <= N) shape ->
  one_ellipsis sl ->
  Forall2 item_in_domain shape (np_expand sl (List.length shape)) ->
  exists out, fix_slice sl shape = Some out /\ Forall item_normalised out /\
              List.length out = List.length shape /\
              np_select_axes shape out = np_select shape sl.
Proof.
  intros Hs Hone Hd. unfold fix_slice, np_select.
  pose proof (fs_expand_np sl (List.length shape) Hone) as E.
  destruct (fs_expand sl _ []) as [out e']. rewrite E.
  apply fix_zip_preserves; assumption.
Qed.

(* ------------------------------------------------------------ law 2, one axis *)
Lemma clamp_start_wn N x : 0 <= N -> opt_ge 0 x -> clamp_start N x = Z.min (or_default x 0) N.
Proof.
  intros HN H. destruct x as [v|]; cbn in *; unfold or_default;
    repeat match goal with |- context [if ?c then _ else _] => destruct c eqn:? end; lia.
Qed.

Lemma clamp_stop_wn N v : 0 <= N -> 0 <= v -> clamp_stop N (Some v) = Z.min v N.
Proof.
  intros HN H. cbn.
  repeat match goal with |- context [if ?c then _ else _] => destruct c eqn:? end; lia.
Qed.

Lemma step_of_wn x : opt_ge 1 x -> step_of x = or_default x 1.
Proof. destruct x as [v|]; cbn; unfold or_default; [|reflexivity]. intros. destruct (v =? 0) eqn:?; lia. Qed.

Definition nthZ (l : list Z) (j : Z) : Z := nth (Z.to_nat j) l 0.
Definition lenZ (l : list Z) : Z := Z.of_nat (List.length l).

(* the arithmetic heart of the composition law *)
Lemma compose_core N a1 B1 k1 a2 b2 k2 :
  0 <= N -> 0 <= a1 -> 0 <= a2 -> 1 <= k1 -> 1 <= k2 -> 0 <= B1 <= N -> 0 <= b2 ->
  let a1' := Z.min a1 N in
  let M := cnt a1' B1 k1 in
  let A := a1 + a2 * k1 in
  let B := Z.min B1 (a1 + b2 * k1) in
  prog (Z.to_nat (cnt (Z.min A N) B (k1 * k2))) (Z.min A N) (k1 * k2) =
  map (nthZ (prog (Z.to_nat M) a1' k1))
      (prog (Z.to_nat (cnt (Z.min a2 M) (Z.min b2 M) k2)) (Z.min a2 M) k2).
Proof.
  intros HN Ha1 Ha2 Hk1 Hk2 HB1 Hb2 a1' M A B.
  assert (HM0 : 0 <= M) by (apply cnt_nonneg; lia).
  set (n2 := cnt (Z.min a2 M) (Z.min b2 M) k2).
  assert (Hn20 : 0 <= n2) by (apply cnt_nonneg; lia).
  (* rewrite the right-hand side as a progression *)
  rewrite (map_prog_affine _ a1' k1).
  2:{ intros t Ht. unfold nthZ.
      assert (Hlt : Z.min a2 M + k2 * Z.of_nat t < Z.min b2 M) by (apply prog_cnt_bound; [lia|exact Ht]).
      rewrite nth_prog by lia. rewrite Z2Nat.id by lia. reflexivity. }
  destruct (Z.eq_dec n2 0) as [Hz|Hnz].
  - (* empty second selection: the combined slice is empty too *)
    rewrite Hz. cbn [Z.to_nat prog].
    assert (Hle : Z.min b2 M <= Z.min a2 M).
    { destruct (Z_lt_le_dec (Z.min a2 M) (Z.min b2 M)) as [Hlt|]; [|assumption].
      apply (proj2 (cnt_pos_iff _ _ k2 ltac:(lia))) in Hlt. fold n2 in Hlt. lia. }
    rewrite cnt_zero; [reflexivity|nia|].
    destruct (Z_lt_le_dec a1' B1) as [Hlt1|Hge1].
    + destruct (cnt_spec a1' B1 k1 ltac:(lia) Hlt1) as [HMp [HM1 HM2]]. fold M in HMp, HM1, HM2.
      assert (a1' = a1) by lia.
      destruct (Z_le_dec b2 a2); unfold B, A; nia.
    + unfold B, A. nia.
  - (* non-empty: same count, same first element, same step *)
    assert (Hn2 : 0 < n2) by lia.
    assert (Hlt2 : Z.min a2 M < Z.min b2 M) by (apply (proj1 (cnt_pos_iff _ _ k2 ltac:(lia))); exact Hn2).
    assert (HMp : 0 < M) by lia.
    assert (Hlt1 : a1' < B1) by (apply (proj1 (cnt_pos_iff _ _ k1 ltac:(lia))); exact HMp).
    destruct (cnt_spec a1' B1 k1 ltac:(lia) Hlt1) as [_ [HM1 HM2]]. fold M in HM1, HM2.
    destruct (cnt_spec (Z.min a2 M) (Z.min b2 M) k2 ltac:(lia) Hlt2) as [_ [Hc1 Hc2]]. fold n2 in Hc1, Hc2.
    assert (E1 : a1' = a1) by lia.
    assert (E2 : Z.min a2 M = a2) by lia.
    assert (EA : Z.min A N = A) by (unfold A; nia).
    rewrite EA, E2, E1 in *.
    assert (Ecnt : cnt A B (k1 * k2) = n2).
    { apply cnt_unique; [nia|lia|]. unfold A, B.
      assert (T1 : a2 + k2 * (n2 - 1) <= M - 1) by lia.
      assert (T2 : a2 + k2 * (n2 - 1) <= b2 - 1) by lia.
      split.
      - apply Z.min_glb_lt; nia.
      - destruct (Z_le_dec b2 M); nia. }
    rewrite Ecnt. apply prog_eq; intros; unfold A; ring.
Qed.

(* effective (start, stop, step) of a wn slice on an axis of length N *)
Lemma np_indices_wn N s : 0 <= N -> wn s ->
  np_indices N s =
  let a := Z.min (or_default (start s) 0) N in
  let b := match stop s with None => N | Some v => Z.min v N end in
  prog (Z.to_nat (cnt a b (or_default (step s) 1))) a (or_default (step s) 1).
Proof.
  intros HN (Ha & Hb & Hk). unfold np_indices.
  rewrite clamp_start_wn, step_of_wn by assumption.
  destruct (stop s) as [v|] eqn:E; [rewrite clamp_stop_wn by (cbn in Hb; lia)|]; reflexivity.
Qed.

Lemma or_default_ge x d lo : opt_ge lo x -> lo <= d -> lo <= or_default x d.
Proof. destruct x as [v|]; cbn; unfold or_default; intros; [destruct (v =? 0) eqn:?|]; lia. Qed.

Theorem combine1_law N s1 s2 :
  0 <= N -> wn s1 -> wn s2 ->
  np_indices N (combine1 s1 s2) =
  map (nthZ (np_indices N s1)) (np_indices (lenZ (np_indices N s1)) s2).
Proof.
  intros HN H1 H2.
  pose proof H1 as (Ha1 & Hb1 & Hk1). pose proof H2 as (Ha2 & Hb2 & Hk2).
  set (a1 := or_default (start s1) 0). set (k1 := or_default (step s1) 1).
  set (a2 := or_default (start s2) 0). set (k2 := or_default (step s2) 1).
  assert (0 <= a1) by (apply or_default_ge; [assumption|lia]).
  assert (0 <= a2) by (apply or_default_ge; [assumption|lia]).
  assert (1 <= k1) by (apply or_default_ge; [assumption|lia]).
  assert (1 <= k2) by (apply or_default_ge; [assumption|lia]).
  set (B1 := match stop s1 with None => N | Some v => Z.min v N end).
  assert (HB1 : 0 <= B1 <= N) by (unfold B1; destruct (stop s1); cbn in Hb1; lia).
  rewrite (np_indices_wn N s1 HN H1). cbn zeta. fold a1 k1 B1.
  set (M := cnt (Z.min a1 N) B1 k1).
  assert (HM0 : 0 <= M) by (apply cnt_nonneg; lia).
  unfold lenZ. rewrite prog_length, Z2Nat.id by assumption.
  rewrite (np_indices_wn M s2 HM0 H2). cbn zeta. fold a2 k2.
  (* the combined slice is wn *)
  assert (Hwn : wn (combine1 s1 s2)).
  { unfold combine1. fold a1 k1 a2 k2. repeat split; cbn; [nia| |nia].
    destruct (stop s1) as [b1|], (stop s2) as [b2|]; cbn in *; try exact I; nia. }
  rewrite (np_indices_wn N _ HN Hwn). cbn zeta.
  unfold combine1 at 1 2 3 4 5. fold a1 k1 a2 k2. cbn [start stop step].
  assert (Es : or_default (Some (a1 + a2 * k1)) 0 = a1 + a2 * k1).
  { unfold or_default. destruct (a1 + a2 * k1 =? 0) eqn:?; lia. }
  assert (Ek : or_default (Some (k1 * k2)) 1 = k1 * k2).
  { unfold or_default. destruct (k1 * k2 =? 0) eqn:?; nia. }
  rewrite Es, Ek.
  destruct (stop s2) as [b2|] eqn:Eb2.
  - (* second stop given *)
    cbn in Hb2.
    pose proof (compose_core N a1 B1 k1 a2 b2 k2 HN ltac:(lia) ltac:(lia) ltac:(lia) ltac:(lia) HB1 Hb2) as C.
    cbn zeta in C. fold M in C. rewrite <- C.
    replace (match stop s1 with
             | Some b1 => Some (Z.min b1 (a1 + b2 * k1))
             | None => Some (a1 + b2 * k1)
             end) with (Some (match stop s1 with Some b1 => Z.min b1 (a1 + b2 * k1) | None => a1 + b2 * k1 end))
      by (destruct (stop s1); reflexivity).
    replace (Z.min (match stop s1 with Some b1 => Z.min b1 (a1 + b2 * k1) | None => a1 + b2 * k1 end) N)
      with (Z.min B1 (a1 + b2 * k1)) by (unfold B1; destruct (stop s1); lia).
    reflexivity.
  - (* second stop None: behaves as b2 = M + N *)
    pose proof (compose_core N a1 B1 k1 a2 (M + N) k2 HN ltac:(lia) ltac:(lia) ltac:(lia) ltac:(lia) HB1 ltac:(lia)) as C.
    cbn zeta in C. fold M in C.
    replace (Z.min (M + N) M) with M in C by lia. rewrite <- C.
    replace (Z.min B1 (a1 + (M + N) * k1)) with B1 by nia.
    replace (match match stop s1 with Some b1 => Some b1 | None => None end with
             | Some v => Z.min v N | None => N end) with B1
      by (unfold B1; destruct (stop s1); reflexivity).
    reflexivity.
Qed.

(* ------------------------------------------------------------ law 2, tuples *)
Definition slice_of (it : item) : slice :=
  match it with IInt v => mkSlice (Some v) (Some (v + 1)) None | ISlice s => s | IEllipsis => full_slice end.

Lemma as_slice_wn it : item_wn it -> as_slice it = Some (slice_of it) /\ wn (slice_of it).
Proof.
  destruct it as [v|s|]; cbn; intros H; [|split; [reflexivity|assumption]|contradiction].
  split; [reflexivity|]. repeat split; cbn; lia.
Qed.

Lemma zip_longest_Forall {A} (P : A -> Prop) d (a b : list A) :
  P d -> Forall P a -> Forall P b -> Forall (fun p => P (fst p) /\ P (snd p)) (zip_longest d a b).
Proof.
  intros Hd Ha. revert b. induction Ha as [|x a Hx Ha IH]; intros b Hb; cbn.
  - induction Hb; cbn; constructor; auto.
  - destruct Hb as [|y b Hy Hb]; constructor; cbn; auto.
    clear IH. induction Ha; cbn; constructor; auto.
Qed.

Theorem combine_slices_law s1 s2 :
  Forall item_wn s1 -> Forall item_wn s2 ->
  exists out,
    combine_slices s1 s2 = Some (map ISlice out) /\
    Forall2 (fun p c => forall N, 0 <= N ->
               np_indices N c =
               map (nthZ (np_indices N (slice_of (fst p))))
                   (np_indices (lenZ (np_indices N (slice_of (fst p)))) (slice_of (snd p))))
            (zip_longest full s1 s2) out.
Proof.
  intros H1 H2. unfold combine_slices.
  assert (Hf : item_wn full) by (repeat split; cbn; exact I).
  pose proof (zip_longest_Forall item_wn full s1 s2 Hf H1 H2) as HZ.
  induction HZ as [|[e1 e2] l [Hp1 Hp2] HZ IH]; cbn.
  - exists []; split; [reflexivity|constructor].
  - destruct IH as (out & E & F).
    destruct (as_slice_wn e1 Hp1) as [E1 W1], (as_slice_wn e2 Hp2) as [E2 W2].
    cbn in *. rewrite E1, E2. cbn. rewrite E. cbn.
    exists (combine1 (slice_of e1) (slice_of e2) :: out); split; [reflexivity|].
    constructor; [|assumption]. cbn. intros N HN. apply combine1_law; assumption.
Qed.
