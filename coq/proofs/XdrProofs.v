(* C05 / C01: the encoder model produces the XDR encoding; the decoder model inverts it. *)
From PydapV Require Import Base Words WordsProofs Xdr.
From Coq Require Import Nnat Znat.
Open Scope nat_scope.

(* ---------------------------------------------------------------- induction principle *)
Lemma decl_ind2 (P : decl -> Prop) :
  (forall t a, P (DBase t a)) ->
  (forall ms, Forall P ms -> P (DStruct ms)) ->
  (forall cols, Forall P cols -> P (DSeq cols)) ->
  forall d, P d.
Proof.
  intros HB HS HQ. fix IH 1. intros [t a|ms|cols]; [apply HB|apply HS|apply HQ].
  - induction ms as [|c ms IHm]; constructor; [apply IH|exact IHm].
  - induction cols as [|c cs IHc]; constructor; [apply IH|exact IHc].
Qed.

(* ---------------------------------------------------------------- well-formed values *)
Definition scalar_ok (t : dty) (x : scalar) : Prop :=
  match t, x with
  | TByte, SInt z => (0 <= z < 256)%Z
  | TInt16, SInt z => (-32768 <= z < 32768)%Z
  | TUInt16, SInt z => (0 <= z < 65536)%Z
  | TInt32, SInt z => (-2147483648 <= z < 2147483648)%Z
  | TUInt32, SInt z => (0 <= z < 4294967296)%Z
  | TFloat32, SBits n => (n < 4294967296)%N
  | TFloat64, SBits n => (n < 18446744073709551616)%N
  | TString, SStr s => (N.of_nat (List.length s) < 2147483648)%N
  | _, _ => False
  end.

Fixpoint wf (d : decl) (v : val) {struct d} : Prop :=
  match d, v with
  | DBase t None, VBase xs => exists x, xs = [x] /\ scalar_ok t x
  | DBase t (Some n), VBase xs =>
      List.length xs = n /\ Forall (scalar_ok t) xs /\ (N.of_nat n < 2147483648)%N
  | DStruct ms, VStruct vs =>
      (fix go (ds : list decl) (vs : list val) : Prop :=
         match ds, vs with
         | [], [] => True
         | d' :: ds', v' :: vs' => wf d' v' /\ go ds' vs'
         | _, _ => False
         end) ms vs
  | DSeq cols, VSeq rows =>
      (fix rows_go (rows : list (list val)) : Prop :=
         match rows with
         | [] => True
         | r :: rs =>
             (fix go (ds : list decl) (vs : list val) : Prop :=
                match ds, vs with
                | [], [] => True
                | d' :: ds', v' :: vs' => wf d' v' /\ go ds' vs'
                | _, _ => False
                end) cols r /\ rows_go rs
         end) rows
  | _, _ => False
  end.

(* the nested fixpoints, named *)
Fixpoint wf_list (ds : list decl) (vs : list val) : Prop :=
  match ds, vs with
  | [], [] => True
  | d' :: ds', v' :: vs' => wf d' v' /\ wf_list ds' vs'
  | _, _ => False
  end.
Lemma wf_struct ms vs : wf (DStruct ms) (VStruct vs) = wf_list ms vs.
Proof. cbn [wf]. revert vs; induction ms as [|d ms IH]; intros [|v vs]; cbn; try reflexivity; try now rewrite IH. Qed.
Lemma wf_seq_cons cols r rs : wf (DSeq cols) (VSeq (r :: rs)) = (wf_list cols r /\ wf (DSeq cols) (VSeq rs)).
Proof. reflexivity. Qed.

Fixpoint xdr_l (ds : list decl) (vs : list val) : option bytes :=
  match ds, vs with
  | [], [] => Some []
  | d' :: ds', v' :: vs' => do a <- xdr d' v'; do b <- xdr_l ds' vs'; Some (a ++ b)
  | _, _ => None
  end.
Lemma xdr_struct ms vs : xdr (DStruct ms) (VStruct vs) = xdr_l ms vs.
Proof. cbn [xdr]. revert vs; induction ms as [|d ms IH]; intros [|v vs]; cbn; try reflexivity; try now rewrite IH. Qed.
Lemma xdr_seq_nil cols : xdr (DSeq cols) (VSeq []) = Some ENDM.
Proof. reflexivity. Qed.
Lemma xdr_seq_cons cols r rs :
  xdr (DSeq cols) (VSeq (r :: rs)) =
  (do a <- xdr_l cols r; do b <- xdr (DSeq cols) (VSeq rs); Some (START ++ a ++ b)).
Proof.
  cbn [xdr].
  assert (E : forall ds vs, (fix go (ds : list decl) (vs : list val) : option bytes :=
             match ds, vs with
             | [], [] => Some []
             | d' :: ds', v' :: vs' => do a <- xdr d' v'; do b <- go ds' vs'; Some (a ++ b)
             | _, _ => None
             end) ds vs = xdr_l ds vs).
  { induction ds as [|d ds IH]; intros [|v vs]; cbn; try reflexivity; try now rewrite IH. }
  now rewrite E.
Qed.

(* ================================================================ encoder = SPEC *)
Lemma pad_arith n : n + (4 - n mod 4) mod 4 - n = (4 - n mod 4) mod 4.
Proof. lia. Qed.

Lemma pack_cell_xdr t v : pack_cell (DBase t None) v = xdr (DBase t None) v.
Proof.
  destruct v as [xs| |]; try reflexivity. destruct xs as [|x [|y xs]]; try reflexivity.
  cbn [pack_cell xdr xdr_base].
  destruct t, x; cbn [atom obind is_byte app]; try reflexivity; rewrite ?app_nil_r; try reflexivity.
  unfold pad4. now rewrite pad_arith.
Qed.

Lemma pack_record_xdr cols row : is_flat cols = true -> pack_record cols row = xdr_l cols row.
Proof.
  revert row; induction cols as [|d cols IH]; intros [|v row] Hf; cbn; try reflexivity.
  cbn in Hf. apply andb_true_iff in Hf as [Hd Hf]. destruct d as [t [n|]| |]; try discriminate.
  rewrite pack_cell_xdr, IH by assumption. reflexivity.
Qed.

Theorem dods_is_xdr : forall d v, dods d v = xdr d v.
Proof.
  induction d as [t a|ms IH|cols IH] using decl_ind2; intros v.
  - reflexivity.
  - destruct v as [|vs|]; try reflexivity. cbn [dods xdr].
    revert vs; induction IH as [|d ms Hd _ IHms]; intros [|v vs]; try reflexivity.
    rewrite Hd, IHms. reflexivity.
  - destruct v as [| |rows]; try reflexivity.
    assert (Hl : forall r, (fix go (ds : list decl) (vs : list val) : option bytes :=
               match ds, vs with
               | [], [] => Some []
               | d' :: ds', v' :: vs' => do a <- dods d' v'; do b <- go ds' vs'; Some (a ++ b)
               | _, _ => None
               end) cols r = xdr_l cols r).
    { clear rows. induction IH as [|d ds Hd _ IHds]; intros [|v vs]; try reflexivity.
      cbn [xdr_l]. rewrite Hd, IHds. reflexivity. }
    cbn [dods]. destruct (is_flat cols) eqn:Ef.
    + induction rows as [|r rs IHr]; [reflexivity|].
      rewrite xdr_seq_cons, pack_record_xdr by assumption. rewrite IHr. reflexivity.
    + induction rows as [|r rs IHr]; [reflexivity|].
      rewrite xdr_seq_cons, Hl. rewrite IHr. reflexivity.
Qed.

(* ================================================================ decoder inverts SPEC *)
Lemma be32_length n : List.length (be32 n) = 4.
Proof. apply be_enc_length. Qed.

Lemma rd32_be32 n rest :
  (N.of_nat n < 4294967296)%N -> n <= List.length rest -> rd32 (be32 n ++ rest) = Some (n, rest).
Proof.
  intros Hn Hl. unfold rd32. rewrite take_app by apply be32_length. cbn [obind fst snd].
  unfold be32. rewrite be_dec_enc by exact Hn.
  replace (N.of_nat (List.length rest) <? N.of_nat n)%N with false by (symmetry; apply N.ltb_ge; lia).
  now rewrite Nat2N.id.
Qed.

Lemma pad4_length n : List.length (pad4 n) = (4 - n mod 4) mod 4.
Proof. apply repeat_length. Qed.

Lemma dec_string_ok s rest :
  scalar_ok TString (SStr s) ->
  dec_string (be32 (List.length s) ++ s ++ pad4 (List.length s) ++ rest) = Some (SStr s, rest).
Proof.
  cbn [scalar_ok]. intros Hs. unfold dec_string.
  rewrite rd32_be32; [|lia|rewrite app_length; lia]. cbn [obind].
  rewrite take_app by reflexivity. cbn [obind fst snd].
  rewrite take_app by apply pad4_length. reflexivity.
Qed.

Lemma mod16 z : (to_unsigned 4 z mod 65536)%N = to_unsigned 2 z.
Proof.
  unfold to_unsigned. change (8 * Z.of_nat 4)%Z with 32%Z. change (8 * Z.of_nat 2)%Z with 16%Z.
  apply N2Z.inj. rewrite N2Z.inj_mod. change (Z.of_N 65536) with (2 ^ 16)%Z.
  rewrite !Z2N.id by (apply Z.mod_pos_bound; reflexivity).
  change (2 ^ 32)%Z with (2 ^ 16 * 2 ^ 16)%Z. set (b := (2 ^ 16)%Z).
  assert (Hb : (b <> 0)%Z) by (unfold b; discriminate).
  rewrite Z.rem_mul_r by (try assumption; unfold b; reflexivity). rewrite (Z.mul_comm b), Z.mod_add by assumption.
  now apply Z.mod_mod.
Qed.

Lemma atom_ok t x :
  scalar_ok t x -> is_string t = false ->
  exists a, atom t x = Some a /\ List.length a = wire_width t /\ dec_num t a = x.
Proof.
  intros Hok Hs. destruct t, x; try contradiction; try discriminate; cbn [scalar_ok] in Hok; cbn [atom wire_width];
    eexists; (split; [reflexivity|]); (split; [try apply be_enc_length; reflexivity|]); unfold dec_num.
  - (* Byte *) unfold be_dec. cbn [fold_left]. rewrite val_byte. rewrite N.mod_small by lia. f_equal. lia.
  - (* Int16 *) rewrite be_dec_enc by apply to_unsigned_bound. rewrite mod16. f_equal.
    apply signed_roundtrip; [lia|]. change (8 * Z.of_nat 2 - 1)%Z with 15%Z. change (2 ^ 15)%Z with 32768%Z. lia.
  - (* UInt16 *) rewrite be_dec_enc by (change (256 ^ N.of_nat 4)%N with 4294967296%N; lia).
    rewrite N.mod_small by lia. f_equal. lia.
  - (* Int32 *) rewrite be_dec_enc by apply to_unsigned_bound. f_equal.
    apply signed_roundtrip; [lia|]. change (8 * Z.of_nat 4 - 1)%Z with 31%Z. change (2 ^ 31)%Z with 2147483648%Z. lia.
  - (* UInt32 *) rewrite be_dec_enc by (change (256 ^ N.of_nat 4)%N with 4294967296%N; lia). f_equal. lia.
  - (* Float32 *) now rewrite be_dec_enc by (change (256 ^ N.of_nat 4)%N with 4294967296%N; lia).
  - (* Float64 *) now rewrite be_dec_enc by (change (256 ^ N.of_nat 8)%N with 18446744073709551616%N; lia).
Qed.

Lemma firstn_app_exact {A} (a b : list A) : firstn (List.length a) (a ++ b) = a.
Proof. rewrite firstn_app, Nat.sub_diag, firstn_all. cbn. apply app_nil_r. Qed.
Lemma skipn_app_exact {A} (a b : list A) : skipn (List.length a) (a ++ b) = b.
Proof. rewrite skipn_app, Nat.sub_diag, skipn_all. reflexivity. Qed.

Lemma wire_width_pos t : 1 <= wire_width t.
Proof. destruct t; cbn; lia. Qed.

(* n numeric elements *)
Lemma atoms_ok t xs :
  Forall (scalar_ok t) xs -> is_string t = false ->
  exists body, omap (atom t) xs = Some body /\
               List.length (List.concat body) = wire_width t * List.length xs /\
               forall rest, map (dec_num t) (pieces (wire_width t) (List.length xs) (List.concat body ++ rest)) = xs.
Proof.
  intros H Hs. induction H as [|x xs Hx _ (body & Eb & El & Ep)].
  - exists []. split; [reflexivity|]. split; [cbn; lia|]. intros rest. reflexivity.
  - destruct (atom_ok t x Hx Hs) as (a & Ea & La & Da).
    exists (a :: body). cbn [omap obind]. rewrite Ea, Eb. cbn [obind]. split; [reflexivity|]. split.
    + cbn [List.concat List.length]. rewrite app_length, El, La. lia.
    + intros rest. cbn [List.length pieces List.concat map]. rewrite <- app_assoc. rewrite <- La.
      rewrite firstn_app_exact, skipn_app_exact, Da. f_equal. rewrite La. apply Ep.
Qed.

Lemma strings_ok xs rest :
  Forall (scalar_ok TString) xs ->
  exists body, omap (atom TString) xs = Some body /\ 4 * List.length xs <= List.length (List.concat body) /\
               dec_strings (List.length xs) (List.concat body ++ rest) = Some (xs, rest).
Proof.
  induction 1 as [|x xs Hx _ (body & Eb & El & Ed)].
  - exists []. split; [reflexivity|]. split; [cbn; lia|reflexivity].
  - destruct x as [| |s]; try contradiction.
    exists ((be32 (List.length s) ++ s ++ pad4 (List.length s)) :: body).
    cbn [omap atom obind]. rewrite Eb. cbn [obind]. split; [reflexivity|]. split.
    + cbn [List.concat List.length]. rewrite !app_length, be32_length. lia.
    + cbn [List.length dec_strings List.concat]. rewrite <- !app_assoc.
      rewrite dec_string_ok by exact Hx. cbn [obind fst snd]. rewrite Ed. reflexivity.
Qed.

Lemma dec_base_ok t arr xs rest :
  wf (DBase t arr) (VBase xs) ->
  exists b, xdr_base t arr xs = Some b /\ dec_base t arr (b ++ rest) = Some (xs, rest).
Proof.
  destruct arr as [n|]; cbn [wf].
  - intros (Hl & Hok & Hn). unfold xdr_base, dec_base. subst n. rewrite Nat.eqb_refl.
    destruct (is_string t) eqn:Es.
    + destruct t; try discriminate.
      destruct (strings_ok xs rest Hok) as (body & Eb & El & Ed). rewrite Eb. cbn [obind is_byte is_string].
      eexists; split; [reflexivity|]. rewrite app_nil_r. rewrite <- !app_assoc. cbn [app].
      rewrite rd32_be32; [|lia|rewrite app_length; lia]. cbn [obind]. rewrite Ed. cbn [obind fst].
      now rewrite Nat.eqb_refl.
    + destruct (atoms_ok t xs Hok Es) as (body & Eb & El & Ep). rewrite Eb. cbn [obind].
      eexists; split; [reflexivity|]. rewrite <- !app_assoc.
      rewrite rd32_be32; [|lia|rewrite !app_length, be32_length; pose proof (wire_width_pos t); nia]. cbn [obind].
      rewrite take_app by apply be32_length. cbn [obind snd].
      rewrite take_app by (rewrite El; reflexivity). cbn [obind fst snd]. rewrite Nat.eqb_refl.
      assert (Hp : map (dec_num t) (pieces (wire_width t) (List.length xs) (List.concat body)) = xs).
      { specialize (Ep []). now rewrite app_nil_r in Ep. }
      rewrite Hp.
      destruct (is_byte t); [|now rewrite app_nil_l].
      rewrite take_app by apply pad4_length. reflexivity.
  - intros (x & -> & Hx). unfold xdr_base, dec_base. destruct (is_string t) eqn:Es.
    + destruct t; try discriminate. destruct x as [| |s]; try contradiction. cbn [atom obind is_byte].
      eexists; split; [reflexivity|]. rewrite app_nil_r, <- !app_assoc.
      rewrite dec_string_ok by exact Hx. reflexivity.
    + destruct (atom_ok t x Hx Es) as (a & Ea & La & Da). rewrite Ea. cbn [obind].
      eexists; split; [reflexivity|]. rewrite <- app_assoc. rewrite take_app by exact La. cbn [obind fst snd].
      rewrite Da. destruct (is_byte t); [|reflexivity]. now rewrite (take_app 3).
Qed.

(* the fixed-width fast path reads what the per-value encoding wrote *)
Lemma unpack_fixed_ok cols : forall row,
  is_simple cols = true -> wf_list cols row ->
  exists b, xdr_l cols row = Some b /\ List.length b = record_width cols /\
            forall rest, unpack_fixed cols (b ++ rest) = row.
Proof.
  induction cols as [|d cols IH]; intros [|v row] Hs Hw; try contradiction.
  - exists []. repeat split; reflexivity.
  - cbn in Hs. apply andb_true_iff in Hs as [Hd Hs]. destruct d as [t [n|]| |]; try discriminate.
    apply negb_true_iff in Hd. destruct Hw as [Hv Hw].
    destruct v as [xs| |]; try contradiction. destruct Hv as (x & -> & Hx).
    destruct (IH row Hs Hw) as (b & Eb & Lb & Ub).
    destruct (atom_ok t x Hx Hd) as (a & Ea & La & Da).
    cbn [xdr_l xdr xdr_base]. rewrite Ea. cbn [obind]. rewrite Eb. cbn [obind].
    eexists; split; [reflexivity|]. split.
    + cbn [record_width fold_right cell_width]. fold (record_width cols). rewrite !app_length, Lb, La.
      destruct (is_byte t) eqn:Eby; [destruct t; try discriminate; reflexivity|cbn; lia].
    + intros rest. cbn [unpack_fixed cell_width]. rewrite <- !app_assoc. rewrite <- La at 1.
      rewrite firstn_app_exact, Da. f_equal.
      destruct (is_byte t) eqn:Eby.
      * destruct t; try discriminate. cbn [wire_width] in La.
        destruct a as [|a0 [|a1 a]]; try discriminate. cbn [app skipn]. apply Ub.
      * replace (wire_width t) with (List.length a). cbn [app]. rewrite skipn_app_exact. apply Ub.
Qed.

(* sequences: the record loop with enough fuel *)
Definition seq_loop (cols : list decl) :=
  fix loop (n : nat) (s : bytes) : option (list (list val) * bytes) :=
    match n with
    | O => None
    | S n' =>
        do m <- take 4 s;
        if beqb (fst m) START then
          do row <- (if is_simple cols then
                       do q <- take (record_width cols) (snd m); Some (unpack_fixed cols (fst q), snd q)
                     else
                       (fix go (ds : list decl) (s : bytes) : option (list val * bytes) :=
                          match ds with
                          | [] => Some ([], s)
                          | d' :: ds' => do a <- unpack d' s; do b <- go ds' (snd a); Some (fst a :: fst b, snd b)
                          end) cols (snd m));
          do rest <- loop n' (snd row); Some (fst row :: fst rest, snd rest)
        else Some ([], snd m)
    end.

Fixpoint unpack_l (ds : list decl) (s : bytes) : option (list val * bytes) :=
  match ds with
  | [] => Some ([], s)
  | d' :: ds' => do a <- unpack d' s; do b <- unpack_l ds' (snd a); Some (fst a :: fst b, snd b)
  end.

Lemma unpack_seq cols s :
  unpack (DSeq cols) s = (do p <- seq_loop cols (S (List.length s)) s; Some (VSeq (fst p), snd p)).
Proof. reflexivity. Qed.
Lemma unpack_struct ms s : unpack (DStruct ms) s = (do p <- unpack_l ms s; Some (VStruct (fst p), snd p)).
Proof.
  cbn [unpack]. f_equal.
Qed.

Lemma beqb_refl b : beqb b b = true.
Proof. induction b as [|x b IH]; cbn; [reflexivity|]. now rewrite Ascii.eqb_refl. Qed.

Lemma unpack_l_ok ds : forall vs rest,
  Forall (fun d => forall v rest, wf d v -> exists b, xdr d v = Some b /\ unpack d (b ++ rest) = Some (v, rest)) ds ->
  wf_list ds vs ->
  exists b, xdr_l ds vs = Some b /\ unpack_l ds (b ++ rest) = Some (vs, rest).
Proof.
  induction ds as [|d ds IH]; intros [|v vs] rest HF Hw; try contradiction.
  - exists []. split; reflexivity.
  - inversion HF as [|? ? Hd HFs]; subst. destruct Hw as [Hv Hw].
    destruct (IH vs rest HFs Hw) as (b2 & E2 & U2).
    destruct (Hd v (b2 ++ rest) Hv) as (b1 & E1 & U1).
    exists (b1 ++ b2). cbn [xdr_l unpack_l]. rewrite E1, E2. cbn [obind]. split; [reflexivity|].
    rewrite <- app_assoc, U1. cbn [obind fst snd]. rewrite U2. reflexivity.
Qed.

Lemma xdr_seq_length cols rows b : xdr (DSeq cols) (VSeq rows) = Some b -> List.length rows < List.length b.
Proof.
  revert b; induction rows as [|r rs IH]; intros b.
  - rewrite xdr_seq_nil. intros [= <-]. cbn. lia.
  - rewrite xdr_seq_cons. destruct (xdr_l cols r) as [a|]; [|discriminate]. cbn [obind].
    destruct (xdr (DSeq cols) (VSeq rs)) as [b'|] eqn:E; [|discriminate]. cbn [obind]. intros [= <-].
    specialize (IH b' eq_refl). cbn [List.length]. rewrite app_length. lia.
Qed.

Theorem unpack_xdr : forall d v rest,
  wf d v -> exists b, xdr d v = Some b /\ unpack d (b ++ rest) = Some (v, rest).
Proof.
  induction d as [t a|ms IH|cols IH] using decl_ind2; intros v rest Hw.
  - destruct v as [xs| |]; try (destruct a; contradiction).
    destruct (dec_base_ok t a xs rest Hw) as (b & Eb & Db). exists b. cbn [xdr unpack]. split; [exact Eb|].
    now rewrite Db.
  - destruct v as [|vs|]; try contradiction. rewrite wf_struct in Hw.
    destruct (unpack_l_ok ms vs rest IH Hw) as (b & Eb & Ub). exists b.
    rewrite xdr_struct, unpack_struct. split; [exact Eb|]. now rewrite Ub.
  - destruct v as [| |rows]; try contradiction.
    (* general statement over the fuel *)
    assert (G : forall rows n rest, wf (DSeq cols) (VSeq rows) -> List.length rows < n ->
              exists b, xdr (DSeq cols) (VSeq rows) = Some b /\ seq_loop cols n (b ++ rest) = Some (rows, rest)).
    { clear rows rest Hw. induction rows as [|r rs IHr]; intros n rest Hw Hn.
      - exists ENDM. split; [reflexivity|]. destruct n as [|n]; [lia|]. reflexivity.
      - rewrite wf_seq_cons in Hw. destruct Hw as [Hr Hrs].
        destruct n as [|n]; [cbn in Hn; lia|].
        destruct (IHr n rest Hrs ltac:(cbn in Hn; lia)) as (b2 & E2 & L2).
        rewrite xdr_seq_cons.
        destruct (is_simple cols) eqn:Esimple.
        + destruct (unpack_fixed_ok cols r Esimple Hr) as (b1 & E1 & W1 & U1).
          rewrite E1, E2. cbn [obind]. eexists; split; [reflexivity|].
          cbn [seq_loop]. rewrite <- !app_assoc. rewrite (take_app 4 START) by reflexivity. cbn [obind fst snd].
          rewrite beqb_refl, Esimple. rewrite take_app by exact W1. cbn [obind fst snd].
          specialize (U1 []). rewrite app_nil_r in U1. rewrite U1. fold (seq_loop cols). rewrite L2. reflexivity.
        + destruct (unpack_l_ok cols r (b2 ++ rest) IH Hr) as (b1 & E1 & U1).
          rewrite E1, E2. cbn [obind]. eexists; split; [reflexivity|].
          cbn [seq_loop]. rewrite <- !app_assoc. rewrite (take_app 4 START) by reflexivity. cbn [obind fst snd].
          rewrite beqb_refl, Esimple.
          change ((fix go (ds : list decl) (s : bytes) : option (list val * bytes) :=
                     match ds with
                     | [] => Some ([], s)
                     | d' :: ds' => do a <- unpack d' s; do b <- go ds' (snd a); Some (fst a :: fst b, snd b)
                     end) cols (b1 ++ b2 ++ rest)) with (unpack_l cols (b1 ++ b2 ++ rest)).
          rewrite U1. cbn [obind fst snd]. fold (seq_loop cols). rewrite L2. reflexivity. }
    destruct (G rows (S (List.length rows)) rest Hw ltac:(lia)) as (b & Eb & _).
    destruct (G rows (S (List.length (b ++ rest))) rest Hw) as (b' & Eb' & Lb').
    { pose proof (xdr_seq_length cols rows b Eb). rewrite app_length. lia. }
    rewrite Eb in Eb'. injection Eb' as <-. exists b. split; [exact Eb|].
    rewrite unpack_seq, Lb'. reflexivity.
Qed.

(* the two halves together: what pydap's encoder writes, pydap's decoder reads back *)
Corollary unpack_dods d v rest :
  wf d v -> exists b, dods d v = Some b /\ unpack d (b ++ rest) = Some (v, rest).
Proof. intros H. rewrite dods_is_xdr. now apply unpack_xdr. Qed.

(* ================================================================ Content-Length *)
Lemma some_inj {A} (a b : A) : Some a = Some b -> a = b.
Proof. congruence. Qed.

(* calculate_size: defined when there is no sequence and no string *)
Fixpoint calc_size (d : decl) : option nat :=
  match d with
  | DBase t arr =>
      if is_string t then None
      else match arr with
           | None => Some (if is_byte t then 4 else wire_width t)
           | Some n => Some (8 + if is_byte t then n + (4 - n mod 4) mod 4 else n * wire_width t)
           end
  | DStruct ms =>
      (fix go (ds : list decl) : option nat :=
         match ds with [] => Some 0 | d' :: ds' => do a <- calc_size d'; do b <- go ds'; Some (a + b) end) ms
  | DSeq _ => None
  end.

Fixpoint calc_l (ds : list decl) : option nat :=
  match ds with [] => Some 0 | d' :: ds' => do a <- calc_size d'; do b <- calc_l ds'; Some (a + b) end.

Theorem content_length_exact : forall d v n b,
  wf d v -> calc_size d = Some n -> xdr d v = Some b -> List.length b = n.
Proof.
  induction d as [t a|ms IH|cols IH] using decl_ind2; intros v n b Hw Hc Hx.
  - destruct v as [xs| |]; try (destruct a; contradiction). cbn [calc_size] in Hc. cbn [xdr] in Hx.
    destruct (is_string t) eqn:Es; [discriminate|].
    destruct a as [k|].
    + destruct Hw as (Hl & Hok & _). unfold xdr_base in Hx. subst k. rewrite Nat.eqb_refl in Hx.
      destruct (atoms_ok t xs Hok Es) as (body & Eb & El & _). rewrite Eb, Es in Hx. cbn [obind] in Hx.
      apply some_inj in Hx, Hc. subst b n. rewrite !app_length, !be32_length, El.
      destruct (is_byte t) eqn:Eby; [destruct t; try discriminate; cbn [wire_width]; rewrite pad4_length|cbn [List.length]]; lia.
    + destruct Hw as (x & -> & Hx'). unfold xdr_base in Hx.
      destruct (atom_ok t x Hx' Es) as (a & Ea & La & _). rewrite Ea in Hx. cbn [obind] in Hx.
      apply some_inj in Hx, Hc. subst b n. rewrite app_length, La.
      destruct (is_byte t) eqn:Eby; [destruct t; try discriminate; reflexivity|cbn; lia].
  - destruct v as [|vs|]; try contradiction. rewrite wf_struct in Hw. rewrite xdr_struct in Hx.
    assert (Hc' : calc_l ms = Some n).
    { cbn [calc_size] in Hc. rewrite <- Hc. clear. induction ms as [|d ms IHm]; [reflexivity|]. cbn. now rewrite IHm. }
    clear Hc. revert vs n b Hw Hc' Hx. induction IH as [|d ms Hd _ IHms]; intros [|v vs] n b Hw Hc Hx; try contradiction.
    + cbn in *. injection Hc as <-. injection Hx as <-. reflexivity.
    + destruct Hw as [Hv Hw]. cbn [calc_l xdr_l] in *.
      destruct (calc_size d) as [n1|]; [|discriminate]. destruct (calc_l ms) as [n2|]; [|discriminate].
      destruct (xdr d v) as [b1|] eqn:E1; [|discriminate]. destruct (xdr_l ms vs) as [b2|] eqn:E2; [|discriminate].
      cbn [obind] in *. injection Hc as <-. injection Hx as <-. rewrite app_length.
      rewrite (Hd v n1 b1 Hv eq_refl E1). rewrite (IHms vs n2 b2 Hw eq_refl E2). reflexivity.
  - discriminate.
Qed.
