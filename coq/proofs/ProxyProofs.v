(* C14 / C18: derived remote selections. *)
From PydapV Require Import Base Slices SliceArith SliceProofs IterData IterDataProofs Proxy.
From Coq Require Import ZifyBool.
Open Scope Z_scope.

(* ---------------------------------------------------------------- C18: the session is forwarded *)
Lemma papply_session p o p' : papply p o = Some p' -> psession p' = psession p /\ pall p' = pall p.
Proof.
  destruct o as [ks|k|c o r|s|i]; cbn [papply]; intros H.
  - destruct (psingle p); [discriminate|].
    match type of H with (if ?c then _ else _) = _ => destruct c end; [|discriminate]. now injection H as <-.
  - destruct (psingle p); [discriminate|].
    match type of H with (if ?c then _ else _) = _ => destruct c end; [|discriminate]. now injection H as <-.
  - now injection H as <-.
  - now injection H as <-.
  - now injection H as <-.
Qed.

Theorem session_invariant ops : forall p p', papply_ops p ops = Some p' -> psession p' = psession p.
Proof.
  induction ops as [|o ops IH]; intros p p' H; cbn [papply_ops] in H; [now injection H as <-|].
  destruct (papply p o) as [p1|] eqn:E; [|discriminate]. cbn [obind] in H.
  rewrite (IH p1 p' H). now apply papply_session in E.
Qed.

Corollary every_request_uses_the_session ops p p' :
  papply_ops p ops = Some p' -> rvia (request_of p') = psession p.
Proof. intros H. cbn. now apply (session_invariant ops). Qed.

(* ---------------------------------------------------------------- record slices compose *)
Lemma np_indices_range N s : 0 <= N -> wn s -> Forall (fun i => 0 <= i < N) (np_indices N s).
Proof.
  intros HN Hw. rewrite np_indices_wn by assumption. cbn zeta.
  set (a := Z.min (or_default (start s) 0) N).
  set (b := match stop s with Some v => Z.min v N | None => N end).
  set (k := or_default (step s) 1).
  destruct Hw as (Ha & Hb & Hk).
  assert (0 <= a) by (unfold a; pose proof (or_default_ge (start s) 0 0 Ha ltac:(lia)); lia).
  assert (b <= N) by (unfold b; destruct (stop s); lia).
  assert (1 <= k) by (apply or_default_ge; [assumption|lia]).
  apply Forall_forall. intros x Hx. apply In_nth with (d := 0) in Hx as (t & Ht & <-).
  rewrite prog_length in Ht. rewrite nth_prog by assumption.
  pose proof (prog_cnt_bound a b k t ltac:(lia) Ht). nia.
Qed.

Lemma islice_as_map {A} (d : A) s (l : list A) :
  wn s -> islice s l = map (fun i => nth (Z.to_nat i) l d) (np_indices (Z.of_nat (List.length l)) s).
Proof.
  intros Hw. unfold islice.
  pose proof (np_indices_range (Z.of_nat (List.length l)) s ltac:(lia) Hw) as Hr.
  induction Hr as [|i idx Hi _ IH]; [reflexivity|]. cbn [flat_map map].
  destruct (nth_error l (Z.to_nat i)) as [x|] eqn:E.
  - cbn [app]. f_equal; [|exact IH]. symmetry. now apply nth_error_nth.
  - apply nth_error_None in E. lia.
Qed.

Lemma islice_length {A} s (l : list A) :
  wn s -> List.length (islice s l) = List.length (np_indices (Z.of_nat (List.length l)) s).
Proof.
  intros Hw. destruct l as [|d l]; [|rewrite (islice_as_map d) by assumption; apply map_length].
  unfold islice. cbn [List.length Z.of_nat]. pose proof (np_indices_range 0 s ltac:(lia) Hw) as Hr.
  destruct (np_indices 0 s) as [|i idx]; [reflexivity|]. inversion Hr; subst. lia.
Qed.

(* x[combine(s1, s2)] == x[s1][s2] on rows: one composed range on the server equals slicing in turn *)
Lemma islice_combine {A} s1 s2 (l : list A) :
  wn s1 -> wn s2 -> islice (combine1 s1 s2) l = islice s2 (islice s1 l).
Proof.
  intros H1 H2. destruct l as [|d l].
  { assert (E : forall s, wn s -> islice s (@nil A) = []).
    { intros s Hs. unfold islice. cbn [List.length Z.of_nat].
      pose proof (np_indices_range 0 s ltac:(lia) Hs) as Hr.
      destruct (np_indices 0 s) as [|i idx]; [reflexivity|inversion Hr; subst; lia]. }
    rewrite (E s1 H1), (E s2 H2). apply E.
    destruct H1 as (A1 & B1 & K1), H2 as (A2 & B2 & K2). unfold combine1. repeat split; cbn.
    - pose proof (or_default_ge (start s1) 0 0 A1 ltac:(lia)). pose proof (or_default_ge (start s2) 0 0 A2 ltac:(lia)).
      pose proof (or_default_ge (step s1) 1 1 K1 ltac:(lia)). nia.
    - pose proof (or_default_ge (start s1) 0 0 A1 ltac:(lia)). pose proof (or_default_ge (step s1) 1 1 K1 ltac:(lia)).
      destruct (stop s1), (stop s2); cbn in *; try exact I; nia.
    - pose proof (or_default_ge (step s1) 1 1 K1 ltac:(lia)). pose proof (or_default_ge (step s2) 1 1 K2 ltac:(lia)). nia. }
  set (L := d :: l). set (N := Z.of_nat (List.length L)).
  assert (Hwn : wn (combine1 s1 s2)).
  { destruct H1 as (A1 & B1 & K1), H2 as (A2 & B2 & K2). unfold combine1. repeat split; cbn.
    - pose proof (or_default_ge (start s1) 0 0 A1 ltac:(lia)). pose proof (or_default_ge (start s2) 0 0 A2 ltac:(lia)).
      pose proof (or_default_ge (step s1) 1 1 K1 ltac:(lia)). nia.
    - pose proof (or_default_ge (start s1) 0 0 A1 ltac:(lia)). pose proof (or_default_ge (step s1) 1 1 K1 ltac:(lia)).
      destruct (stop s1), (stop s2); cbn in *; try exact I; nia.
    - pose proof (or_default_ge (step s1) 1 1 K1 ltac:(lia)). pose proof (or_default_ge (step s2) 1 1 K2 ltac:(lia)). nia. }
  rewrite (islice_as_map d) by assumption. fold N.
  rewrite (combine1_law N s1 s2 ltac:(unfold N; lia) H1 H2).
  rewrite (islice_as_map d s2) by assumption. rewrite islice_length by assumption. fold N.
  unfold lenZ. rewrite map_map.
  pose proof (np_indices_range (Z.of_nat (List.length (np_indices N s1))) s2 ltac:(lia) H2) as Hr2.
  apply map_ext_in. intros j Hj. rewrite Forall_forall in Hr2. specialize (Hr2 j Hj).
  rewrite (islice_as_map d s1) by assumption. fold N.
  unfold nthZ.
  set (f := fun i : Z => nth (Z.to_nat i) L d).
  rewrite (nth_indep (map f (np_indices N s1)) d (f 0)) by (rewrite map_length; lia).
  rewrite map_nth. reflexivity.
Qed.

(* ---------------------------------------------------------------- C14: a derived object reads the normal form *)
Fixpoint wf_pops (cur : list cname) (single : bool) (ops : list pop) : Prop :=
  match ops with
  | [] => True
  | PCols ks :: r => single = false /\ incl ks cur /\ wf_pops ks false r
  | PChild k :: r => single = false /\ In k cur /\ wf_pops [k] true r
  | PCond _ _ _ :: r => wf_pops cur single r
  | PSlice s :: r => wn s /\ wf_pops cur single r
  | PInt i :: r => 0 <= i /\ wf_pops cur single r
  end.

Fixpoint pclauses (ops : list pop) : list (cname * relop * operand) :=
  match ops with
  | [] => []
  | PCond c o r :: rest => (c, o, r) :: pclauses rest
  | _ :: rest => pclauses rest
  end.

Lemma spec_filters_pclauses hd ops r :
  spec_filters hd (map to_op ops) r =
  forallb (fun c => filt_by_name hd (fst (fst c)) (snd (fst c)) (snd c) r) (pclauses ops).
Proof.
  induction ops as [|o ops IH]; [reflexivity|]. destruct o; cbn [map to_op spec_filters pclauses forallb fst snd]; try exact IH.
  now rewrite IH.
Qed.

Lemma existsb_In k l : In k l -> existsb (String.eqb k) l = true.
Proof. intros H. apply existsb_exists. exists k. split; [assumption|apply String.eqb_refl]. Qed.

Lemma wn_combine1 s1 s2 : wn s1 -> wn s2 -> wn (combine1 s1 s2).
Proof.
  intros (A1 & B1 & K1) (A2 & B2 & K2). unfold combine1. repeat split; cbn.
  - pose proof (or_default_ge (start s1) 0 0 A1 ltac:(lia)). pose proof (or_default_ge (start s2) 0 0 A2 ltac:(lia)).
    pose proof (or_default_ge (step s1) 1 1 K1 ltac:(lia)). nia.
  - pose proof (or_default_ge (start s1) 0 0 A1 ltac:(lia)). pose proof (or_default_ge (step s1) 1 1 K1 ltac:(lia)).
    destruct (stop s1), (stop s2); cbn in *; try exact I; nia.
  - pose proof (or_default_ge (step s1) 1 1 K1 ltac:(lia)). pose proof (or_default_ge (step s2) 1 1 K2 ltac:(lia)). nia.
Qed.

Lemma papply_ops_facts : forall ops p p',
  wn (pslice p) -> wf_pops (pcols p) (psingle p) ops -> papply_ops p ops = Some p' ->
  psel p' = psel p ++ pclauses ops /\
  pcols p' = spec_columns (pcols p) (map to_op ops) /\
  wn (pslice p') /\
  (forall (l : list row), islice (pslice p') l = fold_left (fun rs s => islice s rs) (spec_slices (map to_op ops)) (islice (pslice p) l)).
Proof.
  induction ops as [|o ops IH]; intros p p' Hw Hwf Ha.
  - cbn in Ha. injection Ha as <-. cbn [pclauses map spec_columns spec_slices fold_left]. rewrite app_nil_r.
    split; [reflexivity|]. split; [reflexivity|]. split; [assumption|]. intros l. reflexivity.
  - cbn [papply_ops] in Ha. destruct (papply p o) as [p1|] eqn:E1; [|discriminate]. cbn [obind] in Ha.
    destruct o as [ks|k|c o r|s|i]; cbn [papply wf_pops] in E1, Hwf.
    + destruct Hwf as (Hs & Hincl & Hwf). rewrite Hs in E1.
      match type of E1 with (if ?c then _ else _) = _ => destruct c end; [|discriminate]. injection E1 as <-.
      pose proof (fun A B => IH _ p' A B Ha) as IH'. destruct (IH' Hw Hwf) as (I1 & I2 & I3 & I4). cbn [psel pcols pslice map to_op pclauses spec_columns spec_slices] in *.
      split; [exact I1|]. split; [exact I2|]. split; [exact I3|exact I4].
    + destruct Hwf as (Hs & Hin & Hwf). rewrite Hs in E1. rewrite (existsb_In k _ Hin) in E1. injection E1 as <-.
      pose proof (fun A B => IH _ p' A B Ha) as IH'. destruct (IH' Hw Hwf) as (I1 & I2 & I3 & I4). cbn [psel pcols pslice map to_op pclauses spec_columns spec_slices] in *.
      split; [exact I1|]. split; [exact I2|]. split; [exact I3|exact I4].
    + injection E1 as <-.
      pose proof (fun A B => IH _ p' A B Ha) as IH'. destruct (IH' Hw Hwf) as (I1 & I2 & I3 & I4). cbn [psel pcols pslice map to_op pclauses spec_columns spec_slices] in *.
      split; [rewrite I1; now rewrite <- app_assoc|]. split; [exact I2|]. split; [exact I3|exact I4].
    + destruct Hwf as (Hs & Hwf). injection E1 as <-.
      pose proof (fun A B => IH _ p' A B Ha) as IH'. destruct (IH' (wn_combine1 _ _ Hw Hs) Hwf) as (I1 & I2 & I3 & I4).
      cbn [psel pcols pslice map to_op pclauses spec_columns spec_slices fold_left] in *.
      split; [exact I1|]. split; [exact I2|]. split; [exact I3|]. intros l. rewrite I4. now rewrite islice_combine.
    + destruct Hwf as (Hi & Hwf). injection E1 as <-.
      assert (Hs : wn (mkSlice (Some i) (Some (i + 1)) None)) by (repeat split; cbn; lia).
      pose proof (fun A B => IH _ p' A B Ha) as IH'. destruct (IH' (wn_combine1 _ _ Hw Hs) Hwf) as (I1 & I2 & I3 & I4).
      cbn [psel pcols pslice map to_op pclauses spec_columns spec_slices fold_left] in *.
      split; [exact I1|]. split; [exact I2|]. split; [exact I3|]. intros l. rewrite I4. now rewrite islice_combine.
Qed.

Lemma islice_full {A} (l : list A) : islice full_slice l = l.
Proof.
  destruct l as [|d l]; [reflexivity|].
  rewrite (islice_as_map d) by (repeat split; exact I).
  set (L := d :: l).
  unfold np_indices. cbn [start stop step full_slice clamp_start clamp_stop step_of].
  unfold cnt. destruct (Z.of_nat (List.length L) <=? 0) eqn:E; [cbn in E; lia|].
  replace ((Z.of_nat (List.length L) - 0 + 1 - 1) / 1) with (Z.of_nat (List.length L)) by (rewrite Z.div_1_r; lia).
  rewrite Nat2Z.id. clearbody L. clear.
  assert (G : forall (l : list A) (off : nat) (pre : list A), List.length pre = off ->
            map (fun i => nth (Z.to_nat i) (pre ++ l) d) (prog (List.length l) (Z.of_nat off) 1) = l).
  { induction l as [|x l IH]; intros off pre Hp; [reflexivity|]. cbn [List.length prog map]. f_equal.
    - rewrite Nat2Z.id. rewrite app_nth2 by lia. now rewrite Hp, Nat.sub_diag.
    - replace (Z.of_nat off + 1) with (Z.of_nat (S off)) by lia.
      specialize (IH (S off) (pre ++ [x])). rewrite <- app_assoc in IH. apply IH. rewrite app_length. cbn. lia. }
  apply (G L 0%nat []). reflexivity.
Qed.

(* A derived remote selection, however it was derived (any chain, any order), requests from the server
   exactly the data of the constraint normal form - the same a fresh client (or a lazy stream, C17)
   applying the same operations obtains. *)
Theorem derived_reads_normal_form hd rows ops sid p :
  wf_pops hd false ops -> papply_ops (fresh_proxy hd sid) ops = Some p ->
  serve hd rows (request_of p) = spec_nf hd rows (map to_op ops).
Proof.
  intros Hwf Ha.
  destruct (papply_ops_facts ops (fresh_proxy hd sid) p ltac:(repeat split; exact I) Hwf Ha) as (I1 & I2 & I3 & I4).
  unfold serve, request_of, spec_nf. cbn [rrange rcols rclauses fresh_proxy psel pcols pslice app] in *.
  rewrite I4, islice_full, I1, I2. f_equal. f_equal.
  apply filter_ext_all. intros r. now rewrite spec_filters_pclauses.
Qed.

(* ---------------------------------------------------------------- C18: cache keys *)
Lemma string_eqb_eq a b : String.eqb a b = true -> a = b.
Proof. apply String.eqb_eq. Qed.

Theorem cache_key_sound shared base u1 u2 :
  cache_key shared base u1 = cache_key shared base u2 ->
  u1 = u2 \/
  (exists b ce, base = Some b /\ uce u1 = Some ce /\ uce u2 = Some ce /\ In ce shared /\
                under b (upath u1) = true /\ under b (upath u2) = true /\ uhost u1 = uhost u2).
Proof.
  unfold cache_key.
  destruct (uce u1) as [c1|] eqn:E1, (uce u2) as [c2|] eqn:E2, base as [b|];
    try (intros [= ->]; now left);
    try (destruct (existsb (String.eqb c1) shared && under b (upath u1)); intros [= ?]; subst; try (now left); discriminate);
    try (destruct (existsb (String.eqb c2) shared && under b (upath u2)); intros [= ?]; subst; try (now left); discriminate).
  destruct (existsb (String.eqb c1) shared && under b (upath u1)) eqn:G1,
           (existsb (String.eqb c2) shared && under b (upath u2)) eqn:G2; intros H; try discriminate.
  - injection H as Hh <-. right. apply andb_true_iff in G1 as [S1 U1]. apply andb_true_iff in G2 as [S2 U2].
    exists b, c1. repeat split; try assumption; try reflexivity.
    apply existsb_exists in S1 as (x & Hx & Ex). apply String.eqb_eq in Ex. now subst.
  - injection H as ->. now left.
Qed.
