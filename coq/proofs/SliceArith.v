(* Arithmetic progressions and ceiling-division counting: lemmas for C03/C02. *)
From PydapV Require Import Base Slices.
From Coq Require Import ZifyBool.
Open Scope Z_scope.
Ltac Zify.zify_post_hook ::= Z.to_euclidean_division_equations.

(* innermost-first case split on every [if] in the goal and the hypotheses *)
Ltac split_ifs :=
  repeat match goal with
  | |- context [if ?c then _ else _] =>
      lazymatch c with context [if _ then _ else _] => fail | _ => destruct c eqn:? end
  | H : context [if ?c then _ else _] |- _ =>
      lazymatch c with context [if _ then _ else _] => fail | _ => destruct c eqn:? end
  end.

Lemma prog_length n a k : List.length (prog n a k) = n.
Proof. revert a; induction n as [|n IH]; intros a; cbn; [reflexivity|now rewrite IH]. Qed.

Lemma nth_prog n a k i d : (i < n)%nat -> nth i (prog n a k) d = a + k * Z.of_nat i.
Proof.
  revert a i; induction n as [|n IH]; intros a i Hi; [lia|].
  destruct i as [|i]; cbn [prog nth]; [lia|].
  rewrite IH by lia. lia.
Qed.

Lemma prog_eq n a k a' k' :
  ((0 < n)%nat -> a = a') -> ((1 < n)%nat -> k = k') -> prog n a k = prog n a' k'.
Proof.
  revert a a'; induction n as [|n IH]; intros a a' Ha Hk; [reflexivity|].
  cbn [prog]. rewrite (Ha ltac:(lia)). f_equal.
  destruct n as [|n]; [reflexivity|].
  apply IH.
  - intros _. rewrite (Hk ltac:(lia)). reflexivity.
  - intros Hn. apply Hk. lia.
Qed.

Lemma map_prog_affine (f : Z -> Z) c m n a k :
  (forall t, (t < n)%nat -> f (a + k * Z.of_nat t) = c + m * (a + k * Z.of_nat t)) ->
  map f (prog n a k) = prog n (c + m * a) (m * k).
Proof.
  revert a; induction n as [|n IH]; intros a H; [reflexivity|].
  cbn [prog map]. f_equal.
  - specialize (H O ltac:(lia)). cbn in H. rewrite Z.mul_0_r, Z.add_0_r in H. exact H.
  - replace (c + m * a + m * k) with (c + m * (a + k)) by ring.
    apply IH. intros t Ht. specialize (H (S t) ltac:(lia)).
    replace (a + k + k * Z.of_nat t) with (a + k * Z.of_nat (S t)) by lia. exact H.
Qed.

(* ---- cnt ---- *)
Lemma cnt_nonneg a b k : 0 < k -> 0 <= cnt a b k.
Proof. unfold cnt; intros Hk. destruct (b <=? a) eqn:E; lia. Qed.

Lemma cnt_zero a b k : 0 < k -> b <= a -> cnt a b k = 0.
Proof. unfold cnt; intros. destruct (b <=? a) eqn:E; lia. Qed.

Lemma cnt_spec a b k : 0 < k -> a < b ->
  0 < cnt a b k /\ a + k * (cnt a b k - 1) < b <= a + k * cnt a b k.
Proof. unfold cnt; intros Hk Hab. destruct (b <=? a) eqn:E; [lia|]. nia. Qed.

Lemma cnt_unique a b k n : 0 < k -> 0 < n -> a + k * (n - 1) < b <= a + k * n -> cnt a b k = n.
Proof.
  intros Hk Hn H. assert (a < b) by nia.
  destruct (cnt_spec a b k Hk H0) as [Hp Hs].
  set (c := cnt a b k) in *. clearbody c. nia.
Qed.

Lemma cnt_pos_iff a b k : 0 < k -> (0 < cnt a b k <-> a < b).
Proof.
  intros Hk; split; intros H.
  - destruct (Z_lt_le_dec a b); [assumption|]. rewrite cnt_zero in H; lia.
  - apply cnt_spec; assumption.
Qed.

(* all elements of a counted progression are below the bound *)
Lemma prog_cnt_bound a b k t : 0 < k -> (t < Z.to_nat (cnt a b k))%nat -> a + k * Z.of_nat t < b.
Proof.
  intros Hk Ht. assert (Hpos : 0 < cnt a b k) by lia.
  apply cnt_pos_iff in Hpos; [|assumption].
  destruct (cnt_spec a b k Hk Hpos) as [_ [H1 _]]. nia.
Qed.
