(* C17 / C04: any chain of filters, column selections, child selections and slices on a lazy row
   stream yields the constraint normal form, by NAME. *)
From PydapV Require Import Base Slices IterData.
Open Scope Z_scope.

Definition pipe (ms : list (list nat)) (r : row) : row := fold_left (fun r cols => apply_map cols r) ms r.

Lemma fold_maps ms : forall rows,
  fold_left (fun rs cols => map (apply_map cols) rs) ms rows = map (pipe ms) rows.
Proof.
  induction ms as [|m ms IH]; intros rows; cbn [fold_left pipe].
  - now rewrite map_id.
  - rewrite IH, map_map. reflexivity.
Qed.

Lemma pipe_app ms m r : pipe (ms ++ [m]) r = apply_map m (pipe ms r).
Proof. unfold pipe. now rewrite fold_left_app. Qed.

(* operations allowed on the current visible columns *)
Fixpoint wf_ops (cur : list cname) (single : bool) (ops : list op) : Prop :=
  match ops with
  | [] => True
  | OCols ks :: r => single = false /\ incl ks cur /\ wf_ops ks false r
  | OCol k :: r => single = false /\ In k cur /\ wf_ops [k] true r
  | _ :: r => wf_ops cur single r
  end.

Lemma index_of_In k l : In k l -> exists i, index_of k l = Some i /\ (i < List.length l)%nat /\ nth i l k = k.
Proof.
  induction l as [|x l IH]; [contradiction|]. intros H. cbn [index_of].
  destruct (String.eqb k x) eqn:E.
  - apply String.eqb_eq in E. subst. exists O. repeat split; cbn; lia.
  - destruct H as [->|H]; [rewrite String.eqb_refl in E; discriminate|].
    destruct (IH H) as (i & Ei & Li & Ni). rewrite Ei. exists (S i). repeat split; cbn; try lia. exact Ni.
Qed.

Lemma index_of_nth {A} (f : cname -> A) k l i d :
  index_of k l = Some i -> nth i (map f l) d = f k.
Proof.
  revert i; induction l as [|x l IH]; intros i; cbn [index_of]; [discriminate|].
  destruct (String.eqb k x) eqn:E.
  - intros [= <-]. apply String.eqb_eq in E. now subst.
  - destruct (index_of k l) as [j|]; [|discriminate]. cbn. intros [= <-]. cbn. now apply IH.
Qed.

Lemma omap_index_map (f : cname -> Z) ks l cols :
  omap_index ks l = Some cols -> map (fun i => nth i (map f l) 0) cols = map f ks.
Proof.
  revert cols; induction ks as [|k ks IH]; intros cols; cbn [omap_index].
  - now intros [= <-].
  - destruct (index_of k l) as [i|] eqn:Ei; [|discriminate]. cbn [obind].
    destruct (omap_index ks l) as [is|]; [|discriminate]. cbn [obind]. intros [= <-].
    cbn [map]. f_equal; [now apply index_of_nth|now apply IH].
Qed.

Definition ok (hd : list cname) (r : row) : Prop := List.length r = List.length hd.

Definition facts (hd : list cname) (Fp : row -> bool) (d : stream) : Prop :=
  header d = hd /\
  (forall r, forallb (fun f => eval_filt f r) (filters d) = Fp r) /\
  (forall r, ok hd r -> pipe (maps d) r = map (lookup hd r) (vis d)).

Lemma eval_by_name hd c o rhs col f r :
  index_of c hd = Some col ->
  match rhs with OConst z => Some (inl z) | OColumn c2 => option_map inr (index_of c2 hd) end = Some f ->
  eval_filt (mkFilt col o f) r = filt_by_name hd c o rhs r.
Proof.
  intros Ec Er. unfold eval_filt, filt_by_name, lookup. cbn [fcol fop frhs]. rewrite Ec.
  destruct rhs as [z|c2].
  - injection Er as <-. reflexivity.
  - destruct (index_of c2 hd) as [j|]; [|discriminate]. injection Er as <-. reflexivity.
Qed.

Lemma apply_ops_facts hd : forall ops d d' Fp,
  facts hd Fp d -> wf_ops (vis d) (single d) ops -> apply_ops d ops = Some d' ->
  src d' = src d /\
  facts hd (fun r => Fp r && spec_filters hd ops r) d' /\
  vis d' = spec_columns (vis d) ops /\
  slices d' = slices d ++ spec_slices ops.
Proof.
  induction ops as [|o ops IH]; intros d d' Fp (Hh & Hf & Hm) Hw Ha.
  - cbn in Ha. injection Ha as <-. cbn [spec_filters spec_columns spec_slices]. rewrite app_nil_r.
    repeat split; try assumption. intros r. now rewrite andb_true_r.
  - cbn [apply_ops] in Ha. destruct (apply_op d o) as [d1|] eqn:E1; [|discriminate]. cbn [obind] in Ha.
    destruct o as [ks|k|c o rhs|s|i]; cbn [apply_op wf_ops] in E1, Hw.
    + (* column selection *)
      destruct Hw as (Hs & Hincl & Hw). rewrite Hs in E1.
      destruct (omap_index ks (vis d)) as [cols|] eqn:Ec; [|discriminate]. cbn [obind] in E1. injection E1 as <-.
      pose proof (fun F W => IH _ d' Fp F W Ha) as IH'.
      destruct IH' as (I1 & I2 & I3 & I4); [|exact Hw|].
      * repeat split; cbn [header filters maps vis]; try assumption.
        intros r Hr. rewrite pipe_app, Hm by assumption. unfold apply_map. now apply omap_index_map.
      * cbn [src vis slices spec_filters spec_columns spec_slices] in *. split; [exact I1|]. split; [exact I2|]. split; [exact I3|exact I4].
    + (* child selection *)
      destruct Hw as (Hs & Hin & Hw). rewrite Hs in E1.
      destruct (index_of_In k (vis d) Hin) as (i & Ei & _). rewrite Ei in E1. cbn [obind] in E1. injection E1 as <-.
      pose proof (fun F W => IH _ d' Fp F W Ha) as IH'.
      destruct IH' as (I1 & I2 & I3 & I4); [|exact Hw|].
      * repeat split; cbn [header filters maps vis]; try assumption.
        intros r Hr. rewrite pipe_app, Hm by assumption. unfold apply_map. cbn [map]. f_equal. now apply index_of_nth.
      * cbn [src vis slices spec_filters spec_columns spec_slices] in *. split; [exact I1|]. split; [exact I2|]. split; [exact I3|exact I4].
    + (* filter: evaluated on the source rows, by position in the header *)
      rewrite Hh in E1.
      destruct (index_of c hd) as [col|] eqn:Ec; [|discriminate]. cbn [obind] in E1.
      destruct (match rhs with OConst z => Some (inl z) | OColumn c2 => option_map inr (index_of c2 hd) end) as [f|] eqn:Er;
        [|discriminate]. cbn [obind] in E1. injection E1 as <-.
      pose proof (fun F W => IH _ d' (fun r => Fp r && filt_by_name hd c o rhs r) F W Ha) as IH'.
      destruct IH' as (I1 & I2 & I3 & I4); [|exact Hw|].
      * repeat split; cbn [header filters maps vis]; try assumption.
        intros r. rewrite forallb_app, Hf. cbn [forallb]. rewrite andb_true_r. f_equal.
        eapply eval_by_name; eassumption.
      * cbn [src vis slices spec_filters spec_columns spec_slices] in *. split; [exact I1|]. split; [|split; [exact I3|exact I4]].
        destruct I2 as (J1 & J2 & J3). split; [exact J1|]. split; [|exact J3].
        intros r. rewrite J2. now rewrite andb_assoc.
    + injection E1 as <-.
      pose proof (fun F W => IH _ d' Fp F W Ha) as IH'.
      destruct IH' as (I1 & I2 & I3 & I4); [|exact Hw|].
      * repeat split; assumption.
      * cbn [src vis slices spec_filters spec_columns spec_slices] in *. split; [exact I1|]. split; [exact I2|]. split; [exact I3|].
        rewrite I4. now rewrite <- app_assoc.
    + injection E1 as <-.
      pose proof (fun F W => IH _ d' Fp F W Ha) as IH'.
      destruct IH' as (I1 & I2 & I3 & I4); [|exact Hw|].
      * repeat split; assumption.
      * cbn [src vis slices spec_filters spec_columns spec_slices] in *. split; [exact I1|]. split; [exact I2|]. split; [exact I3|].
        rewrite I4. now rewrite <- app_assoc.
Qed.

Lemma filter_ext_all {A} (f g : A -> bool) l : (forall x, f x = g x) -> filter f l = filter g l.
Proof. intros H. induction l as [|x l IH]; cbn; [reflexivity|]. now rewrite H, IH. Qed.

Lemma map_lookup_id hd : NoDup hd -> forall r, ok hd r -> map (lookup hd r) hd = r.
Proof.
  induction 1 as [|x hd Hx Hd IH]; intros r Hr; destruct r as [|a r]; try discriminate; [reflexivity|].
  cbn [map]. f_equal.
  - unfold lookup. cbn [index_of]. now rewrite String.eqb_refl.
  - rewrite <- (IH r) at 2 by (unfold ok in *; cbn in Hr; lia).
    apply map_ext_in. intros k Hk. unfold lookup. cbn [index_of].
    destruct (String.eqb k x) eqn:E; [apply String.eqb_eq in E; subst; contradiction|].
    destruct (index_of k hd); reflexivity.
Qed.

Lemma map_ext_Forall {A B} (f g : A -> B) l (P : A -> Prop) :
  Forall P l -> (forall x, P x -> f x = g x) -> map f l = map g l.
Proof. induction 1; intros H'; cbn; [reflexivity|]. now rewrite H', IHForall. Qed.

Lemma Forall_filter {A} (P : A -> Prop) f l : Forall P l -> Forall P (filter f l).
Proof. induction 1; cbn; [constructor|]. destruct (f x); [constructor|]; assumption. Qed.

(* For every table, every chain of operations (any length, any order, any repetition): iterating the
   resulting stream gives the rows of the normal form - all filters on the source rows, the finally
   selected columns BY NAME, then the slices in order. *)
Theorem normal_form hd rows ops d :
  NoDup hd -> Forall (ok hd) rows ->
  wf_ops hd false ops -> apply_ops (fresh hd rows) ops = Some d ->
  iter d = spec_nf hd rows ops.
Proof.
  intros Hnd Hrows Hw Ha.
  assert (F0 : facts hd (fun _ => true) (fresh hd rows)).
  { repeat split. intros r Hr. cbn [fresh maps vis pipe fold_left]. symmetry. now apply map_lookup_id. }
  destruct (apply_ops_facts hd ops (fresh hd rows) d (fun _ => true) F0 Hw Ha) as (Hs & (Hh & Hf & Hm) & Hv & Hsl).
  unfold iter, spec_nf. rewrite Hs. cbn [fresh src slices vis app] in *. rewrite Hsl.
  rewrite fold_maps. f_equal.
  rewrite (filter_ext_all _ (spec_filters hd ops)) by (intros r; now rewrite Hf).
  rewrite <- Hv.
  apply (map_ext_Forall _ _ _ (ok hd)); [now apply Forall_filter|exact Hm].
Qed.

(* a step never touches its source: the source stream iterates to the same rows before and after *)
Theorem step_leaves_source d o d' : apply_op d o = Some d' -> src d' = src d /\ header d' = header d.
Proof.
  destruct o as [ks|k|c o rhs|s|i]; cbn [apply_op]; intros H.
  - destruct (single d); [discriminate|]. destruct (omap_index ks (vis d)); [|discriminate]. now injection H as <-.
  - destruct (single d); [discriminate|].
    destruct (match index_of k (vis d) with Some i => Some i | None => index_of k (header d) end); [|discriminate].
    now injection H as <-.
  - destruct (index_of c (header d)); [|discriminate]. cbn [obind] in H.
    destruct (match rhs with OConst z => Some (inl z) | OColumn c2 => option_map inr (index_of c2 (header d)) end); [|discriminate].
    now injection H as <-.
  - now injection H as <-.
  - now injection H as <-.
Qed.

(* C04: a server-side constraint = selection clauses, a column projection, a record range *)
Corollary constraint_expression hd rows clauses cols range d :
  NoDup hd -> Forall (ok hd) rows -> incl cols hd ->
  let ops := map (fun c => OFilter (fst (fst c)) (snd (fst c)) (snd c)) clauses ++ [OCols cols; OSlice range] in
  apply_ops (fresh hd rows) ops = Some d ->
  iter d = islice range (map (fun r => map (lookup hd r) cols)
                             (filter (fun r => forallb (fun c => filt_by_name hd (fst (fst c)) (snd (fst c)) (snd c) r) clauses) rows)).
Proof.
  intros Hnd Hrows Hincl ops Ha.
  assert (Hw : wf_ops hd false ops).
  { unfold ops. clear Ha. induction clauses as [|c cl IH]; cbn [map app wf_ops].
    - repeat split; try assumption; exact I.
    - exact IH. }
  rewrite (normal_form hd rows ops d Hnd Hrows Hw Ha). unfold spec_nf, ops.
  assert (E1 : forall r, spec_filters hd (map (fun c => OFilter (fst (fst c)) (snd (fst c)) (snd c)) clauses ++ [OCols cols; OSlice range]) r =
                        forallb (fun c => filt_by_name hd (fst (fst c)) (snd (fst c)) (snd c) r) clauses).
  { clear. intros r. induction clauses as [|c cl IH]; cbn [map app spec_filters forallb]; [reflexivity|]. now rewrite IH. }
  assert (E2 : forall cur, spec_columns cur (map (fun c => OFilter (fst (fst c)) (snd (fst c)) (snd c)) clauses ++ [OCols cols; OSlice range]) = cols).
  { clear. intros cur. induction clauses as [|c cl IH]; cbn [map app spec_columns]; [reflexivity|exact IH]. }
  assert (E3 : spec_slices (map (fun c => OFilter (fst (fst c)) (snd (fst c)) (snd c)) clauses ++ [OCols cols; OSlice range]) = [range]).
  { clear. induction clauses as [|c cl IH]; cbn [map app spec_slices]; [reflexivity|exact IH]. }
  rewrite E2, E3. cbn [fold_left]. f_equal. f_equal. apply filter_ext_all. exact E1.
Qed.
