(* C08, text level: the DAS parser inverts the DAS printer on every attribute tree (any nesting, width, value count). *)
From PydapV Require Import Base Quote QuoteProofs StrLemmas DDS DDSProofs DAS.
From Coq Require Import Lia.
Open Scope nat_scope.

(* ------------------------------------------------------------------ well-formed attribute trees *)
Definition nullb {A} (l : list A) : bool := match l with [] => true | _ => false end.
Definition not_brace_first (w : chars) : bool :=
  match w with c :: _ => negb (Ascii.eqb c "}"%char) && negb (Ascii.eqb c "{"%char) | [] => false end.
(* a type word or a container name: no white space, does not start with a brace *)
Definition wf_word (w : chars) : bool := forallb nonspace w && not_brace_first w.
Definition str_char (c : ascii) : bool := negb (Ascii.eqb c dq) && negb (Ascii.eqb c bs).
Definition num_char (c : ascii) : bool := nonspace c && not_semi_comma c && negb (Ascii.eqb c dq).
Definition wf_item (str : bool) (i : aitem) : bool :=
  match i with
  | IStr s => str && forallb str_char s
  | INum t => negb str && negb (nullb t) && forallb num_char t
  end.
Definition wf_leafname (n : chars) : bool := negb (nullb n) && forallb legal n.

Fixpoint wf_aval (name : chars) (v : aval) : bool :=
  match v with
  | ALeaf ty vals => wf_leafname name && wf_word ty && negb (nullb vals) && forallb (wf_item (is_string_type ty)) vals
  | ADict kids => wf_word name && forallb (fun p => match p with (n, x) => wf_aval n x end) kids
  end.
Definition wf_entries (kids : list (chars * aval)) : bool := forallb (fun p => match p with (n, x) => wf_aval n x end) kids.

Fixpoint asize (v : aval) : nat :=
  match v with
  | ALeaf _ vals => 2 + List.length vals
  | ADict kids => 2 + List.length kids + list_sum (map (fun p => asize (snd p)) kids)
  end.

Section AInd.
  Variable P : aval -> Prop.
  Hypothesis Hl : forall ty vals, P (ALeaf ty vals).
  Hypothesis Hd : forall kids, Forall (fun p => P (snd p)) kids -> P (ADict kids).
  Fixpoint aval_ind2 (v : aval) : P v :=
    match v with
    | ALeaf ty vals => Hl ty vals
    | ADict kids =>
        Hd kids ((fix go (l : list (chars * aval)) : Forall (fun p => P (snd p)) l :=
                    match l with
                    | [] => Forall_nil _
                    | (n, x) :: r => Forall_cons (n, x) (aval_ind2 x) (go r)
                    end) kids)
    end.
End AInd.

(* ------------------------------------------------------------------ character facts *)
Lemma legal_nonspace c : legal c = true -> nonspace c = true.
Proof. ascii_cases c; intros H; try reflexivity; discriminate H. Qed.
Lemma legal_not_open c : legal c = true -> Ascii.eqb c "{"%char = false.
Proof. ascii_cases c; intros H; try reflexivity; discriminate H. Qed.
Lemma legal_not_close c : legal c = true -> Ascii.eqb c "}"%char = false.
Proof. ascii_cases c; intros H; try reflexivity; discriminate H. Qed.
Lemma nonspace_space c : nonspace c = true -> is_space c = false.
Proof. unfold nonspace. destruct (is_space c); [discriminate|reflexivity]. Qed.

Lemma lstrip_word w x : w <> [] -> forallb nonspace w = true -> lstrip (w ++ x) = w ++ x.
Proof.
  intros Hn Hw. destruct w as [|c w]; [congruence|]. cbn [app]. apply lstrip_keep.
  cbn [forallb] in Hw. apply andb_true_iff in Hw as [Hc _]. apply nonspace_space, Hc.
Qed.

Lemma nullb_false {A} (l : list A) : nullb l = false -> l <> [].
Proof. destruct l; [discriminate|discriminate]. Qed.

(* ------------------------------------------------------------------ values *)
Lemma scan_str_cons c d r :
  scan_str (c :: d :: r) =
  if Ascii.eqb d dq && negb (Ascii.eqb c bs) then Some ([c], r)
  else option_map (fun p => (c :: fst p, snd p)) (scan_str (d :: r)).
Proof. reflexivity. Qed.

Lemma scan_str_ok s R : s <> [] -> forallb str_char s = true -> scan_str (s ++ dq :: R) = Some (s, R).
Proof.
  induction s as [|c s IH]; intros Hn Hs; [congruence|].
  cbn [forallb] in Hs. apply andb_true_iff in Hs as [Hc Hs].
  unfold str_char in Hc. apply andb_true_iff in Hc as [Hc1 Hc2].
  destruct s as [|c2 s].
  - cbn [app]. rewrite scan_str_cons. change (Ascii.eqb dq dq) with true. rewrite Hc2. reflexivity.
  - cbn [app]. rewrite scan_str_cons. cbn [app] in IH.
    pose proof Hs as Hs'. cbn [forallb] in Hs'. apply andb_true_iff in Hs' as [Hc2' _].
    unfold str_char in Hc2'. apply andb_true_iff in Hc2' as [Hq _].
    destruct (Ascii.eqb c2 dq); [discriminate|]. cbn [andb].
    rewrite IH; [reflexivity|discriminate|exact Hs].
Qed.

Lemma lstrip_dq_keep s : (match s with c :: _ => Ascii.eqb c dq = false | [] => True end) -> lstrip_dq s = s.
Proof. destruct s as [|c s]; [reflexivity|]. intros H. cbn [lstrip_dq]. rewrite H. reflexivity. Qed.

Lemma str_char_not_dq c : str_char c = true -> Ascii.eqb c dq = false.
Proof. unfold str_char. destruct (Ascii.eqb c dq); [discriminate|reflexivity]. Qed.

Lemma lstrip_dq_dq x : lstrip_dq (dq :: x) = lstrip_dq x.
Proof. reflexivity. Qed.

Lemma strip_dq_wrap s : forallb str_char s = true -> strip_dq (dq :: s ++ [dq]) = s.
Proof.
  intros Hs. unfold strip_dq. rewrite lstrip_dq_dq.
  destruct s as [|c s].
  - reflexivity.
  - assert (H1 : lstrip_dq ((c :: s) ++ [dq]) = (c :: s) ++ [dq]).
    { apply lstrip_dq_keep. cbn [app]. cbn [forallb] in Hs. apply andb_true_iff in Hs as [Hc _]. apply str_char_not_dq, Hc. }
    rewrite H1, rev_app_distr. change (rev [dq]) with [dq]. cbn [app]. rewrite lstrip_dq_dq.
    rewrite lstrip_dq_keep.
    + apply rev_involutive.
    + assert (Hr : forallb str_char (rev (c :: s)) = true).
      { rewrite forallb_forall in *. intros x Hx. apply Hs, in_rev, Hx. }
      destruct (rev (c :: s)) as [|x l] eqn:E; [exact I|].
      cbn [forallb] in Hr. apply andb_true_iff in Hr as [Hx _]. apply str_char_not_dq, Hx.
Qed.

(* the head of an encoded value is neither white space nor ';' nor ',' *)
Definition head_ok (s : chars) : Prop :=
  exists c r, s = c :: r /\ is_space c = false /\ Ascii.eqb (lower ";"%char) (lower c) = false
              /\ Ascii.eqb (lower ","%char) (lower c) = false.

Lemma num_char_facts c : num_char c = true ->
  is_space c = false /\ Ascii.eqb (lower ";"%char) (lower c) = false /\ Ascii.eqb (lower ","%char) (lower c) = false
  /\ Ascii.eqb c dq = false /\ not_semi_comma c = true.
Proof. ascii_cases c; intros H; try discriminate H; repeat split; reflexivity. Qed.

Lemma enc_head str i X : wf_item str i = true -> head_ok (enc i ++ X).
Proof.
  destruct i as [s|t]; cbn [wf_item enc]; intros H.
  - exists dq, (s ++ [dq] ++ X). split; [cbn [app]; rewrite <- app_assoc; reflexivity|]. repeat split; reflexivity.
  - apply andb_true_iff in H as [H Ht]. apply andb_true_iff in H as [_ Hn].
    destruct t as [|c t]; [discriminate|]. cbn [forallb] in Ht. apply andb_true_iff in Ht as [Hc _].
    destruct (num_char_facts c Hc) as (A & B & C & _ & _). exists c, (t ++ X). repeat split; assumption.
Qed.

(* one value followed by a delimiter d in {; ,} *)
Lemma value_token_enc str i d R :
  wf_item str i = true -> (d = ";"%char \/ d = ","%char) ->
  exists tok, value_token (enc i ++ d :: R) = Some (tok, d :: R) /\
              (if str then IStr (strip_dq tok) else INum tok) = i.
Proof.
  intros Hw Hd. destruct i as [s|t]; cbn [wf_item enc] in *.
  - apply andb_true_iff in Hw as [Hstr Hs]. subst str.
    destruct s as [|c s].
    + exists [dq; dq]. split; [reflexivity|reflexivity].
    + exists (dq :: (c :: s) ++ [dq]). split.
      * cbn [app]. unfold value_token. change (Ascii.eqb dq dq) with true.
        pose proof Hs as Hs'. cbn [forallb] in Hs'. apply andb_true_iff in Hs' as [Hc _].
        rewrite (str_char_not_dq c Hc). cbn [andb].
        pose proof (scan_str_ok (c :: s) (d :: R)) as E. cbn [app] in E. rewrite <- app_assoc. cbn [app].
        rewrite E; [reflexivity|discriminate|exact Hs].
      * f_equal. apply strip_dq_wrap, Hs.
  - apply andb_true_iff in Hw as [Hw Ht]. apply andb_true_iff in Hw as [Hstr Hn].
    destruct str; [discriminate|]. exists t. split; [|reflexivity].
    assert (Hsp : span not_semi_comma (t ++ d :: R) = (t, d :: R)).
    { apply span_stop.
      - apply (forallb_impl num_char); [|exact Ht]. intros x Hx. apply (num_char_facts x Hx).
      - destruct Hd as [-> | ->]; reflexivity. }
    destruct t as [|c t]; [discriminate|].
    cbn [forallb] in Ht. apply andb_true_iff in Ht as [Hc Ht'].
    destruct (num_char_facts c Hc) as (_ & _ & _ & Hq & _).
    unfold value_token. cbn [app] in *. destruct t as [|c2 t].
    + cbn [app] in *. rewrite Hq. cbn [andb]. rewrite Hsp. reflexivity.
    + cbn [app] in *. rewrite Hq. cbn [andb]. rewrite Hsp. reflexivity.
Qed.

Lemma peek_semi_head s : head_ok s -> peek_lit [";"%char] s = false.
Proof. intros (c & r & -> & _ & H & _). rewrite peek_lit_cons. exact H. Qed.

Lemma lstrip_head s : head_ok s -> lstrip s = s.
Proof. intros (c & r & -> & H & _). apply lstrip_keep, H. Qed.

Lemma parse_values_print ty vals : forall f R,
  vals <> [] -> forallb (wf_item (is_string_type ty)) vals = true -> List.length vals < f ->
  parse_values f ty (cjoin (s2l ", ") (map enc vals) ++ ";"%char :: R) = Some (vals, ";"%char :: R).
Proof.
  induction vals as [|v vals IH]; intros f R Hn Hw Hf; [congruence|].
  cbn [forallb] in Hw. apply andb_true_iff in Hw as [Hv Hw].
  destruct f as [|f]; [cbn in Hf; lia|]. destruct vals as [|v2 vals].
  - cbn [map cjoin]. cbn [parse_values].
    rewrite (peek_semi_head _ (enc_head _ v _ Hv)).
    destruct (value_token_enc _ v ";"%char R Hv (or_introl eq_refl)) as (tok & E & Ei).
    rewrite E. cbn [obind fst snd]. change (lstrip (";"%char :: R)) with (";"%char :: R).
    rewrite peek_lit_cons. change (Ascii.eqb (lower ","%char) (lower ";"%char)) with false. cbv iota.
    cbn [obind]. destruct f as [|f]; [cbn in Hf; lia|]. cbn [parse_values]. rewrite peek_lit_cons.
    change (Ascii.eqb (lower ";"%char) (lower ";"%char)) with true. cbv iota. cbn [obind fst snd]. rewrite Ei. reflexivity.
  - change (cjoin (s2l ", ") (map enc (v :: v2 :: vals))) with (enc v ++ s2l ", " ++ cjoin (s2l ", ") (map enc (v2 :: vals))).
    rewrite <- !app_assoc.
    change (s2l ", " ++ ?X) with (","%char :: " "%char :: X). cbn [parse_values].
    rewrite (peek_semi_head _ (enc_head _ v _ Hv)).
    destruct (value_token_enc _ v ","%char (" "%char :: cjoin (s2l ", ") (map enc (v2 :: vals)) ++ ";"%char :: R) Hv (or_intror eq_refl))
      as (tok & E & Ei).
    rewrite E. cbn [obind fst snd].
    change (lstrip (","%char :: ?X)) with (","%char :: X).
    rewrite peek_lit_cons. change (Ascii.eqb (lower ","%char) (lower ","%char)) with true. cbv iota.
    rewrite consume_lit_cons. change (Ascii.eqb (lower ","%char) (lower ","%char)) with true. cbv iota.
    cbn [obind]. change (lstrip (" "%char :: ?X)) with (lstrip X).
    assert (Hh : head_ok (cjoin (s2l ", ") (map enc (v2 :: vals)) ++ ";"%char :: R)).
    { cbn [forallb] in Hw. apply andb_true_iff in Hw as [Hv2 _]. destruct vals as [|v3 vals].
      - cbn [map cjoin]. apply (enc_head _ v2 _ Hv2).
      - change (cjoin (s2l ", ") (map enc (v2 :: v3 :: vals))) with (enc v2 ++ s2l ", " ++ cjoin (s2l ", ") (map enc (v3 :: vals))).
        rewrite <- app_assoc. apply (enc_head _ v2 _ Hv2). }
    rewrite (lstrip_head _ Hh). rewrite IH; [|discriminate|exact Hw|cbn [List.length] in *; lia].
    cbn [obind fst snd]. rewrite Ei. reflexivity.
Qed.

(* ------------------------------------------------------------------ one attribute line *)
Lemma leaf_text lvl name ty vals rest :
  print_attr lvl name (ALeaf ty vals) ++ rest =
  indent lvl ++ ty ++ sp :: quote name ++ sp :: cjoin (s2l ", ") (map enc vals) ++ ";"%char :: nl :: rest.
Proof. cbn [print_attr]. rewrite <- !app_assoc. cbn [app]. rewrite <- !app_assoc. cbn [app]. rewrite <- !app_assoc. reflexivity. Qed.

Lemma wf_word_nonempty w : wf_word w = true -> w <> [].
Proof. unfold wf_word. destruct w; [rewrite andb_false_r; discriminate|discriminate]. Qed.

Lemma vals_head ty vals R :
  vals <> [] -> forallb (wf_item (is_string_type ty)) vals = true ->
  head_ok (cjoin (s2l ", ") (map enc vals) ++ ";"%char :: R).
Proof.
  intros Hn Hw. destruct vals as [|v vals]; [congruence|]. cbn [forallb] in Hw. apply andb_true_iff in Hw as [Hv _].
  destruct vals as [|v2 vals].
  - cbn [map cjoin]. apply (enc_head _ v _ Hv).
  - change (cjoin (s2l ", ") (map enc (v :: v2 :: vals))) with (enc v ++ s2l ", " ++ cjoin (s2l ", ") (map enc (v2 :: vals))).
    rewrite <- app_assoc. apply (enc_head _ v _ Hv).
Qed.

Lemma leaf_parts name ty vals :
  wf_aval name (ALeaf ty vals) = true ->
  name <> [] /\ forallb legal name = true /\ ty <> [] /\ forallb nonspace ty = true /\ not_brace_first ty = true /\
  vals <> [] /\ forallb (wf_item (is_string_type ty)) vals = true.
Proof.
  cbn [wf_aval]. intros H. apply andb_true_iff in H as [H Hv]. apply andb_true_iff in H as [H Hn].
  apply andb_true_iff in H as [Hl Hw]. unfold wf_leafname in Hl. apply andb_true_iff in Hl as [Hl1 Hl2].
  pose proof (wf_word_nonempty ty Hw) as Hty. unfold wf_word in Hw. apply andb_true_iff in Hw as [Hw1 Hw2].
  repeat split; try assumption.
  - destruct name; [discriminate|discriminate].
  - destruct vals; [discriminate|discriminate].
Qed.

Lemma parse_attribute_print lvl name ty vals f rest :
  wf_aval name (ALeaf ty vals) = true -> List.length vals < f ->
  parse_attribute f (lstrip (print_attr lvl name (ALeaf ty vals) ++ rest)) = Some (name, ALeaf ty vals, lstrip rest).
Proof.
  intros Hw Hf. destruct (leaf_parts _ _ _ Hw) as (Hn & Hl & Hty & Hts & _ & Hvn & Hv).
  rewrite leaf_text, lstrip_indent, (quote_fix name Hl).
  rewrite (lstrip_word ty _ Hty Hts). unfold parse_attribute.
  rewrite (consume_class_stop nonspace ty sp); [|exact Hty|exact Hts|reflexivity].
  cbn [obind fst snd]. change (lstrip (sp :: ?X)) with (lstrip X).
  assert (Hns : forallb nonspace name = true) by (apply (forallb_impl legal); [apply legal_nonspace|exact Hl]).
  rewrite (lstrip_word name _ Hn Hns).
  rewrite (consume_class_stop nonspace name sp); [|exact Hn|exact Hns|reflexivity].
  cbn [obind fst snd]. change (lstrip (sp :: ?X)) with (lstrip X).
  rewrite (lstrip_head _ (vals_head ty vals _ Hvn Hv)).
  rewrite parse_values_print by assumption.
  cbn [obind fst snd]. rewrite consume_lit_cons. change (Ascii.eqb (lower ";"%char) (lower ";"%char)) with true. cbv iota.
  cbn [obind]. change (lstrip (nl :: rest)) with (lstrip rest). reflexivity.
Qed.

Lemma span_space_one c X : is_space c = false -> span is_space (sp :: c :: X) = ([sp], c :: X).
Proof. intros H. apply (span_stop is_space [sp] c X); [reflexivity|exact H]. Qed.

Lemma peek_container_word w c X :
  w <> [] -> forallb nonspace w = true -> is_space c = false ->
  peek_container (w ++ sp :: c :: X) = Ascii.eqb c "{"%char.
Proof.
  intros Hn Hw Hc. unfold peek_container. rewrite (span_stop nonspace w sp); [|exact Hw|reflexivity].
  destruct w as [|x w]; [congruence|]. rewrite (span_space_one c X Hc). reflexivity.
Qed.

Lemma peek_close_word w X : not_brace_first w = true -> peek_lit ["}"%char] (w ++ X) = false.
Proof.
  destruct w as [|c w]; [discriminate|]. cbn [not_brace_first app]. intros H. apply andb_true_iff in H as [H _].
  rewrite peek_lit_cons. destruct c as [[] [] [] [] [] [] [] []]; try reflexivity; discriminate H.
Qed.

(* ------------------------------------------------------------------ containers *)
Lemma until_close_print {E} (p : chars -> option (E * chars)) (pr : E -> chars) es :
  forall n T,
  (forall e r, In e es -> p (lstrip (pr e ++ r)) = Some (e, lstrip r)) ->
  (forall e r, In e es -> peek_lit ["}"%char] (lstrip (pr e ++ r)) = false) ->
  peek_lit ["}"%char] (lstrip T) = true -> List.length es < n ->
  until_close p n (lstrip (flat_map pr es ++ T)) = Some (es, lstrip T).
Proof.
  induction es as [|e es IH]; intros n T Hp Hk HT Hn.
  - destruct n as [|n]; [cbn in Hn; lia|]. cbn [flat_map app until_close]. rewrite HT. reflexivity.
  - destruct n as [|n]; [cbn in Hn; lia|]. cbn [flat_map]. rewrite <- app_assoc. cbn [until_close].
    rewrite Hk by (left; reflexivity). rewrite Hp by (left; reflexivity). cbn [obind fst snd].
    rewrite IH; [reflexivity| | |exact HT|cbn in Hn; lia].
    + intros e' r Hin. apply Hp. right. exact Hin.
    + intros e' r Hin. apply Hk. right. exact Hin.
Qed.

Definition pr_entry (lvl : nat) (p : chars * aval) : chars := match p with (n, x) => print_attr lvl n x end.

Lemma dict_text lvl name kids rest :
  print_attr lvl name (ADict kids) ++ rest =
  indent lvl ++ name ++ sp :: "{"%char :: nl :: (flat_map (pr_entry (S lvl)) kids ++ (indent lvl ++ "}"%char :: nl :: rest)).
Proof. cbn [print_attr]. rewrite <- !app_assoc. cbn [app]. rewrite <- !app_assoc. cbn [app]. reflexivity. Qed.

Lemma entry_not_close lvl n v r : wf_aval n v = true -> peek_lit ["}"%char] (lstrip (print_attr lvl n v ++ r)) = false.
Proof.
  intros Hw. destruct v as [ty vals|kids].
  - destruct (leaf_parts _ _ _ Hw) as (_ & _ & Hty & Hts & Hb & _ & _).
    rewrite leaf_text, lstrip_indent, (lstrip_word ty _ Hty Hts). apply peek_close_word, Hb.
  - cbn [wf_aval] in Hw. apply andb_true_iff in Hw as [Hw _]. pose proof (wf_word_nonempty n Hw) as Hn.
    unfold wf_word in Hw. apply andb_true_iff in Hw as [Hw1 Hw2].
    rewrite dict_text, lstrip_indent, (lstrip_word n _ Hn Hw1). apply peek_close_word, Hw2.
Qed.

Lemma in_sum_le2 (k : chars * aval) ks : In k ks -> asize (snd k) <= list_sum (map (fun p => asize (snd p)) ks).
Proof.
  induction ks as [|x ks IH]; intros H; [destruct H|]. cbn [map list_sum fold_right]. destruct H as [-> | H]; [lia|].
  specialize (IH H). unfold list_sum in IH. lia.
Qed.

Lemma parse_entry_print v : forall name lvl fuel rest,
  wf_aval name v = true -> asize v <= fuel ->
  parse_entry (parse_container fuel) (parse_attribute fuel) (lstrip (print_attr lvl name v ++ rest)) =
  Some (name, v, lstrip rest).
Proof.
  induction v as [ty vals|kids IH] using aval_ind2; intros name lvl fuel rest Hw Hf.
  - unfold parse_entry.
    assert (Hpc : peek_container (lstrip (print_attr lvl name (ALeaf ty vals) ++ rest)) = false).
    { destruct (leaf_parts _ _ _ Hw) as (Hn & Hl & Hty & Hts & _ & _ & _).
      rewrite leaf_text, lstrip_indent, (quote_fix name Hl), (lstrip_word ty _ Hty Hts).
      destruct name as [|c name]; [congruence|]. cbn [forallb] in Hl. apply andb_true_iff in Hl as [Hc _].
      cbn [app]. rewrite (peek_container_word ty c); [apply legal_not_open, Hc|exact Hty|exact Hts|].
      apply nonspace_space, legal_nonspace, Hc. }
    rewrite Hpc. apply parse_attribute_print; [exact Hw|cbn [asize] in Hf; lia].
  - cbn [wf_aval] in Hw. apply andb_true_iff in Hw as [Hwn Hk]. pose proof (wf_word_nonempty name Hwn) as Hn.
    unfold wf_word in Hwn. apply andb_true_iff in Hwn as [Hw1 Hw2].
    cbn [asize] in Hf. destruct fuel as [|f]; [lia|].
    rewrite dict_text, lstrip_indent, (lstrip_word name _ Hn Hw1). unfold parse_entry.
    rewrite (peek_container_word name "{"%char); [|exact Hn|exact Hw1|reflexivity].
    change (Ascii.eqb "{"%char "{"%char) with true. cbv iota.
    rewrite (consume_class_stop nonspace name sp); [|exact Hn|exact Hw1|reflexivity].
    cbn [obind fst snd]. change (lstrip (sp :: "{"%char :: ?X)) with ("{"%char :: X).
    cbn [parse_container]. rewrite consume_lit_cons. change (Ascii.eqb (lower "{"%char) (lower "{"%char)) with true. cbv iota.
    cbn [obind]. change (lstrip (nl :: ?X)) with (lstrip X).
    rewrite (until_close_print (parse_entry (parse_container f) (parse_attribute f)) (pr_entry (S lvl))).
    + cbn [obind fst snd]. rewrite lstrip_indent. change (lstrip ("}"%char :: ?X)) with ("}"%char :: X).
      rewrite consume_lit_cons. change (Ascii.eqb (lower "}"%char) (lower "}"%char)) with true. cbv iota.
      cbn [obind]. change (lstrip (nl :: rest)) with (lstrip rest). reflexivity.
    + intros [n x] r Hin. unfold pr_entry. rewrite Forall_forall in IH. specialize (IH (n, x) Hin). cbn [snd] in IH.
      rewrite IH; [reflexivity| |].
      * rewrite forallb_forall in Hk. apply (Hk (n, x) Hin).
      * pose proof (in_sum_le2 (n, x) kids Hin) as Hle. cbn [snd] in Hle. lia.
    + intros [n x] r Hin. unfold pr_entry. apply entry_not_close. rewrite forallb_forall in Hk. apply (Hk (n, x) Hin).
    + rewrite lstrip_indent. reflexivity.
    + lia.
Qed.

(* ------------------------------------------------------------------ whole DAS *)
Theorem parse_print_das_fuel kids fuel :
  wf_entries kids = true ->
  2 + List.length kids + list_sum (map (fun p => asize (snd p)) kids) <= fuel ->
  parse_das_fuel fuel (print_das kids) = Some kids.
Proof.
  intros Hk Hf. unfold parse_das_fuel, print_das.
  change (consume_lit (s2l "attributes") (s2l "Attributes {" ++ ?X)) with (Some ("{"%char :: X)).
  cbn [obind]. destruct fuel as [|f]; [lia|]. cbn [parse_container].
  rewrite consume_lit_cons. change (Ascii.eqb (lower "{"%char) (lower "{"%char)) with true. cbv iota.
  cbn [obind]. change (lstrip (nl :: ?X)) with (lstrip X).
  unfold print_entries. change (fun p : chars * aval => let (n, x) := p in print_attr 1 n x) with (pr_entry 1).
  rewrite (until_close_print (parse_entry (parse_container f) (parse_attribute f)) (pr_entry 1)).
  - cbn [obind fst snd]. reflexivity.
  - intros [n x] r Hin. unfold pr_entry. rewrite parse_entry_print; [reflexivity| |].
    + unfold wf_entries in Hk. rewrite forallb_forall in Hk. apply (Hk (n, x) Hin).
    + pose proof (in_sum_le2 (n, x) kids Hin) as Hle. cbn [snd] in Hle. lia.
  - intros [n x] r Hin. unfold pr_entry. apply entry_not_close.
    unfold wf_entries in Hk. rewrite forallb_forall in Hk. apply (Hk (n, x) Hin).
  - reflexivity.
  - lia.
Qed.

Lemma cjoin_len l : 2 * (List.length l - 1) <= List.length (cjoin (s2l ", ") l).
Proof.
  induction l as [|x l IH]; [cbn; lia|]. destruct l as [|y l]; [cbn; lia|].
  change (cjoin (s2l ", ") (x :: y :: l)) with (x ++ s2l ", " ++ cjoin (s2l ", ") (y :: l)).
  rewrite !app_length. cbn [List.length] in *. change (List.length (s2l ", ")) with 2. lia.
Qed.

Lemma asize_le_length v : forall name lvl, asize v + 1 <= List.length (print_attr lvl name v).
Proof.
  induction v as [ty vals|kids IH] using aval_ind2; intros name lvl.
  - cbn [asize print_attr]. rewrite !app_length. cbn [List.length]. rewrite !app_length. cbn [List.length].
    rewrite !app_length. cbn [List.length].
    pose proof (cjoin_len (map enc vals)) as H. rewrite map_length in H. lia.
  - cbn [asize print_attr]. rewrite !app_length. cbn [List.length]. rewrite !app_length. cbn [List.length].
    assert (H : List.length kids + list_sum (map (fun p => asize (snd p)) kids) <=
                List.length (flat_map (fun p : chars * aval => let (n, x) := p in print_attr (S lvl) n x) kids)).
    { induction IH as [|[n x] ks Hx _ IHks]; [cbn; lia|].
      cbn [flat_map map list_sum fold_right List.length snd]. rewrite app_length. cbn [snd] in Hx.
      specialize (Hx n (S lvl)). unfold list_sum in IHks. lia. }
    lia.
Qed.

Theorem parse_print_das kids : wf_entries kids = true -> parse_das (print_das kids) = Some kids.
Proof.
  intros Hk. unfold parse_das. apply parse_print_das_fuel; [exact Hk|].
  unfold print_das, print_entries. rewrite !app_length. cbn [List.length]. rewrite !app_length. cbn [List.length].
  assert (H : List.length kids + list_sum (map (fun p => asize (snd p)) kids) <=
              List.length (flat_map (fun p : chars * aval => let (n, x) := p in print_attr 1 n x) kids)).
  { clear Hk. induction kids as [|[n x] ks IHks]; [cbn; lia|].
    cbn [flat_map map list_sum fold_right List.length snd]. rewrite app_length.
    pose proof (asize_le_length x n 1). unfold list_sum in IHks. lia. }
  lia.
Qed.
