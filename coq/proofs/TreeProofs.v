(* C12: the tree invariant holds after every history of operations. *)
From PydapV Require Import Base Quote Tree.
Open Scope nat_scope.

(* ---------------------------------------------------------------- induction principle *)
Lemma node_ind2 (P : node -> Prop) :
  (forall nm i a d, P (NBase nm i a d)) ->
  (forall k nm i a ks vis, Forall P ks -> P (NStruct k nm i a ks vis)) ->
  forall n, P n.
Proof.
  intros HB HS. fix IH 1. intros [nm i a d|k nm i a ks vis]; [apply HB|].
  apply HS. induction ks as [|c ks IHks]; constructor; [apply IH|exact IHks].
Qed.

(* ---------------------------------------------------------------- names *)
Lemma chars_eqb_eq a b : chars_eqb' a b = true <-> a = b.
Proof.
  revert b; induction a as [|x a IH]; intros [|y b]; cbn; split; intros H; try discriminate; try reflexivity.
  - apply andb_true_iff in H as [H1 H2]. apply Ascii.eqb_eq in H1. apply IH in H2. congruence.
  - injection H as -> ->. rewrite Ascii.eqb_refl. cbn. now apply IH.
Qed.
Lemma chars_eqb_refl a : chars_eqb' a a = true.
Proof. now apply chars_eqb_eq. Qed.
Lemma chars_eqb_neq a b : chars_eqb' a b = false <-> a <> b.
Proof.
  split; intros H.
  - intros E. apply chars_eqb_eq in E. congruence.
  - destruct (chars_eqb' a b) eqn:E; [|reflexivity]. apply chars_eqb_eq in E. contradiction.
Qed.

Lemma memn_In x l : memn x l = true <-> In x l.
Proof.
  unfold memn. rewrite existsb_exists. split.
  - intros (y & Hy & E). apply chars_eqb_eq in E. now subst.
  - intros H. exists x. split; [assumption|apply chars_eqb_refl].
Qed.
Lemma memn_false x l : memn x l = false <-> ~ In x l.
Proof.
  split; intros H.
  - intros Hi. apply memn_In in Hi. congruence.
  - destruct (memn x l) eqn:E; [|reflexivity]. apply memn_In in E. contradiction.
Qed.
Lemma nodupb_NoDup l : nodupb l = true <-> NoDup l.
Proof.
  induction l as [|x l IH]; cbn; split; intros H; try constructor; try reflexivity.
  - apply andb_true_iff in H as [H1 H2]. apply negb_true_iff, memn_false in H1. exact H1.
  - apply andb_true_iff in H as [H1 H2]. now apply IH.
  - inversion H as [|? ? Hn Hd]; subst. apply andb_true_iff; split.
    + apply negb_true_iff, memn_false. exact Hn.
    + now apply IH.
Qed.

Notation names ks := (map nname ks) (only parsing).

Lemma find_kid_some key ks : In key (names ks) -> exists c, find_kid key ks = Some c /\ nname c = key /\ In c ks.
Proof.
  induction ks as [|k ks IH]; cbn; [contradiction|]. intros [E|H].
  - subst. rewrite chars_eqb_refl. exists k; repeat split; now left.
  - destruct (chars_eqb' key (nname k)) eqn:E.
    + apply chars_eqb_eq in E. exists k; repeat split; [now symmetry|now left].
    + destruct (IH H) as (c & Hc & Hn & Hi). exists c; repeat split; try assumption. now right.
Qed.
Lemma find_kid_none key ks : ~ In key (names ks) -> find_kid key ks = None.
Proof.
  induction ks as [|k ks IH]; cbn; [reflexivity|]. intros H.
  destruct (chars_eqb' key (nname k)) eqn:E.
  - apply chars_eqb_eq in E. exfalso. apply H. now left.
  - apply IH. intros Hi. apply H. now right.
Qed.
Lemma find_kid_In key ks c : find_kid key ks = Some c -> In c ks /\ nname c = key.
Proof.
  induction ks as [|k ks IH]; cbn; [discriminate|].
  destruct (chars_eqb' key (nname k)) eqn:E.
  - intros [= <-]. apply chars_eqb_eq in E. split; [now left|now symmetry].
  - intros H. destruct (IH H). split; [now right|assumption].
Qed.

(* ---------------------------------------------------------------- invariant *)
Definition ideqb (a b : id_t) : bool :=
  (fix go (a b : id_t) := match a, b with
                          | [], [] => true
                          | x :: a', y :: b' => chars_eqb' x y && go a' b'
                          | _, _ => false
                          end) a b.
Lemma ideqb_eq a b : ideqb a b = true <-> a = b.
Proof.
  revert b; induction a as [|x a IH]; intros [|y b]; cbn; split; intros H; try discriminate; try reflexivity.
  - apply andb_true_iff in H as [H1 H2]. apply chars_eqb_eq in H1. apply IH in H2. congruence.
  - injection H as -> ->. rewrite chars_eqb_refl. cbn. now apply IH.
Qed.

(* structure: every container lists every child once (dict keys distinct, visible keys distinct
   and present), recursively for ALL children *)
Fixpoint wfb (n : node) : bool :=
  match n with
  | NBase _ _ _ _ => true
  | NStruct k nm i a ks vis =>
      nodupb (map nname ks) && nodupb vis && forallb (fun v => memn v (map nname ks)) vis && forallb wfb ks
  end.

(* ids: every visible child's id is its parent's id followed by its name (just its name below the
   dataset), recursively *)
Fixpoint ids_okb (n : node) : bool :=
  match n with
  | NBase _ _ _ _ => true
  | NStruct k nm i a ks vis =>
      forallb (fun c => if memn (nname c) vis then ideqb (nid c) (child_id k i (nname c)) && ids_okb c else true) ks
  end.

Definition Inv (n : node) : Prop := wfb n = true /\ ids_okb n = true.
(* the structural half alone (b = false) or the full invariant (b = true): hidden children are
   only known to satisfy the structural half *)
Definition InvG (b : bool) (n : node) : Prop := wfb n = true /\ (b = true -> ids_okb n = true).
Lemma InvG_true n : InvG true n <-> Inv n.
Proof. unfold InvG, Inv. intuition. Qed.
Lemma InvG_false n : InvG false n <-> wfb n = true.
Proof. unfold InvG. intuition discriminate. Qed.

Lemma wfb_struct k nm i a ks vis :
  wfb (NStruct k nm i a ks vis) = true <->
  NoDup (names ks) /\ NoDup vis /\ incl vis (names ks) /\ Forall (fun c => wfb c = true) ks.
Proof.
  cbn [wfb]. rewrite !andb_true_iff, !nodupb_NoDup, !forallb_forall. split.
  - intros [[[H1 H2] H3] H4]. repeat split; try assumption.
    + intros v Hv. apply memn_In, H3, Hv.
    + apply Forall_forall, H4.
  - intros (H1 & H2 & H3 & H4). repeat split; try assumption.
    + intros v Hv. apply memn_In, H3, Hv.
    + apply Forall_forall, H4.
Qed.

Lemma ids_struct k nm i a ks vis :
  ids_okb (NStruct k nm i a ks vis) = true <->
  Forall (fun c => In (nname c) vis -> nid c = child_id k i (nname c) /\ ids_okb c = true) ks.
Proof.
  cbn [ids_okb]. rewrite forallb_forall, Forall_forall. split; intros H c Hc.
  - intros Hv. specialize (H c Hc). apply memn_In in Hv. rewrite Hv in H.
    apply andb_true_iff in H as [H1 H2]. apply ideqb_eq in H1. now split.
  - specialize (H c Hc). destruct (memn (nname c) vis) eqn:E; [|reflexivity].
    apply memn_In in E. destruct (H E) as [H1 H2]. apply andb_true_iff; split; [now apply ideqb_eq|assumption].
Qed.

(* ---------------------------------------------------------------- omap *)
Lemma omap_Forall2 {A B} (g : A -> option B) (R : A -> B -> Prop) l :
  Forall (fun x => exists y, g x = Some y /\ R x y) l ->
  exists l', omap g l = Some l' /\ Forall2 R l l'.
Proof.
  induction 1 as [|x l (y & Hy & Hr) _ (l' & Hl & HF)]; cbn.
  - exists []; split; [reflexivity|constructor].
  - rewrite Hy. cbn. rewrite Hl. cbn. exists (y :: l'); split; [reflexivity|now constructor].
Qed.

Lemma Forall2_names (R : node -> node -> Prop) ks ks' :
  Forall2 (fun c c' => nname c' = nname c /\ R c c') ks ks' -> names ks' = names ks.
Proof. induction 1 as [|c c' ks ks' [Hn _] _ IH]; cbn [map]; [reflexivity|]. now rewrite Hn, IH. Qed.

(* ---------------------------------------------------------------- set_id *)
Lemma set_id_ok n : forall i,
  wfb n = true ->
  exists n', set_id i n = Some n' /\ nname n' = nname n /\ nid n' = i /\ wfb n' = true /\ ids_okb n' = true.
Proof.
  induction n as [nm i0 a d|k nm i0 a ks vis IH] using node_ind2; intros i Hwf.
  - eexists; repeat split; reflexivity.
  - apply wfb_struct in Hwf as (Hnd & Hvd & Hincl & Hkids).
    cbn [set_id].
    assert (Hall : forallb (fun v => match find_kid v ks with Some _ => true | None => false end) vis = true).
    { apply forallb_forall. intros v Hv. destruct (find_kid_some v ks (Hincl v Hv)) as (c & -> & _). reflexivity. }
    rewrite Hall.
    set (g := fun c => if memn (nname c) vis then set_id (child_id k i (nname c)) c else Some c).
    assert (HF : Forall (fun c => exists c', g c = Some c' /\
                  (nname c' = nname c /\ (wfb c' = true /\
                   (In (nname c) vis -> nid c' = child_id k i (nname c) /\ ids_okb c' = true)))) ks).
    { rewrite Forall_forall in IH, Hkids |- *. intros c Hc. unfold g.
      destruct (memn (nname c) vis) eqn:E.
      - destruct (IH c Hc (child_id k i (nname c)) (Hkids c Hc)) as (c' & E1 & E2 & E3 & E4 & E5).
        exists c'. split; [assumption|]. split; [assumption|]. split; [assumption|]. intros _. now split.
      - exists c. split; [reflexivity|]. split; [reflexivity|]. split; [now apply Hkids|].
        intros Hv. apply memn_In in Hv. congruence. }
    destruct (omap_Forall2 g _ ks HF) as (ks' & Eo & F2).
    rewrite Eo. cbn [obind]. eexists; split; [reflexivity|].
    assert (Hnames : names ks' = names ks) by (eapply Forall2_names; exact F2).
    split; [reflexivity|]. split; [reflexivity|]. split.
    + apply wfb_struct. rewrite Hnames. repeat split; try assumption.
      clear -F2. induction F2 as [|c c' ks ks' (_ & Hw & _) _ IH2]; constructor; assumption.
    + apply ids_struct. clear -F2.
      induction F2 as [|c c' ks ks' (Hn & _ & Hi) _ IH2]; constructor; [|assumption].
      rewrite Hn. exact Hi.
Qed.

(* ---------------------------------------------------------------- list surgery *)
Lemma names_remove_kid key ks : names (remove_kid key ks) = remove_first key (names ks).
Proof.
  induction ks as [|k ks IH]; cbn; [reflexivity|].
  destruct (chars_eqb' key (nname k)); cbn; [reflexivity|now rewrite IH].
Qed.
Lemma In_remove_first x key l : In x (remove_first key l) -> In x l.
Proof.
  induction l as [|y l IH]; cbn; [trivial|]. destruct (chars_eqb' key y); cbn; intuition.
Qed.
Lemma NoDup_remove_first key l : NoDup l -> NoDup (remove_first key l) /\ ~ In key (remove_first key l).
Proof.
  induction 1 as [|y l Hy Hd [IH1 IH2]]; cbn; [split; [constructor|tauto]|].
  destruct (chars_eqb' key y) eqn:E.
  - apply chars_eqb_eq in E. subst. split; assumption.
  - apply chars_eqb_neq in E. split.
    + constructor; [|assumption]. intros Hi. apply Hy. eapply In_remove_first, Hi.
    + intros [Hi|Hi]; [congruence|contradiction].
Qed.
Lemma In_remove_first_other x key l : x <> key -> In x l -> In x (remove_first key l).
Proof.
  intros Hne. induction l as [|y l IH]; cbn; [trivial|]. intros [E|H].
  - subst. destruct (chars_eqb' key x) eqn:E; [apply chars_eqb_eq in E; congruence|now left].
  - destruct (chars_eqb' key y); [assumption|right; now apply IH].
Qed.
Lemma In_remove_kid c key ks : In c (remove_kid key ks) -> In c ks.
Proof.
  induction ks as [|k ks IH]; cbn; [trivial|]. destruct (chars_eqb' key (nname k)); cbn; intuition.
Qed.
Lemma remove_first_notin key l : ~ In key l -> remove_first key l = l.
Proof.
  induction l as [|y l IH]; cbn; [reflexivity|]. intros H.
  destruct (chars_eqb' key y) eqn:E; [apply chars_eqb_eq in E; subst; exfalso; apply H; now left|].
  f_equal. apply IH. intros Hi. apply H. now right.
Qed.

Lemma names_replace_kid item ks :
  names (replace_kid item ks) = if memn (nname item) (names ks) then names ks else names ks ++ [nname item].
Proof.
  induction ks as [|k ks IH]; cbn; [reflexivity|].
  destruct (chars_eqb' (nname item) (nname k)) eqn:E; cbn.
  - apply chars_eqb_eq in E. now rewrite E.
  - rewrite IH. fold (memn (nname item) (names ks)). destruct (memn (nname item) (names ks)); reflexivity.
Qed.
Lemma In_replace_kid c item ks :
  NoDup (names ks) -> In c (replace_kid item ks) -> c = item \/ (In c ks /\ nname c <> nname item).
Proof.
  induction ks as [|k ks IH]; cbn; intros Hnd.
  - intros [E|[]]; now left.
  - inversion Hnd as [|? ? Hk Hd]; subst.
    destruct (chars_eqb' (nname item) (nname k)) eqn:E; cbn.
    + apply chars_eqb_eq in E. intros [Hc|Hc]; [now left|]. right. split; [now right|].
      intros En. apply Hk. rewrite <- E, <- En. now apply in_map.
    + apply chars_eqb_neq in E. intros [Hc|Hc].
      * subst. right. split; [now left|congruence].
      * destruct (IH Hd Hc) as [H|[H1 H2]]; [now left|right; split; [now right|assumption]].
Qed.

Lemma NoDup_snoc {A} (l : list A) x : NoDup l -> ~ In x l -> NoDup (l ++ [x]).
Proof.
  induction 1 as [|y l Hy Hd IH]; cbn; intros Hx.
  - constructor; [intros []|constructor].
  - constructor.
    + intros Hi. apply in_app_or in Hi as [Hi|[E|[]]]; [contradiction|]. subst. apply Hx. now left.
    + apply IH. intros Hi. apply Hx. now right.
Qed.

(* ---------------------------------------------------------------- delitem *)
Lemma delitem_ok b n key n' :
  InvG b n -> delitem n key = Some n' -> InvG b n' /\ nname n' = nname n /\ nid n' = nid n.
Proof.
  intros [Hw Hi]. destruct n as [|k nm i a ks vis]; [discriminate|]. cbn [delitem].
  destruct (find_kid key ks) as [c|] eqn:Ef; [|discriminate]. intros [= <-].
  apply wfb_struct in Hw as (Hnd & Hvd & Hincl & Hkids).
  destruct (NoDup_remove_first key (names ks) Hnd) as [Hnd' Hnot].
  destruct (NoDup_remove_first key vis Hvd) as [Hvd' Hvnot].
  split; [split|split; reflexivity].
  - apply wfb_struct. rewrite names_remove_kid. repeat split; try assumption.
    + intros v Hv. assert (v <> key) by (intros ->; contradiction).
      apply In_remove_first_other; [assumption|]. apply Hincl. eapply In_remove_first, Hv.
    + rewrite Forall_forall in Hkids |- *. intros x Hx. apply Hkids. eapply In_remove_kid, Hx.
  - intros Hb. specialize (Hi Hb). rewrite ids_struct in Hi.
    apply ids_struct. rewrite Forall_forall in Hi |- *. intros x Hx Hv.
    apply Hi; [eapply In_remove_kid, Hx|eapply In_remove_first, Hv].
Qed.

(* ---------------------------------------------------------------- setitem *)
Lemma setitem_ok b n key item n' :
  InvG b n -> wfb item = true -> setitem n key item = Some n' ->
  InvG b n' /\ nname n' = nname n /\ nid n' = nid n.
Proof.
  intros HI Hwi. destruct n as [|k nm i a ks vis]; [discriminate|]. cbn [setitem].
  destruct (negb (chars_eqb' (quote key) (nname item))) eqn:Ek; [discriminate|].
  apply negb_false_iff, chars_eqb_eq in Ek.
  (* after the optional delete *)
  assert (Hmid : forall n1, (if memn (quote key) vis then delitem (NStruct k nm i a ks vis) (quote key)
                             else Some (NStruct k nm i a ks vis)) = Some n1 ->
                 exists ks1 vis1, n1 = NStruct k nm i a ks1 vis1 /\ InvG b n1 /\ ~ In (quote key) vis1).
  { intros n1. destruct (memn (quote key) vis) eqn:Em.
    - intros Hd. pose proof (delitem_ok _ _ _ _ HI Hd) as (HI1 & _ & _).
      cbn [delitem] in Hd. destruct (find_kid (quote key) ks); [|discriminate]. injection Hd as <-.
      do 2 eexists; split; [reflexivity|]. split; [assumption|].
      destruct HI as [Hw _]. apply wfb_struct in Hw as (_ & Hvd & _).
      apply NoDup_remove_first, Hvd.
    - intros [= <-]. do 2 eexists; split; [reflexivity|]. split; [assumption|]. now apply memn_false. }
  destruct (if memn (quote key) vis then delitem (NStruct k nm i a ks vis) (quote key)
            else Some (NStruct k nm i a ks vis)) as [n1|] eqn:E1; [|discriminate].
  destruct (Hmid n1 eq_refl) as (ks1 & vis1 & -> & [Hw1 Hi1] & Hnotin). cbn [obind].
  destruct (set_id_ok item (child_id k i (nname item)) Hwi) as (item' & Es & Hn' & Hid' & Hw' & Hi').
  unfold set_id'. rewrite Es. cbn [obind]. intros [= <-].
  apply wfb_struct in Hw1 as (Hnd & Hvd & Hincl & Hkids).
  split; [split|split; reflexivity].
  - apply wfb_struct. rewrite names_replace_kid, Hn'.
    assert (Hcases : (memn (nname item) (names ks1) = true /\ In (nname item) (names ks1)) \/
                     (memn (nname item) (names ks1) = false /\ ~ In (nname item) (names ks1))).
    { destruct (memn (nname item) (names ks1)) eqn:E; [left|right]; split; try reflexivity;
        [now apply memn_In|now apply memn_false]. }
    repeat split.
    + destruct Hcases as [[-> _]|[-> Hn]]; [assumption|]. now apply NoDup_snoc.
    + now apply NoDup_snoc.
    + intros v Hv. apply in_app_or in Hv as [Hv|[<-|[]]].
      * destruct Hcases as [[-> _]|[-> _]]; [now apply Hincl|apply in_or_app; left; now apply Hincl].
      * rewrite Ek. destruct Hcases as [[-> Hin]|[-> _]]; [assumption|apply in_or_app; right; now left].
    + rewrite Forall_forall in Hkids |- *. intros x Hx.
      destruct (In_replace_kid x item' ks1 Hnd Hx) as [->|[Hx' _]]; [assumption|now apply Hkids].
  - intros Hb. specialize (Hi1 Hb). rewrite ids_struct in Hi1.
    apply ids_struct. rewrite Forall_forall in Hi1 |- *. intros x Hx Hv.
    destruct (In_replace_kid x item' ks1 Hnd Hx) as [->|[Hx' Hne]].
    + rewrite Hn', Hid'. split; [reflexivity|assumption].
    + apply Hi1; [assumption|]. apply in_app_or in Hv as [Hv|[E|[]]]; [assumption|].
      exfalso. apply Hne. rewrite Hn', <- Ek. now symmetry.
Qed.

(* ---------------------------------------------------------------- copy / select *)
Lemma copy_ids_shape i n : nname (copy_ids i n) = nname n /\ nid (copy_ids i n) = i.
Proof. destruct n; cbn; split; reflexivity. Qed.

Lemma names_copy k i ks : names (map (fun c => copy_ids (child_id k i (nname c)) c) ks) = names ks.
Proof.
  rewrite map_map. apply map_ext. intros c. apply copy_ids_shape.
Qed.

(* after a copy EVERY child (hidden ones included) carries the id derived from its new parent *)
Fixpoint ids_allb (n : node) : bool :=
  match n with
  | NBase _ _ _ _ => true
  | NStruct k nm i a ks vis => forallb (fun c => ideqb (nid c) (child_id k i (nname c)) && ids_allb c) ks
  end.

Lemma ids_all_ok n : ids_allb n = true -> ids_okb n = true.
Proof.
  induction n as [nm i a d|k nm i a ks vis IH] using node_ind2; [reflexivity|].
  cbn [ids_allb ids_okb]. rewrite !forallb_forall. intros H c Hc. specialize (H c Hc).
  apply andb_true_iff in H as [H1 H2]. rewrite Forall_forall in IH.
  destruct (memn (nname c) vis); [|reflexivity]. rewrite H1. cbn. now apply IH.
Qed.

Lemma copy_ids_all n : forall i, ids_allb (copy_ids i n) = true.
Proof.
  induction n as [nm i0 a d|k nm i0 a ks vis IH] using node_ind2; intros i; [reflexivity|].
  cbn [copy_ids ids_allb]. apply forallb_forall. intros x Hx. apply in_map_iff in Hx as (c & <- & Hc).
  destruct (copy_ids_shape (child_id k i (nname c)) c) as [E1 E2]. rewrite E1, E2.
  apply andb_true_iff; split; [now apply ideqb_eq|]. rewrite Forall_forall in IH. now apply IH.
Qed.

Lemma copy_ids_wf n : forall i, wfb n = true -> wfb (copy_ids i n) = true.
Proof.
  induction n as [nm i0 a d|k nm i0 a ks vis IH] using node_ind2; intros i Hw; [reflexivity|].
  apply wfb_struct in Hw as (Hnd & Hvd & Hincl & Hkids). cbn [copy_ids].
  apply wfb_struct. rewrite names_copy. repeat split; try assumption.
  rewrite Forall_forall in IH, Hkids |- *. intros x Hx. apply in_map_iff in Hx as (c & <- & Hc).
  apply IH; [assumption|now apply Hkids].
Qed.

Lemma copy_ids_ok n : forall i, wfb n = true -> Inv (copy_ids i n).
Proof. intros i Hw. split; [now apply copy_ids_wf|apply ids_all_ok, copy_ids_all]. Qed.

Lemma copy_ok n : wfb n = true -> Inv (copy n) /\ nname (copy n) = nname n /\ nid (copy n) = nid n.
Proof.
  intros Hw. unfold copy. split; [now apply copy_ids_ok|apply copy_ids_shape].
Qed.

Lemma select_ok n keys s : wfb n = true -> select n keys = Some s -> Inv s /\ nname s = nname n /\ nid s = nid n.
Proof.
  intros Hw. unfold select. destruct (copy_ok n Hw) as ([Hwc _] & Hcn & Hci).
  pose proof (copy_ids_all n (nid n)) as Hall. fold (copy n) in Hall.
  destruct (copy n) as [|k nm i a ks vis] eqn:Ec; [discriminate|].
  match goal with |- context [if ?c then _ else _] => destruct c eqn:E end; [|discriminate].
  intros [= <-]. apply andb_true_iff in E as [E1 E2].
  apply wfb_struct in Hwc as (Hnd & Hvd & Hincl & Hkids).
  split; [split|split; assumption].
  - apply wfb_struct. repeat split; try assumption; [now apply nodupb_NoDup|].
    intros v Hv. rewrite forallb_forall in E1. specialize (E1 v Hv).
    destruct (find_kid v ks) as [c|] eqn:Ef; [|discriminate].
    apply find_kid_In in Ef as [Hc <-]. now apply in_map.
  - (* every child of a copy has its derived id, whatever subset is made visible *)
    apply ids_all_ok. exact Hall.
Qed.

(* ---------------------------------------------------------------- attributes, data *)
Lemma set_attr_ok b n k v n' : InvG b n -> set_attr n k v = Some n' -> InvG b n' /\ nname n' = nname n /\ nid n' = nid n.
Proof. intros HI [= <-]. destruct n; (split; [exact HI|split; reflexivity]). Qed.
Lemma set_data_ok b n d n' : InvG b n -> set_data n d = Some n' -> InvG b n' /\ nname n' = nname n /\ nid n' = nid n.
Proof. intros HI. destruct n; [|discriminate]. intros [= <-]. split; [split; [reflexivity|intros; reflexivity]|split; reflexivity]. Qed.

(* ---------------------------------------------------------------- editing below a path *)
Definition preserves (f : node -> option node) : Prop :=
  forall b n n', InvG b n -> f n = Some n' -> InvG b n' /\ nname n' = nname n /\ nid n' = nid n.

Lemma map_kid_ok key f ks ks' :
  map_kid key f ks = Some ks' ->
  exists pre c c' post, ks = pre ++ c :: post /\ ks' = pre ++ c' :: post /\ f c = Some c' /\ nname c = key /\
                        ~ In key (names pre).
Proof.
  revert ks'; induction ks as [|k ks IH]; intros ks'; cbn; [discriminate|].
  destruct (chars_eqb' key (nname k)) eqn:E.
  - destruct (f k) as [k'|] eqn:Ef; [|discriminate]. intros [= <-].
    apply chars_eqb_eq in E. exists [], k, k', ks. repeat split; try assumption; try reflexivity.
    + now symmetry.
    + intros [].
  - destruct (map_kid key f ks) as [r'|] eqn:Er; [|discriminate]. intros [= <-].
    destruct (IH r' eq_refl) as (pre & c & c' & post & -> & -> & Hf & Hn & Hnot).
    exists (k :: pre), c, c', post. repeat split; try assumption; try reflexivity.
    apply chars_eqb_neq in E. intros [Hi|Hi]; [congruence|contradiction].
Qed.

Lemma update_at_ok path f : preserves f -> preserves (update_at path f).
Proof.
  intros Hf. induction path as [|key rest IH]; [exact Hf|].
  intros b n n' [Hw Hi]. destruct n as [|k nm i a ks vis]; [discriminate|]. cbn [update_at].
  destruct (map_kid (quote key) (update_at rest f) ks) as [ks'|] eqn:Em; [|discriminate]. intros [= <-].
  destruct (map_kid_ok _ _ _ _ Em) as (pre & c & c' & post & -> & -> & Hu & Hn & Hnot).
  apply wfb_struct in Hw as (Hnd & Hvd & Hincl & Hkids).
  rewrite Forall_forall in Hkids.
  assert (Hc : InvG (b && memn (nname c) vis) c).
  { split; [apply Hkids, in_elt|]. intros Hb. apply andb_true_iff in Hb as [Hb Hv].
    specialize (Hi Hb). rewrite ids_struct, Forall_forall in Hi.
    apply (Hi c (in_elt _ _ _)). now apply memn_In. }
  destruct (IH _ _ _ Hc Hu) as ([Hwc' Hic'] & Hnc' & Hidc').
  assert (Hnames : names (pre ++ c' :: post) = names (pre ++ c :: post)).
  { rewrite !map_app. cbn [map]. now rewrite Hnc'. }
  split; [split|split; reflexivity].
  - apply wfb_struct. rewrite Hnames. repeat split; try assumption.
    apply Forall_forall. intros x Hx. apply in_app_or in Hx as [Hx|[<-|Hx]].
    + apply Hkids, in_or_app. now left.
    + assumption.
    + apply Hkids, in_or_app. right. now right.
  - intros Hb. specialize (Hi Hb). rewrite ids_struct, Forall_forall in Hi.
    apply ids_struct, Forall_forall. intros x Hx Hv. apply in_app_or in Hx as [Hx|[<-|Hx]].
    + apply Hi; [apply in_or_app; now left|assumption].
    + rewrite Hnc' in Hv |- *. rewrite Hidc'. destruct (Hi c (in_elt _ _ _) Hv) as [E1 E2].
      split; [assumption|]. apply Hic'. rewrite Hb. cbn. now apply memn_In.
    + apply Hi; [apply in_or_app; right; now right|assumption].
Qed.

(* ---------------------------------------------------------------- node_at reaches wf nodes *)
Lemma node_at_wf path : forall n c, wfb n = true -> node_at path n = Some c -> wfb c = true.
Proof.
  induction path as [|key rest IH]; intros n c Hw; cbn [node_at]; [now intros [= <-]|].
  destruct (find_kid (quote key) (nkids n)) as [k|] eqn:Ef; [|discriminate]. cbn [obind].
  apply IH. destruct n as [|kd nm i a ks vis]; [discriminate|]. cbn [nkids] in Ef.
  apply wfb_struct in Hw as (_ & _ & _ & Hkids). rewrite Forall_forall in Hkids.
  apply Hkids. now apply find_kid_In in Ef.
Qed.

(* ---------------------------------------------------------------- one step, every history *)
Lemma Forall_set_nth {A} (P : A -> Prop) i x l : Forall P l -> P x -> Forall P (set_nth i x l).
Proof.
  intros H Hx. revert i; induction H as [|y l Hy Hl IH]; intros i; destruct i; cbn; constructor; auto.
Qed.

Lemma mk_fresh_wf f : wfb (mk_fresh f) = true.
Proof. destruct f; reflexivity. Qed.

Lemma upd_root_ok st h p f st' :
  preserves f -> Forall Inv st -> upd_root st h p f = Some st' -> Forall Inv st'.
Proof.
  intros Hf HS. unfold upd_root. destruct (nth_error st h) as [r|] eqn:En; [|discriminate]. cbn [obind].
  destruct (update_at p f r) as [r'|] eqn:Eu; [|discriminate]. intros [= <-].
  apply Forall_set_nth; [assumption|].
  apply InvG_true. eapply (update_at_ok p f Hf true r r'); [|exact Eu].
  apply InvG_true. rewrite Forall_forall in HS. apply HS. eapply nth_error_In, En.
Qed.

Theorem step_inv st o : Forall Inv st -> Forall Inv (step st o).
Proof.
  intros HS. unfold step.
  match goal with |- Forall Inv (match ?r with Some _ => _ | None => _ end) => destruct r as [st'|] eqn:E end;
    [|assumption].
  assert (Hroot : forall h r, nth_error st h = Some r -> wfb r = true).
  { intros h r Hn. rewrite Forall_forall in HS. apply (HS r). eapply nth_error_In, Hn. }
  destruct o as [h p f|h p h2 p2|h p key|h p|h p keys|h p k v|h p d|h p h2].
  - eapply upd_root_ok; [|exact HS|exact E].
    intros b n n' Hn Hs. eapply setitem_ok; [exact Hn|apply mk_fresh_wf|exact Hs].
  - destruct (nth_error st h2) as [r2|] eqn:E2; [|discriminate]. cbn [obind] in E.
    destruct (node_at p2 r2) as [src|] eqn:Es; [|discriminate]. cbn [obind] in E.
    assert (Hsrc : wfb src = true) by (eapply node_at_wf; [eapply Hroot, E2|exact Es]).
    eapply upd_root_ok; [|exact HS|exact E].
    intros b n n' Hn Hs. eapply setitem_ok; [exact Hn|apply (copy_ok src Hsrc)|exact Hs].
  - eapply upd_root_ok; [|exact HS|exact E]. intros b n n' Hn Hs. eapply delitem_ok; eassumption.
  - destruct (nth_error st h) as [r|] eqn:E1; [|discriminate]. cbn [obind] in E.
    destruct (node_at p r) as [n|] eqn:En; [|discriminate]. cbn [obind] in E. injection E as <-.
    apply Forall_app; split; [assumption|]. constructor; [|constructor].
    apply copy_ok. eapply node_at_wf; [eapply Hroot, E1|exact En].
  - destruct (nth_error st h) as [r|] eqn:E1; [|discriminate]. cbn [obind] in E.
    destruct (node_at p r) as [n|] eqn:En; [|discriminate]. cbn [obind] in E.
    destruct (select n keys) as [s|] eqn:Esel; [|discriminate]. cbn [obind] in E. injection E as <-.
    apply Forall_app; split; [assumption|]. constructor; [|constructor].
    eapply select_ok; [|exact Esel]. eapply node_at_wf; [eapply Hroot, E1|exact En].
  - eapply upd_root_ok; [|exact HS|exact E]. intros b n n' Hn Hs. eapply set_attr_ok; eassumption.
  - eapply upd_root_ok; [|exact HS|exact E]. intros b n n' Hn Hs. eapply set_data_ok; eassumption.
  - destruct (Nat.eqb h h2); [discriminate|].
    destruct (nth_error st h2) as [src|] eqn:E2; [|discriminate]. cbn [obind] in E.
    destruct (upd_root st h p (fun n => setitem n (nname src) src)) as [st1|] eqn:E1; [|discriminate].
    cbn [obind] in E. injection E as <-.
    apply Forall_set_nth; [|split; reflexivity].
    eapply upd_root_ok; [|exact HS|exact E1].
    intros b n n' Hn Hs. eapply setitem_ok; [exact Hn|eapply Hroot, E2|exact Hs].
Qed.

Theorem run_inv ops : forall st, Forall Inv st -> Forall Inv (run st ops).
Proof.
  unfold run. induction ops as [|o ops IH]; intros st H; cbn [fold_left]; [assumption|].
  apply IH, step_inv, H.
Qed.

(* ---------------------------------------------------------------- separation *)
Definition op_targets (o : op) : list nat :=
  match o with
  | OSet h _ _ | OInsertCopy h _ _ _ | ODel h _ _ | OAttr h _ _ _ | OData h _ _ => [h]
  | OCopy _ _ | OSelect _ _ _ => []
  | OMove h _ h2 => [h; h2]
  end.

Lemma nth_error_set_nth_other {A} i j (x : A) l : i <> j -> nth_error (set_nth i x l) j = nth_error l j.
Proof.
  revert i j; induction l as [|y l IH]; intros i j Hne; destruct i, j; cbn; try congruence; try reflexivity.
  apply IH. congruence.
Qed.

(* an operation changes at most the handles it edits; copies and selections only add a handle *)
Theorem step_separation st o j r :
  nth_error st j = Some r -> ~ In j (op_targets o) -> nth_error (step st o) j = Some r.
Proof.
  intros Hj Ht. unfold step.
  match goal with |- nth_error (match ?x with Some _ => _ | None => _ end) j = _ => destruct x as [st'|] eqn:E end;
    [|assumption].
  assert (Hupd : forall st0 st1 h p f, nth_error st0 j = Some r -> upd_root st0 h p f = Some st1 -> h <> j ->
                                       nth_error st1 j = Some r).
  { intros st0 st1 h p f H0 Hu Hne. unfold upd_root in Hu.
    destruct (nth_error st0 h); [|discriminate]. cbn [obind] in Hu.
    destruct (update_at p f n); [|discriminate]. injection Hu as <-.
    now rewrite nth_error_set_nth_other. }
  assert (Happ : forall x, nth_error (st ++ [x]) j = Some r).
  { intros x. rewrite nth_error_app1; [assumption|]. apply nth_error_Some. congruence. }
  destruct o as [h p f|h p h2 p2|h p key|h p|h p keys|h p k v|h p d|h p h2]; cbn [op_targets In] in Ht.
  - eapply Hupd; [exact Hj|exact E|intuition].
  - destruct (nth_error st h2); [|discriminate]. cbn [obind] in E.
    destruct (node_at p2 n); [|discriminate]. cbn [obind] in E. eapply Hupd; [exact Hj|exact E|intuition].
  - eapply Hupd; [exact Hj|exact E|intuition].
  - destruct (nth_error st h); [|discriminate]. cbn [obind] in E.
    destruct (node_at p n); [|discriminate]. injection E as <-. apply Happ.
  - destruct (nth_error st h); [|discriminate]. cbn [obind] in E.
    destruct (node_at p n); [|discriminate]. cbn [obind] in E.
    destruct (select n0 keys); [|discriminate]. injection E as <-. apply Happ.
  - eapply Hupd; [exact Hj|exact E|intuition].
  - eapply Hupd; [exact Hj|exact E|intuition].
  - destruct (Nat.eqb h h2); [discriminate|].
    destruct (nth_error st h2) as [src|]; [|discriminate]. cbn [obind] in E.
    destruct (upd_root st h p (fun n => setitem n (nname src) src)) as [st1|] eqn:E1; [|discriminate].
    cbn [obind] in E. injection E as <-.
    rewrite nth_error_set_nth_other by intuition. eapply Hupd; [exact Hj|exact E1|intuition].
Qed.

(* ---------------------------------------------------------------- lookup by id *)
(* below a dataset root, following the names of a visible variable's id from the root reaches it *)
Fixpoint lookup (path : id_t) (n : node) : option node :=
  match path with
  | [] => Some n
  | key :: rest => do c <- find_kid key (nkids n); lookup rest c
  end.

Definition is_ds (n : node) : bool := match n with NStruct KDataset _ _ _ _ _ => true | _ => false end.

(* follow VISIBLE children only; datasets are roots only *)
Fixpoint vpath (path : list name_t) (n : node) : option node :=
  match path with
  | [] => Some n
  | key :: rest =>
      if memn key (nvisible n)
      then do c <- find_kid key (nkids n); if is_ds c then None else vpath rest c
      else None
  end.

Lemma vpath_child key n c :
  Inv n -> memn key (nvisible n) = true -> find_kid key (nkids n) = Some c ->
  Inv c /\ nname c = key /\
  nid c = match n with NStruct k _ i _ _ _ => child_id k i key | _ => [] end.
Proof.
  intros [Hw Hi] Em Ef. destruct n as [|kd nm0 i0 a0 ks0 vis0]; [discriminate|]. cbn [nkids nvisible] in *.
  apply find_kid_In in Ef as [Hcin Hcn]. apply memn_In in Em.
  rewrite ids_struct, Forall_forall in Hi.
  destruct (Hi c Hcin ltac:(now rewrite Hcn)) as [Hidc Hic].
  apply wfb_struct in Hw as (_ & _ & _ & Hkids). rewrite Forall_forall in Hkids.
  repeat split; [now apply Hkids|assumption|assumption|now rewrite <- Hcn].
Qed.

Lemma vpath_below path : forall n v,
  Inv n -> is_ds n = false -> vpath path n = Some v ->
  nid v = nid n ++ path /\ lookup path n = Some v.
Proof.
  induction path as [|key rest IH]; intros n v HI Hds; cbn [vpath lookup].
  - intros [= <-]. now rewrite app_nil_r.
  - destruct (memn key (nvisible n)) eqn:Em; [|discriminate].
    destruct (find_kid key (nkids n)) as [c|] eqn:Ef; [|discriminate]. cbn [obind].
    destruct (is_ds c) eqn:Edc; [discriminate|]. intros Hv.
    destruct (vpath_child key n c HI Em Ef) as (HIc & Hcn & Hidc).
    destruct (IH c v HIc Edc Hv) as [E1 E2]. split; [|assumption].
    rewrite E1, Hidc. destruct n as [|kd nm0 i0 a0 ks0 vis0]; [discriminate|].
    destruct kd; try discriminate; cbn [child_id nid]; now rewrite <- app_assoc.
Qed.

(* Below a dataset: the id of every variable reached through visible children is exactly the chain of
   (quoted) names that reaches it, and looking that id up in the dataset returns that variable. *)
Theorem id_is_path_and_lookup ds path v :
  Inv ds -> is_ds ds = true -> path <> [] -> vpath path ds = Some v ->
  nid v = path /\ lookup (nid v) ds = Some v.
Proof.
  intros HI Hds Hne. destruct path as [|key rest]; [congruence|]. cbn [vpath].
  destruct (memn key (nvisible ds)) eqn:Em; [|discriminate].
  destruct (find_kid key (nkids ds)) as [c|] eqn:Ef; [|discriminate]. cbn [obind].
  destruct (is_ds c) eqn:Edc; [discriminate|]. intros Hv.
  destruct (vpath_child key ds c HI Em Ef) as (HIc & Hcn & Hidc).
  destruct (vpath_below rest c v HIc Edc Hv) as [E1 E2].
  assert (Hid : nid v = key :: rest).
  { rewrite E1, Hidc. destruct ds as [|kd nm0 i0 a0 ks0 vis0]; [discriminate|].
    destruct kd; try discriminate. reflexivity. }
  split; [assumption|]. rewrite Hid. cbn [lookup]. rewrite Ef. cbn [obind]. assumption.
Qed.

(* ---------------------------------------------------------------- copies share data *)
Fixpoint tokens (n : node) : list N :=
  match n with NBase _ _ _ d => [d] | NStruct _ _ _ _ ks _ => flat_map tokens ks end.

Lemma copy_ids_tokens n : forall i, tokens (copy_ids i n) = tokens n.
Proof.
  induction n as [nm i0 a d|k nm i0 a ks vis IH] using node_ind2; intros i; [reflexivity|].
  cbn [copy_ids tokens]. induction IH as [|c ks Hc _ IHks]; [reflexivity|].
  cbn [map flat_map]. now rewrite Hc, IHks.
Qed.
Theorem copy_shares_data n : tokens (copy n) = tokens n.
Proof. apply copy_ids_tokens. Qed.
